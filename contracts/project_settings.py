"""
Contracts on ProjectSettings (atomica/project.py): the simulation time grid (properties C03, C05-style rounding, C15).

Mode FPSTD: every float operation of the CODE is rounded (standard model); the specification is over the exact reals.  Inputs
are the exact values of the float arguments; q = (end - start)/dt is their exact quotient, m = max(1, q).
Band for the number of steps n chosen by the sim_end setter (DESIGN.md C03):   q - 1e-6*m <= n < q + 1 - 1e-12*m
 - n = k whenever q is the integer k (an integer number of steps must not be rounded up by floating-point noise),
 - n = ceil(q) whenever q is farther than 1e-6*m from an integer, either in the grey zone in between.
"""
SCHEMA = {
    "__families__": ["ProjectSettings"],
    "ProjectSettings": {"_sim_start": "real", "_sim_end": "real", "_sim_dt": "real"},
}
schema = "project_settings"
CONTRACTS = {}

_ranges = ["self._sim_dt >= 1/1000", "self._sim_dt <= 100", "self._sim_start >= -10000", "self._sim_start <= 10000"]
_q = "((sim_end - self._sim_start) / self._sim_dt)"
_N = "((self._sim_end - self._sim_start) / self._sim_dt)"

# The sim_end setter itself (round-if-within-1e-9-else-ceil of a rounded quotient) is NOT under a discharged contract: its
# obligations mix ToInt with products of rounding terms and stayed undecided/unstable in z3 and cvc5 (DESIGN.md, C03).  It is
# covered by the bounded sweep at the end of this file, labelled bounded and never counted as proved.

# tvec: given an end that is on the grid (n steps), exactly n+1 points spaced dt
CONTRACTS["project:ProjectSettings.tvec"] = dict(
    schema=schema, mode="FPSTD",
    ghost_params={"n": "int"},
    requires=_ranges + ["n >= 1", "n <= 1000000", "abs(%s - n) <= n / 1000000000" % _N],
    ensures=[
        ("C03.exactly_n_plus_one_points", "len(result) == n + 1"),
        ("C03.starts_at_start_and_ends_at_end", "result[0] == self._sim_start and implies(len(result) == n + 1, result[n] == self._sim_end)"),
        ("C03.points_are_start_plus_k_dt", "implies(len(result) == n + 1, all(abs(result[k] - (self._sim_start + k * self._sim_dt)) <= k * self._sim_dt / 100000000 for k in range(n + 1)))"),
    ],
    defined_props=["C03"],
)


# ---- the grid invariant over mathematical reals (REAL mode): after every public setter the end lies on the grid start + k*dt.
# This is the arithmetic-free part of the setter's behaviour (which branch is taken and what is stored); the floating-point
# rounding of the quotient stays with the bounded sweep below.
_on_grid = "(self._sim_end - self._sim_start) / self._sim_dt == round((self._sim_end - self._sim_start) / self._sim_dt)"
_real_ranges = ["self._sim_dt > 0"]
CONTRACTS["project:ProjectSettings.sim_end.setter"] = dict(
    schema=schema, params={"sim_end": "real"}, modular=True,   # the other setters call it: they see this contract, not its body
    requires=_real_ranges + ["sim_end >= self._sim_start"],
    modifies=["self._sim_end"],
    ensures=[
        ("C03.end_lies_on_the_grid", _on_grid),
        ("C03.end_is_the_first_grid_point_at_or_after_the_request", "(self._sim_end - self._sim_start) / self._sim_dt >= (sim_end - self._sim_start) / self._sim_dt - 1 / 100000000 and (self._sim_end - self._sim_start) / self._sim_dt < (sim_end - self._sim_start) / self._sim_dt + 1"),
    ],
    frame_props=["C03"], defined_props=["C03"])
CONTRACTS["project:ProjectSettings.sim_start.setter"] = dict(
    schema=schema, params={"sim_start": "real"},
    requires=_real_ranges + [_on_grid, "sim_start <= self._sim_end"],
    modifies=["self._sim_start", "self._sim_end"],
    ensures=[
        ("C03.end_stays_on_the_grid_of_the_new_start", _on_grid),
        ("C03.start_is_the_requested_year", "self._sim_start == sim_start"),
    ],
    frame_props=["C03"], defined_props=["C03"])
CONTRACTS["project:ProjectSettings.sim_dt.setter"] = dict(
    schema=schema, params={"sim_dt": "real"},
    requires=["sim_dt > 0", "self._sim_end >= self._sim_start"],
    modifies=["self._sim_dt", "self._sim_end"],
    ensures=[
        ("C03.end_lies_on_the_grid_of_the_new_step", _on_grid),
        ("C03.step_is_the_requested_step", "self._sim_dt == sim_dt"),
    ],
    frame_props=["C03"], defined_props=["C03"])

# update_time_vector(start, end, dt) -- the entry point of Project.update_settings and of ProjectSettings.__init__: one contract per
# combination of given / omitted arguments (an omitted argument is the constant None).  Whatever is given is stored as given, and
# the end is the first point of the NEW grid at or after the requested end (the previous end when no end is given): in
# particular a new step without a new end must re-fit the end.
for _s in (0, 1):
    for _e in (0, 1):
        for _d in (0, 1):
            if not (_s or _e or _d):
                continue
            _want_end = "end" if _e else "old(self._sim_end)"
            CONTRACTS["project:ProjectSettings.update_time_vector#%s" % "_".join(n for n, f in (("start", _s), ("end", _e), ("dt", _d)) if f)] = dict(
                schema=schema,
                params={"start": "real" if _s else "const:None", "end": "real" if _e else "const:None", "dt": "real" if _d else "const:None"},
                requires=_real_ranges + ([] if _e else [_on_grid, "self._sim_end >= self._sim_start"]) + (["dt > 0"] if _d else [])
                + (["start <= self._sim_end"] if _s else []) + (["end >= %s" % ("start" if _s else "self._sim_start")] if _e else []),
                modifies=["self._sim_start", "self._sim_end", "self._sim_dt"],
                ensures=[
                    ("C03.end_lies_on_the_grid", _on_grid),
                    ("C03.start_is_as_requested", "self._sim_start == %s" % ("start" if _s else "old(self._sim_start)")),
                    ("C03.step_is_as_requested", "self._sim_dt == %s" % ("dt" if _d else "old(self._sim_dt)")),
                    ("C03.end_is_the_first_grid_point_at_or_after_the_request",
                     "(self._sim_end - self._sim_start) / self._sim_dt >= (%s - self._sim_start) / self._sim_dt - 1 / 100000000 and (self._sim_end - self._sim_start) / self._sim_dt < (%s - self._sim_start) / self._sim_dt + 1" % (_want_end, _want_end)),
                ],
                frame_props=["C03"], defined_props=["C03"])

# the constructor: whatever the three numbers, the object starts out with its end on the grid
CONTRACTS["project:ProjectSettings.__init__"] = dict(
    schema=schema, params={"sim_start": "real", "sim_end": "real", "sim_dt": "real"},
    requires=["sim_dt > 0", "sim_end >= sim_start"],
    modifies=["self._sim_start", "self._sim_end", "self._sim_dt"],
    ensures=[
        ("C03.end_lies_on_the_grid", _on_grid),
        ("C03.start_and_step_are_as_given", "self._sim_start == sim_start and self._sim_dt == sim_dt"),
        ("C03.end_is_the_first_grid_point_at_or_after_the_request", "(self._sim_end - sim_start) / sim_dt >= (sim_end - sim_start) / sim_dt - 1 / 100000000 and (self._sim_end - sim_start) / sim_dt < (sim_end - sim_start) / sim_dt + 1"),
    ],
    frame_props=["C03"], defined_props=["C03"])

def _bounded_grid_sweep(tier="quick", seed=0):
    """BOUNDED stand-in (never counted as proved) for the rounding behaviour of the sim_end setter on real doubles: exact
    rational arithmetic (fractions) decides the band for every (start, end, dt) of a fixed catalogue plus seeded random ones"""
    import random, time
    from fractions import Fraction as F
    import atomica as at

    t0 = time.time()
    rng = random.Random(seed)
    dts = [0.1, 0.2, 0.25, 0.3, 0.7, 1 / 3, 1 / 12, 1 / 52, 1 / 365, 0.05, 0.01, 1.0, 0.5, 0.125, 0.6, 0.9, 1.1, 0.15]
    cases = [(s, e, dt) for dt in dts for s in (2000, 2000.5, 1990.25, 0.0) for e in (2035, 2020.5, 2001, 2100)]
    for _ in range(200 if tier == "quick" else 5000):
        dt = rng.choice(dts + [round(rng.uniform(0.01, 2), 2)])
        k = rng.randint(1, 2000)
        s = rng.choice([2000, 2000.5, 1995.0, 2010.25])
        cases.append((s, s + k * dt, dt))                       # an (intended) whole number of steps
        cases.append((s, s + k * dt + rng.uniform(0.01, 0.99) * dt, dt))
    bad = []
    for s, e, dt in cases:
        if e <= s:
            continue
        ps = at.ProjectSettings(sim_start=s, sim_end=e, sim_dt=dt)
        q = (F(e) - F(s)) / F(dt)
        m = max(F(1), q)
        N = (F(ps.sim_end) - F(s)) / F(dt)
        n = round(N)
        if abs(N - n) > F(1, 10 ** 6) or n < q - m / 10 ** 6 or n >= q + 1 - m / 10 ** 12:
            bad.append(dict(start=s, end=e, dt=dt, steps_chosen=float(N), exact_quotient=float(q)))
            continue
        end1 = ps.sim_end
        ps.sim_end = ps.sim_end                                   # idempotence (calibrate restores sim_end through the setter)
        if ps.sim_end != end1:
            bad.append(dict(start=s, end=e, dt=dt, drift=[end1, ps.sim_end]))
            continue
        tv = ps.tvec
        if len(tv) != n + 1 or len(tv) < 2 or abs((tv[1] - tv[0]) - dt) > 1e-9 * dt:
            bad.append(dict(start=s, end=e, dt=dt, points=len(tv), expected_points=n + 1, spacing=float(tv[1] - tv[0]) if len(tv) > 1 else None))
    ob = dict(function="project:ProjectSettings (bounded sweep)", name="BOUNDED.time_grid_on_%d_double_inputs" % len(cases), kind="bounded", status="proved" if not bad else "refuted",
              seconds=round(time.time() - t0, 2), backend="bounded-enumeration", note="bounded stand-in: %d concrete (start, end, dt) triples, exact rational oracle; not counted as proved" % len(cases))
    if bad:
        ob["replay"] = dict(verdict="violates", detail="first failing inputs: %r" % bad[:3], prestate=bad[0])
    return [ob]


EXTRA_CHECKS = {"C03": _bounded_grid_sweep, "C15": _bounded_grid_sweep}
