"""
Structural contract clauses (pyvc.flow): frame / protocol / definedness obligations decided on the AST of the real functions.
Registered per property through EXTRA_CHECKS.
"""
from pyvc import flow


def _c18(tier="quick", seed=0):
    out = []
    for mod in ("framework", "data", "excel", "programs", "parameters", "model", "cascade", "project", "optimization", "calibration", "scenarios", "results", "utils"):
        out += flow.message_construction(mod)
    for q in ("parameters:ParameterSet.load_calibration", "framework:ProjectFramework._validate", "data:ProjectData.from_spreadsheet"):
        try:
            out += flow.handler_reads_bound_names(q)
        except KeyError:
            pass
    return out


def _c16(tier="quick", seed=0):
    return flow.handler_reads_bound_names("parameters:ParameterSet.load_calibration")


def _c20(tier="quick", seed=0):
    out = flow.parameter_not_overwritten_in_loops("plotting:PlotData.__init__", ["output_aggregation", "pop_aggregation", "time_aggregation", "accumulate"])
    out += flow.no_inplace_update_of_borrowed_arrays("cascade:get_cascade_data")
    out += flow.no_inplace_update_of_borrowed_arrays("cascade:get_cascade_vals")
    return out


def _c08(tier="quick", seed=0):
    out = flow.unlink_relink_symmetric("model", ["Variable", "Compartment", "TimedCompartment", "Characteristic", "Parameter", "Link"])
    return out


def _c06(tier="quick", seed=0):
    return flow.callsites_pass("model:Parameter.set_dynamic", "set_dynamic", "progset", "progset")


_GATE = "self.programs_active and self.program_instructions.start_year <= self.t[ti] <= self.program_instructions.stop_year"


def _c09(tier="quick", seed=0):
    out = flow.assignment_is("model:Model.update_pars", "do_program_overwrite", _GATE, "programs act only from the start year to the stop year (inclusive)")
    out += flow.reads_guarded_by("model:Model.update_pars", "prog_vals", "do_program_overwrite")
    out += flow.reads_guarded_by("model:Model.update_pars", "prop_coverage", "do_program_overwrite")
    return out


def _replay_run_optimization_restores():
    """replay on the REAL Project.run_optimization: a stored optimization whose evaluation fails (its measurable names an output the model does not have);
    the project's end year must be what it was before the call"""
    _quiet()
    import atomica as at

    P = at.demo("tb_simple", do_run=False)
    end0 = P.settings.sim_end

    class _Ins:
        json = {"end_year": 2020.0, "optim_type": "outcome"}

        def make(self, project):
            ins = at.ProgramInstructions(alloc=project.progsets[0], start_year=2019)
            adj = [at.SpendingAdjustment(p, 2019, "abs", 0.0, 1e9) for p in project.progsets[0].programs.keys()]
            opt = at.Optimization(name="o", adjustments=adj, measurables=[at.MaximizeMeasurable("no_such_output", 2020)], constraints=None, maxiters=2, method="asd")
            opt.parsetname, opt.progsetname = 0, 0
            return opt, ins

    P.optim = lambda name=None: _Ins()
    failed = None
    try:
        P.run_optimization("o")
    except Exception as e:  # noqa
        failed = "%s: %s" % (type(e).__name__, str(e)[:80])
    pre = dict(project="tb_simple", end_year_before=float(end0), optimization_end_year=2020.0, evaluation="fails (%s)" % failed)
    if P.settings.sim_end != end0:
        return dict(verdict="violates", detail="after the failed optimization the project's end year is %r, it was %r before the call" % (float(P.settings.sim_end), float(end0)), prestate=pre)
    return dict(verdict="holds", detail="the project's end year is %r before and after the failed optimization" % float(end0), prestate=pre)


def _c15(tier="quick", seed=0):
    out = flow.restored_in_finally("calibration:calibrate", "project.settings.sim_end", "original_sim_end")
    return out + _attach(flow.restored_in_finally("project:Project.run_optimization", "self.settings.sim_end", "original_end"), "restored-on-every-exit", _replay_run_optimization_restores)


def _c17(tier="quick", seed=0):
    out = []
    for q in ("programs:ProgramSet.sample", "parameters:ParameterSet.sample", "utils:TimeSeries.sample"):   # (Parameter.sample / Program.sample are in-place by contract: they are called on the copies)
        try:
            out += flow.receiver_not_mutated(q)
        except KeyError:
            pass
    return out


_c09_raw = _c09


def _c09(tier="quick", seed=0):
    out = _c09_raw(tier, seed)
    # a parameter scenario pins the BASELINE values (the parameter's own default interpolation) on every simulation time before its first overwrite
    out += flow.assignment_is("scenarios:ParameterScenario.get_parset", "vals", "par.interpolate(tvec[tvec < scen_start], pop_label)", "values pinned before the first overwrite must come from the baseline interpolation")
    out += flow.assignment_is("scenarios:ParameterScenario.get_parset", "scen_start", "min(overwrite['t'])", "the scenario starts at its first overwrite year")
    return out


EXTRA_CHECKS = {"C17": _c17, "C18": _c18, "C16": _c16, "C20": _c20, "C08": _c08, "C06": _c06, "C09": _c09, "C13": _c09, "C15": _c15}


# ------------------------------------------------------------------------------------------------ replays on the real code
def _quiet():
    import warnings, logging

    warnings.simplefilter("ignore")
    logging.getLogger("atomica").setLevel(logging.ERROR)


def _udt():
    import atomica as at

    _quiet()
    P = at.demo("udt", do_run=False)
    return at, P


def _replay_default_aggregation():
    """PlotData: the value reported for an aggregated number output must not depend on another output listed before it"""
    at, P = _udt()
    res = P.run_sim(P.parsets[0])
    fw = P.framework
    rates = [n for n in fw.pars.index if fw.pars.at[n, "format"] in ("probability", "rate")][:2]
    comps = [c for c in fw.comps.index if fw.comps.at[c, "is source"] != "y" and fw.comps.at[c, "is sink"] != "y" and fw.comps.at[c, "is junction"] != "y"][:2]
    pop = list(P.data.pops.keys())[0]
    both = at.PlotData(res, outputs=[{"a": rates}, {"b": comps}], pops=pop)[res.name, pop, "b"].vals[0]
    alone = at.PlotData(res, outputs=[{"b": comps}], pops=pop)[res.name, pop, "b"].vals[0]
    pre = dict(project="udt", outputs=[{"a": rates}, {"b": comps}], pop=pop)
    if abs(both - alone) > 1e-9 * max(1, abs(alone)):
        return dict(verdict="violates", detail="aggregate b=%s reports %r when requested after a=%s, but %r when requested alone" % (comps, float(both), rates, float(alone)), prestate=pre)
    return dict(verdict="holds", detail="b reports %r in both calls" % float(alone), prestate=pre)


def _replay_cascade_data():
    """get_cascade_data: every stage equals the sum of the databook entries of its constituents (over the populations)"""
    import numpy as np
    at, _ = _udt()
    from atomica.cascade import get_cascade_data, sanitize_cascade

    bad = []
    for project in ("udt", "tb"):                # one population; several populations (the aggregate is a sum over them)
        bad += _cascade_data_one(at, np, project, get_cascade_data, sanitize_cascade)
    pre = dict(projects=["udt", "tb"], cascade="two ad hoc stages sharing their first constituent, all populations")
    return dict(verdict="violates" if bad else "holds", detail="; ".join(bad[:3]) or "every stage equals the sum of its constituents' data", prestate=pre)


def _cascade_data_one(at, np, project, get_cascade_data, sanitize_cascade):
    P = at.demo(project, do_run=False)
    fw, data = P.framework, P.data
    pop0 = list(data.pops.keys())[0]
    have = [k for k in data.tdve.keys() if (k in fw.comps.index or k in fw.characs.index) and data.get_ts(k, pop0) is not None and data.get_ts(k, pop0).has_time_data][:3]
    cascade = {"stage 1": [have[0], have[1]], "stage 2": [have[0], have[2]]}      # two ad hoc stages that share their first constituent
    _, cascade_dict, pop_type = sanitize_cascade(fw, cascade)
    vals, t = get_cascade_data(data, fw, cascade=cascade)
    pops = list(data.pops.keys())
    bad = []
    for stage, constituents in cascade_dict.items():
        if isinstance(constituents, str):
            constituents = [constituents]
        want = np.zeros(t.shape)
        for c in constituents:
            for pop in pops:
                ts = data.get_ts(c, pop)
                v = np.ones(t.shape) * np.nan
                if ts is not None:
                    for i, tv in enumerate(ts.t):
                        m = np.where(t == tv)[0]
                        if len(m):
                            v[m[0]] = ts.vals[i]
                want = want + v
        got = np.asarray(vals[stage], dtype=float)
        ok = np.allclose(got, want, rtol=1e-9, atol=1e-9, equal_nan=True)
        if not ok:
            k = int(np.nanargmax(np.abs(np.nan_to_num(got) - np.nan_to_num(want))))
            bad.append("%s: stage %r at t=%s: reported %r, sum of its constituents' data over %d populations %r" % (project, stage, t[k], float(got[k]), len(pops), float(want[k])))
    return bad


def _replay_load_calibration():
    """load_calibration must skip an entry it does not know"""
    import io
    import pandas as pd
    import sciris as sc
    at, P = _udt()

    ps = P.parsets[0].copy()
    df = pd.read_excel(ps.calibration_spreadsheet().pandas(), "Y-factors")
    extra = {c: None for c in df.columns}
    extra.update({"par": "no_such_parameter", "pop": list(P.data.pops.keys())[0], "y_factor": 1.5})
    df2 = pd.concat([pd.DataFrame([extra]), df], ignore_index=True)
    f = io.BytesIO()
    with pd.ExcelWriter(f, engine="xlsxwriter") as w:
        df2.to_excel(w, sheet_name="Y-factors", index=False)
    f.seek(0)
    pre = dict(project="udt", first_row=dict(par="no_such_parameter"))
    try:
        ps.load_calibration(sc.Spreadsheet(f))
    except Exception as e:
        return dict(verdict="violates", detail="loading a calibration whose first entry names an unknown parameter raised %s: %s" % (type(e).__name__, e), prestate=pre)
    return dict(verdict="holds", detail="the unknown entry was skipped", prestate=pre)


def _attach(obs, name_prefix, replay_fn):
    done = None
    for o in obs:
        if o["status"] == "refuted" and o["name"].startswith(name_prefix) and "replay" not in o:
            if done is None:
                try:
                    done = replay_fn()
                except Exception as e:  # pragma: no cover
                    done = dict(verdict="error", detail="%s: %s" % (type(e).__name__, e))
            o["replay"] = done
    return obs


_c20_raw = _c20


def _c20(tier="quick", seed=0):
    obs = _c20_raw(tier, seed)
    _attach(obs, "parameter-loop-invariant", _replay_default_aggregation)
    _attach(obs, "inplace-on-borrowed", _replay_cascade_data)
    return obs


_c16_raw = _c16


def _c16(tier="quick", seed=0):
    return _attach(_c16_raw(tier, seed), "handler-name-bound", _replay_load_calibration)


_c18_raw = _c18


def _c18(tier="quick", seed=0):
    return _attach(_c18_raw(tier, seed), "handler-name-bound", _replay_load_calibration)


_c08_raw = _c08


def _c08(tier="quick", seed=0):
    out = _c08_raw(tier, seed)
    # ownership on construction: the model keeps deep copies of what it is given
    out += flow.attribute_assigned_from("model:Model.__init__", "progset", "sc.dcp(progset)")
    out += flow.attribute_assigned_from("model:Model.__init__", "program_instructions", "sc.dcp(program_instructions)")
    out += flow.attribute_assigned_from("model:Model.__init__", "framework", "sc.dcp(framework)")
    return out


_c15_raw = _c15


def _c15(tier="quick", seed=0):
    out = _c15_raw(tier, seed)
    out += flow.call_present_after("calibration:calibrate", "_update_parset(args['parset'], x1, pars_to_adjust)", "Try", "the returned parameter set carries the optimiser's best point, not the last trial")
    # calibration evaluates and finally updates a COPY of the caller's parameter set (the objective writes trial factors into args['parset'])
    out += flow.assignment_is("calibration:calibrate", "args", "{'project': project, 'parset': parset.copy(), 'pars_to_adjust': pars_to_adjust, 'output_quantities': output_quantities}",
                              "the objective function receives a copy of the caller's parameter set")
    return out


_c20_prev = _c20


def _c20(tier="quick", seed=0):
    return _c20_prev(tier, seed) + flow.augassign_divisor_matches_generator("plotting:PlotData.__init__", "vals")


def _order(tier="quick", seed=0):
    """the integration step order of Model.process (C01, C06): stocks are stepped from the flows of the previous index, then the
    parameters are evaluated from the new stocks, then the flows of the new index are computed from those parameters; at the first
    index parameters are evaluated before and after the junction flush"""
    out = flow.self_call_sequence("model:Model.process", "while", ["update_comps", "update_pars", "update_links"], "stocks, then parameters, then flows")
    out += flow.self_call_sequence("model:Model.process", "if:self._t_index == 0", ["update_pars", "flush_junctions", "update_pars", "update_links"], "start-up: parameters, flush, parameters again, flows")
    # execution orders: dependencies before dependants (parameters, characteristics), upstream junctions before downstream ones
    out += flow.dependency_edges("model:Model._set_exec_order",
                                 [("dep", "par.name"), ("par.pop_aggregation[1]", "par.name"), ("include", "charac"), ("charac.denominator", "charac"), ("link.source", "link.dest")],
                                 ["all_pars", "characs", "junctions"])
    return out


def _replay_startup_order():
    """replay END TO END on the tb demo: every population starts with people in `sus` and in the treatment-outcome junction `spxtoj`, whose outflow
    proportions are set by programs active from the first step; after the start-up sequence the junction is empty, everybody is somewhere (finite
    sizes, total preserved) and the run that follows conserves people step by step up to births and deaths recorded on links from sources / to sinks"""
    import numpy as np

    _quiet()
    import atomica as at
    from atomica.parameters import Initialization
    from atomica.model import SourceCompartment

    P = at.demo("tb", do_run=False)
    P.settings.update_time_vector(end=P.settings.sim_start + 2)
    ps = P.parsets[0].copy()
    values = {}
    for pop in ps.pop_names:
        values[("sus", pop)] = 100000.0
        values[("spxtoj", pop)] = 1000.0
    ps.initialization = Initialization(values=values, year=P.settings.sim_start)
    ins = at.ProgramInstructions(start_year=P.settings.sim_start, alloc=P.progsets[0], coverage={"HospXDR": 0.5, "XDRnew": 0.25})
    res = P.run_sim(parset=ps, progset=P.progsets[0], progset_instructions=ins, store_results=False)
    bad = []
    for pop in res.model.pops:
        j = pop.get_comp("spxtoj")
        total = sum(float(c.vals[0]) for c in pop.comps if not isinstance(c, SourceCompartment))
        if not j.vals[0] == 0:
            bad.append("%s: the junction holds %r after the start-up flush" % (pop.name, float(j.vals[0])))
        if not np.isfinite(total) or abs(total - 101000.0) > 1e-6:
            bad.append("%s: 101000 people were placed, %r are present after the start-up flush" % (pop.name, total))
    pre = dict(demo="tb", placed={"sus": 100000.0, "spxtoj": 1000.0}, programs="demo program set from the first step, coverage of HospXDR 0.5 and XDRnew 0.25")
    return dict(verdict="violates" if bad else "holds", detail="; ".join(bad[:3]) or "the junction is empty and all 101000 people of every population are present after the start-up flush", prestate=pre)


def _with_order(prev):
    def f(tier="quick", seed=0):
        return _attach((prev(tier, seed) if prev else []) + _order(tier, seed), "call-order", _replay_startup_order)

    return f


EXTRA_CHECKS.update({"C18": _c18, "C16": _c16, "C20": _c20, "C09": _c09, "C08": _c08, "C15": _c15})
def _c10(tier="quick", seed=0):
    """the restart entry point hands the requested year and the parameter set on to Initialization.from_result (whose loop-body
    contract saves the state at the index of THAT year), and apply_initialization hands the population on to Initialization.apply"""
    out = flow.callsites_pass("parameters:ParameterSet.set_initialization", "from_result", "year", "year")
    out += flow.callsites_pass("parameters:ParameterSet.set_initialization", "from_result", "res", "res")
    return out


def _c14(tier="quick", seed=0):
    """every constrained year is rescaled: the constraint functions return their accumulated penalty only after the loop over years"""
    return flow.no_return_inside_loops("optimization:TotalSpendConstraint.constrain_instructions") + flow.no_return_inside_loops("optimization:Optimization.constrain_instructions")


def _replay_coverage_report():
    """a finished tb_simple run: asking the result for the number eligible must not change the recorded compartment sizes"""
    import numpy as np
    import atomica as at

    _quiet()
    P = at.demo("tb_simple", do_run=False)
    res = P.run_sim(P.parsets[0], P.progsets[0], at.ProgramInstructions(start_year=2018))
    before = {(p.name, c.name): c.vals.copy() for p in res.model.pops for c in p.comps}
    multi = [k for k, pr in res.model.progset.programs.items() if len(pr.target_pops) * len(pr.target_comps) >= 2]
    first = res.get_coverage("eligible")
    second = res.get_coverage("eligible")
    changed = [k for k, v in before.items() if not np.array_equal(v, [c for p in res.model.pops for c in p.comps if (p.name, c.name) == k][0].vals, equal_nan=True)]
    differ = [k for k in first if not np.allclose(first[k], second[k], equal_nan=True)]
    pre = dict(project="tb_simple", programs_with_several_targets=multi)
    if changed or differ:
        return dict(verdict="violates", detail="after Result.get_coverage('eligible') the recorded sizes of %s changed; a second call reports a different number eligible for %s" % (changed[:3], differ[:3]), prestate=pre)
    return dict(verdict="holds", detail="the result is unchanged by the report and two calls agree", prestate=pre)


def _c13(tier="quick", seed=0):
    """reports must not write into the arrays of the finished run (the eligible count is accumulated in a copy)"""
    return _attach(flow.no_inplace_update_of_borrowed_arrays("results:Result.get_coverage"), "inplace-on-borrowed", _replay_coverage_report)


def _c18_loops(tier="quick", seed=0):
    """the validation passes of a framework apply each per-item rule to EVERY item: no rule reads the variable of a loop that has
    already finished (which would check the last item only)"""
    from pyvc import source

    out = []
    m = source.load("framework")
    for (cls, name) in sorted(m.methods):
        if cls == "ProjectFramework" and (name.startswith("_validate") or name.startswith("_sanitize") or name == "_process_transitions"):
            out += flow.loop_variables_not_read_after_loop("framework:%s.%s" % (cls, name))
    return out


def _replay_units_mismatch():
    """a databook object whose units for one quantity differ from the framework's: building a ParameterSet must fail with the
    intended message, not with an AttributeError raised while that message is being built"""
    import atomica as at

    at_, P = _udt()
    D = P.data
    name = [k for k in D.tdve.keys() if k in P.framework.pars.index][0]
    pop = list(D.pops.keys())[0]
    D.tdve[name].ts[pop].units = "something else"
    pre = dict(project="udt", quantity=name, population=pop, units_in_databook="something else", units_in_framework=P.framework.get_databook_units(name))
    try:
        at.ParameterSet(P.framework, D, "x")
    except AttributeError as e:
        return dict(verdict="violates", detail="building the ParameterSet raised AttributeError (%s) instead of the error that names the unit mismatch" % e, prestate=pre)
    except Exception as e:
        return dict(verdict="holds", detail="refused with: %s" % str(e)[:160], prestate=pre)
    return dict(verdict="violates", detail="the mismatching units were accepted silently", prestate=pre)


def _c18_parset(tier="quick", seed=0):
    return _attach(flow.no_attribute_of_plain_container("parameters:ParameterSet.__init__"), "attribute-of-plain", _replay_units_mismatch)


_c18_prev = EXTRA_CHECKS.get("C18")
EXTRA_CHECKS["C18"] = (lambda tier="quick", seed=0: (_c18_prev(tier, seed) if _c18_prev else []) + _c18_loops(tier, seed) + _c18_parset(tier, seed))
EXTRA_CHECKS["C14"] = _c14
_c13_prev = EXTRA_CHECKS.get("C13")
EXTRA_CHECKS["C13"] = (lambda tier="quick", seed=0: (_c13_prev(tier, seed) if _c13_prev else []) + _c13(tier, seed))
_c20_prev2 = EXTRA_CHECKS.get("C20") or _c20
EXTRA_CHECKS["C20"] = (lambda tier="quick", seed=0: _c20_prev2(tier, seed) + _c13(tier, seed))
_c08_prev_cov = EXTRA_CHECKS.get("C08")
EXTRA_CHECKS["C08"] = (lambda tier="quick", seed=0: (_c08_prev_cov(tier, seed) if _c08_prev_cov else []) + _c13(tier, seed))  # reading coverage from a finished run leaves the run's arrays as they are (two identical runs stay identical)
_c11_prev = EXTRA_CHECKS.get("C11")
EXTRA_CHECKS["C11"] = (lambda tier="quick", seed=0: (_c11_prev(tier, seed) if _c11_prev else []) + _c13(tier, seed))  # the reported fraction covered is capacity / number eligible: the count is accumulated in a copy
EXTRA_CHECKS["C10"] = _c10
EXTRA_CHECKS["C01"] = _with_order(EXTRA_CHECKS.get("C01"))
EXTRA_CHECKS["C06"] = _with_order(EXTRA_CHECKS.get("C06"))
EXTRA_CHECKS["C04"] = _with_order(EXTRA_CHECKS.get("C04"))
EXTRA_CHECKS["C07"] = _with_order(EXTRA_CHECKS.get("C07"))   # "people placed in a junction by the initial conditions are pushed downstream ... with the total preserved": the start-up order


# ---- C20 "producing plots or exports never modifies the result": every function of the plotting, results and cascade modules is
# scanned on each run (new code included) for in-place updates of arrays it merely borrowed from the result
def _replay_reports_leave_result():
    """replay END TO END on the tb_simple demo: snapshot every array of the finished run, produce the usual reports (PlotData with and
    without aggregation, flows, programs, raw export, cascade values and data, coverage), and compare"""
    import numpy as np

    at, _ = _udt()
    import matplotlib

    matplotlib.use("Agg")
    P = at.demo("tb_simple", do_run=False)
    res = P.run_sim(P.parsets[0], P.progsets[0], at.ProgramInstructions(start_year=2018))

    def snapshot():
        snap = {}
        for pop in res.model.pops:
            for group in (pop.comps, pop.characs, pop.pars, pop.links):
                for v in group:
                    if v.vals is not None:
                        snap[(pop.name,) + tuple(v.id)] = np.array(v.vals, dtype=float).copy()
        return snap

    before = snapshot()
    done, failed = [], []
    pops = [p.name for p in res.model.pops]
    comp = res.model.pops[0].comps[0].name
    link_par = [p.name for p in res.model.pops[0].pars if p.links][0]
    reports = [
        ("PlotData single output", lambda: at.PlotData(res, outputs=comp, pops=pops[0])),
        ("PlotData summed over populations", lambda: at.PlotData(res, outputs=comp, pops={"total": pops}, pop_aggregation="sum")),
        ("PlotData weighted output aggregate", lambda: at.PlotData(res, outputs={"agg": [c.name for c in res.model.pops[0].comps[:2]]}, pops=pops[0], output_aggregation="weighted")),
        ("PlotData flow", lambda: at.PlotData(res, outputs=link_par + ":flow", pops=pops[0])),
        ("PlotData accumulate", lambda: at.PlotData(res, outputs=comp, pops=pops[0], accumulate="sum")),
        ("PlotData time aggregate", lambda: at.PlotData(res, outputs=link_par + ":flow", pops=pops[0], t_bins=5)),
        ("PlotData.programs", lambda: at.PlotData.programs(res, quantity="coverage_fraction")),
        ("export_raw", lambda: res.export_raw()),
        ("get_coverage eligible", lambda: res.get_coverage("eligible")),
        ("get_coverage number", lambda: res.get_coverage("number")),
        ("get_equivalent_alloc", lambda: res.get_equivalent_alloc()),
        ("cascade values", lambda: at.get_cascade_vals(res, cascade=0, pops=pops[0])),
        ("cascade data", lambda: at.get_cascade_data(P.data, P.framework, cascade=0)),
        ("cascade plot", lambda: at.plot_cascade(res, cascade=0, data=P.data)),
    ]
    for name, f in reports:
        try:
            f()
            done.append(name)
        except Exception as e:  # noqa -- a report that is not available in this sandbox is skipped, not judged
            failed.append("%s (%s)" % (name, type(e).__name__))
    after = snapshot()
    changed = [k for k in before if not np.array_equal(before[k], after[k], equal_nan=True)]
    pre = dict(project="tb_simple", reports_produced=done, reports_unavailable=failed)
    if changed:
        return dict(verdict="violates", detail="after producing the reports %d arrays of the result differ, e.g. %r" % (len(changed), changed[:3]), prestate=pre)
    return dict(verdict="holds", detail="the %d arrays of the result are unchanged after %d reports" % (len(before), len(done)), prestate=pre)


def _c20_reports(tier="quick", seed=0):
    import ast

    from pyvc import source

    out, scanned = [], 0
    for mod in ("plotting", "results", "cascade"):
        m = source.load(mod)
        names = list(m.functions.keys()) + ["%s.%s" % (c, f.name) for c, (node, _) in m.classes.items() for f in node.body if isinstance(f, ast.FunctionDef)]
        for n in sorted(names):
            q = "%s:%s" % (mod, n)
            scanned += 1
            for obs in (flow.no_inplace_update_of_borrowed_arrays(q), flow.no_mutation_through_alias(q)):
                refuted = [o for o in obs if o["status"] != "proved"]
                summary = [o for o in obs if o["status"] == "proved" and not o["name"].endswith(":0 sites") and not o["name"].endswith(":0 aliases")]
                out += refuted + summary
    out.append(dict(function="plotting, results, cascade (all functions)", name="report-functions-scanned:%d" % scanned, kind="structural", status="proved" if scanned > 50 else "refuted", seconds=0.0, backend="ast-analysis",
                    note="every function of the three reporting modules was scanned for in-place updates of borrowed arrays and of aliases of object attributes"))
    _attach(out, "inplace-on-borrowed", _replay_reports_leave_result)
    _attach(out, "inplace-through-alias", _replay_reports_leave_result)
    return out


_c20_before_reports = EXTRA_CHECKS["C20"]
EXTRA_CHECKS["C20"] = (lambda tier="quick", seed=0: _c20_before_reports(tier, seed) + _c20_reports(tier, seed))


# ---- C08 / C15 "the parameter set, program set, instructions, framework, data and project settings passed in are left unchanged": every
# function of the simulation, scenario and reporting modules that takes one of these as a parameter is scanned on each run for writes
# through it (assignments to attributes / elements reached from the input or from a local alias of it, known mutating method calls)
_INPUT_ROOTS = {"parset", "framework", "settings", "progset", "program_instructions", "progset_instructions", "instructions", "data", "project", "proj", "res", "result", "results"}


def _replay_inputs_unchanged():
    """replay END TO END on the udt demo: pickle the parameter set, program set, instructions, framework, data and settings, run a
    simulation with programs (plus a parameter scenario and a report), and compare the pickles"""
    import pickle

    at, P = _udt()
    instr = at.ProgramInstructions(start_year=2018, alloc={list(P.progsets[0].programs.keys())[0]: 1e5})
    things = {"parset": P.parsets[0], "progset": P.progsets[0], "instructions": instr, "data": P.data, "settings": P.settings}

    def dump():
        out = {}
        for k, v in things.items():
            try:
                out[k] = pickle.dumps(v)
            except Exception:  # noqa
                out[k] = None
        return out

    before = dump()
    fw_before = {k: v.to_csv() for k, v in P.framework.sheets.items() if hasattr(v, "to_csv")} if hasattr(P.framework, "sheets") else {}
    res = P.run_sim(P.parsets[0], P.progsets[0], instr, store_results=False)
    res.export_raw()
    at.PlotData(res, outputs=res.model.pops[0].comps[0].name)
    after = dump()
    changed = [k for k in before if before[k] is not None and before[k] != after[k]]
    # second run: a parameter set that carries a saved initialization (with the hash of the calibration factors it was made with)
    try:
        from atomica.parameters import Initialization

        ps2 = P.parsets[0].copy()
        ps2.initialization = Initialization.from_result(res, parset=P.parsets[0])
        b2 = pickle.dumps(ps2)
        P.run_sim(ps2, store_results=False)
        if pickle.dumps(ps2) != b2:
            changed.append("parset with a saved initialization")
    except Exception as e:  # noqa
        changed.append("parset with a saved initialization (run raised %s: %s)" % (type(e).__name__, e))
    pre = dict(project="udt", inputs=sorted(things) + ["parset with a saved initialization"])
    return dict(verdict="violates" if changed else "holds", detail=("the caller's %s changed while a simulation was run and reported" % ", ".join(changed)) if changed else "all inputs pickle to the same bytes before and after the run", prestate=pre)


def _inputs_scan(mods, roots=_INPUT_ROOTS, only=None):
    import ast

    from pyvc import source

    out, scanned = [], 0
    for mod in mods:
        m = source.load(mod)
        names = list(m.functions.keys()) + ["%s.%s" % (c, f.name) for c, (node, _) in m.classes.items() for f in node.body if isinstance(f, ast.FunctionDef)]
        for n in sorted(names):
            if only is not None and n not in only:
                continue
            obs = flow.inputs_only_read("%s:%s" % (mod, n), roots)
            scanned += 1 if obs else 0
            out += obs
    return out, scanned


def _c08_inputs(tier="quick", seed=0):
    out, scanned = _inputs_scan(("model", "project", "scenarios", "results", "plotting", "cascade"))
    # the saved-initialization helpers of parameters.py are called from inside a run with the caller's parameter set
    o2, s2 = _inputs_scan(("parameters",), roots={"parset", "framework", "res"}, only={"Initialization.hash_y_factors", "Initialization.apply", "Initialization.from_result"})
    out, scanned = out + o2, scanned + s2
    out.append(dict(function="model, project, scenarios, results, plotting, cascade (all functions taking an input object)", name="input-taking-functions-scanned:%d" % scanned, kind="structural",
                    status="proved" if scanned > 30 else "refuted", seconds=0.0, backend="ast-analysis", note="functions with a parameter named %s" % ", ".join(sorted(_INPUT_ROOTS))))
    _attach(out, "writes-through-input", _replay_inputs_unchanged)
    _attach(out, "mutating-call-on-input", _replay_inputs_unchanged)
    return out


def _c15_inputs(tier="quick", seed=0):
    out, _ = _inputs_scan(("optimization",), roots={"project", "parset", "progset", "instructions"}, only={"optimize"})
    o2, _ = _inputs_scan(("calibration",), roots={"parset"}, only={"calibrate", "_calculate_objective"})
    return out + [o for o in o2 if "_calculate_objective" not in o["function"]]


_c08_before_inputs = EXTRA_CHECKS["C08"]
EXTRA_CHECKS["C08"] = (lambda tier="quick", seed=0: _c08_before_inputs(tier, seed) + _c08_inputs(tier, seed))
_c15_before_inputs = EXTRA_CHECKS["C15"]
EXTRA_CHECKS["C15"] = (lambda tier="quick", seed=0: _c15_before_inputs(tier, seed) + _c15_inputs(tier, seed))


# ---- C18: validation rules that can never fire.  A loop variable ranging over literal constants is compared with a constant it never takes
def _replay_timed_rule():
    """replay on the timed test framework shipped with the repository tests: the databook gets time-dependent values for the timed
    duration parameter; ProjectData.validate states (in its own message) that this must be refused"""
    import os

    at, _ = _udt()
    base = os.path.join(os.path.dirname(os.path.dirname(at.__file__)), "tests")
    fw, db = os.path.join(base, "timed_test_framework.xlsx"), os.path.join(base, "timed_test_databook.xlsx")
    if not (os.path.exists(fw) and os.path.exists(db)):
        return dict(verdict="error", detail="tests/timed_test_framework.xlsx not found next to the package")
    F = at.ProjectFramework(fw)
    timed = [p for p in F.pars.index if F.pars.at[p, "timed"] == "y"][0]
    D = at.ProjectData.from_spreadsheet(db, F)
    pop = list(D.pops.keys())[0]
    ts = D.tdve[timed].ts[pop]
    ts.insert(2018, 1.0)
    ts.insert(2025, 10.0)
    pre = dict(framework="tests/timed_test_framework.xlsx", timed_parameter=timed, population=pop, values={"2018": 1.0, "2025": 10.0})
    try:
        D.validate(F)
    except Exception as e:  # noqa
        return dict(verdict="holds", detail="refused with %s: %s" % (type(e).__name__, str(e)[:160]), prestate=pre)
    return dict(verdict="violates", detail="a databook with time-dependent values for the timed duration parameter %r was accepted by ProjectData.validate, whose own rule says it must have a constant value" % timed, prestate=pre)


def _c18_dead_rules(tier="quick", seed=0):
    import ast

    from pyvc import source

    out = []
    for mod in ("data", "framework", "programs", "parameters", "excel"):
        m = source.load(mod)
        names = list(m.functions.keys()) + ["%s.%s" % (c, f.name) for c, (node, _) in m.classes.items() for f in node.body if isinstance(f, ast.FunctionDef)]
        for n in sorted(names):
            out += flow.comparisons_with_loop_constants_can_hold("%s:%s" % (mod, n))
    return _attach(out, "comparison-can-hold", _replay_timed_rule)


_c18_before_dead = EXTRA_CHECKS["C18"]
EXTRA_CHECKS["C18"] = (lambda tier="quick", seed=0: _c18_before_dead(tier, seed) + _c18_dead_rules(tier, seed))


def _replay_units_rule():
    """replay on the udt library framework: a non-transition parameter is given units the framework cannot convert ('fraction') together
    with a timescale; get_databook_units carries a rule (and message) refusing exactly that"""
    import numpy as np

    at, P = _udt()
    F = P.framework
    name = [p for p in F.pars.index if not F.transitions[p]][0]
    F.pars.at[name, "format"] = "fraction"
    F.pars.at[name, "timescale"] = 1.0
    pre = dict(framework="udt", parameter=name, format="fraction", timescale=1.0)
    try:
        units = F.get_databook_units(name)
    except at.InvalidFramework as e:
        return dict(verdict="holds", detail="refused with InvalidFramework: %s" % str(e)[:140], prestate=pre)
    except Exception as e:  # noqa
        return dict(verdict="violates", detail="internal error %s: %s" % (type(e).__name__, e), prestate=pre)
    return dict(verdict="violates", detail="a timescale together with units that cannot be converted was accepted; the databook units are reported as %r" % (units,), prestate=pre)


def _c18_rules_can_fire(tier="quick", seed=0):
    import ast

    from pyvc import source

    out, scanned = [], 0
    for mod in ("data", "framework", "programs", "parameters", "excel", "system", "utils", "function_parser", "cascade"):
        m = source.load(mod)
        names = list(m.functions.keys()) + ["%s.%s" % (c, f.name) for c, (node, _) in m.classes.items() for f in node.body if isinstance(f, ast.FunctionDef)]
        for n in sorted(names):
            scanned += 1
            out += flow.rules_can_fire("%s:%s" % (mod, n))
    out.append(dict(function="data, framework, programs, parameters, excel, system, utils, function_parser, cascade (all functions)", name="functions-scanned-for-rules-that-cannot-fire:%d" % scanned, kind="structural",
                    status="proved" if scanned > 100 else "refuted", seconds=0.0, backend="ast-analysis", note="assert on a tuple, repeated elif test, duplicate Boolean operand, self-comparison, statement after an unconditional exit"))
    return _attach(out, "elif-can-be-reached", _replay_units_rule)


_c18_before_fire = EXTRA_CHECKS["C18"]
EXTRA_CHECKS["C18"] = (lambda tier="quick", seed=0: _c18_before_fire(tier, seed) + _c18_rules_can_fire(tier, seed))


# ---- the same scan (tests that cannot fail / cannot hold by construction of the expression) over the modules the other properties live in
def _rules_scan(mods):
    def f(tier="quick", seed=0):
        import ast

        from pyvc import source

        out, scanned = [], 0
        for mod in mods:
            m = source.load(mod)
            names = list(m.functions.keys()) + ["%s.%s" % (c, fn.name) for c, (node, _) in m.classes.items() for fn in node.body if isinstance(fn, ast.FunctionDef)]
            for n in sorted(names):
                scanned += 1
                out += flow.rules_can_fire("%s:%s" % (mod, n))
        out.append(dict(function="%s (all functions)" % ", ".join(mods), name="functions-scanned-for-tests-that-cannot-fire:%d" % scanned, kind="structural", status="proved" if scanned > 10 else "refuted",
                        seconds=0.0, backend="ast-analysis", note="assert on a tuple, repeated elif test, duplicate Boolean operand, self-comparison, statement after an unconditional exit"))
        return out

    return f


for _pid, _mods in (("C06", ("model", "parameters")), ("C13", ("programs",)), ("C15", ("optimization", "calibration")), ("C20", ("plotting", "results"))):
    _prev = EXTRA_CHECKS.get(_pid)
    EXTRA_CHECKS[_pid] = (lambda prev, scan: (lambda tier="quick", seed=0: (prev(tier, seed) if prev else []) + scan(tier, seed)))(_prev, _rules_scan(_mods))


# ---- C16 / C18: entries of one look-up table are built with the same keys wherever they are built (the writers / readers index them)
def _replay_table_entries():
    import logging
    import warnings

    import atomica as at

    warnings.filterwarnings("ignore")
    at.logger.setLevel(logging.ERROR)
    P = at.demo("udt", do_run=False)
    bad = []
    for op in ("add_comp", "add_par", "add_pop"):
        ps = P.progsets[0].copy()
        try:
            getattr(ps, op)("newentry", "A new entry")
            ps.to_spreadsheet()
        except Exception as e:  # noqa
            bad.append("after ProgramSet.%s the program book cannot be written: %s: %s" % (op, type(e).__name__, e))
    D = P.data
    try:
        D2 = at.ProjectData.from_spreadsheet(D.to_spreadsheet(), P.framework)
        D2.add_pop("newpop", "A new population")
        D2.to_spreadsheet()
    except Exception as e:  # noqa
        bad.append("after ProjectData.add_pop the databook cannot be written: %s: %s" % (type(e).__name__, e))
    return dict(verdict="violates" if bad else "holds", detail="; ".join(bad) or "books are written after each add operation", prestate=dict(project="udt"))


def _c16_tables(tier="quick", seed=0):
    out = []
    for mod in ("programs", "data", "parameters", "framework", "project"):
        out += flow.table_entries_have_same_keys(mod)
    return _attach(out, "entries-of-", _replay_table_entries)


_c16_before_tables = EXTRA_CHECKS["C16"]
EXTRA_CHECKS["C16"] = (lambda tier="quick", seed=0: _c16_before_tables(tier, seed) + _c16_tables(tier, seed))


# ---- C08: a copied / unpickled model has dropped its execution order and program cache (Model.unlink); Model.process rebuilds both before
# anything else runs
def _c08_process(tier="quick", seed=0):
    return flow.self_call_sequence("model:Model.process", "top", ["_set_exec_order", "_update_program_cache"], "the caches a copy drops are rebuilt first (the loops follow inside if / while blocks)")


_c08_before_process = EXTRA_CHECKS["C08"]
EXTRA_CHECKS["C08"] = (lambda tier="quick", seed=0: _c08_before_process(tier, seed) + _c08_process(tier, seed))


# ---- C16: optional write settings of the databook tables.  `write_units / write_uncertainty / write_assumption = None` means "decide from the
# data"; the writer resolves each setting once and must then use the resolved value everywhere
def _replay_tdc_flags():
    """replay: a transfer table built with its constructor (settings left at None) holding a series with assumption, units and uncertainty
    is appended to a new tb databook, written and read back"""
    import logging
    import warnings

    import numpy as np
    import atomica as at
    import atomica.excel as ex

    warnings.filterwarnings("ignore")
    at.logger.setLevel(logging.ERROR)
    F = at.ProjectFramework(at.LIBRARY_PATH / "tb_framework.xlsx")
    D = at.ProjectData.new(F, np.arange(2000, 2003), pops=2, transfers=0)
    tdc = ex.TimeDependentConnections("mig", "Migration", np.arange(2000, 2003), ["pop_0", "pop_1"], ["pop_0", "pop_1"], "transfer",
                                      ts={("pop_0", "pop_1"): at.TimeSeries(assumption=0.1, units="Probability (per year)", sigma=0.02)})
    D.transfers.append(tdc)
    tdve = [t for t in D.tdve.values() if t.ts][0]
    tdve.write_units = tdve.write_uncertainty = tdve.write_assumption = None
    pop0 = list(tdve.ts.keys())[0]
    tdve.ts[pop0].assumption, tdve.ts[pop0].sigma = 0.3, 0.04
    pre = dict(framework="tb", table="mig (transfer, settings None)", series=dict(assumption=0.1, units="Probability (per year)", sigma=0.02), tdve=tdve.name)
    try:
        D2 = at.ProjectData.from_spreadsheet(D.to_spreadsheet(), F)
    except Exception as e:  # noqa
        return dict(verdict="violates", raised="%s: %s" % (type(e).__name__, e), detail="writing / reading the databook raised %s: %s" % (type(e).__name__, e), prestate=pre)
    ts = [t for t in D2.transfers if t.code_name == "mig"][0].ts[("pop_0", "pop_1")]
    ts2 = [t for t in D2.tdve.values() if t.name == tdve.name][0].ts[pop0]
    bad = []
    if (ts.assumption, ts.sigma) != (0.1, 0.02) or not ts.units:
        bad.append("the transfer series reads back as assumption=%r units=%r uncertainty=%r" % (ts.assumption, ts.units, ts.sigma))
    if (ts2.assumption, ts2.sigma) != (0.3, 0.04):
        bad.append("the data table series reads back as assumption=%r uncertainty=%r" % (ts2.assumption, ts2.sigma))
    return dict(verdict="violates" if bad else "holds", detail="; ".join(bad) or "assumption, units and uncertainty survive the round trip", prestate=pre)


def _c16_write_settings(tier="quick", seed=0):
    import ast

    from pyvc import source

    out = []
    for mod in ("excel", "data", "programs"):
        m = source.load(mod)
        names = list(m.functions.keys()) + ["%s.%s" % (c, f.name) for c, (node, _) in m.classes.items() for f in node.body if isinstance(f, ast.FunctionDef)]
        for n in sorted(names):
            out += flow.resolved_defaults_are_used("%s:%s" % (mod, n))
    return _attach(out, "resolved-setting-is-used", _replay_tdc_flags)


_c16_before_settings = EXTRA_CHECKS["C16"]
EXTRA_CHECKS["C16"] = (lambda tier="quick", seed=0: _c16_before_settings(tier, seed) + _c16_write_settings(tier, seed))


# ---- C16: the book writers guard optional attributes before using them; the attribute guarded must be the attribute used
def _replay_effects_roundtrip():
    """replay END TO END: the tb program book with every coverage interaction set to 'random' is written and read back"""
    import logging
    import warnings

    import atomica as at

    warnings.filterwarnings("ignore")
    at.logger.setLevel(logging.ERROR)
    P = at.demo("tb", do_run=False)
    ps = P.progsets[0].copy()
    multi = [k for k, c in ps.covouts.items() if len(c.progs) >= 2]
    for k in multi:
        ps.covouts[k].cov_interaction = "random"
    pre = dict(project="tb", covouts_set_to_random=len(multi))
    try:
        ps2 = at.ProgramSet.from_spreadsheet(ps.to_spreadsheet(), P.framework, P.data)
    except Exception as e:  # noqa
        return dict(verdict="violates", raised=type(e).__name__, detail="the program book cannot be written / read: %s: %s" % (type(e).__name__, str(e)[-160:]), prestate=pre)
    lost = [k for k in multi if ps2.covouts[k].cov_interaction != "random"]
    return dict(verdict="violates" if lost else "holds", detail=("%d of %d coverage interactions read back as %r instead of 'random'" % (len(lost), len(multi), ps2.covouts[lost[0]].cov_interaction)) if lost else "coverage interactions survive the round trip", prestate=pre)


def _c16_guards(tier="quick", seed=0):
    import ast

    from pyvc import source

    out = []
    for mod in ("programs", "excel", "data", "parameters"):
        m = source.load(mod)
        names = list(m.functions.keys()) + ["%s.%s" % (c, f.name) for c, (node, _) in m.classes.items() for f in node.body if isinstance(f, ast.FunctionDef)]
        for n in sorted(names):
            out += flow.none_guard_matches_use("%s:%s" % (mod, n))
    return _attach(out, "none-guard-matches-use", _replay_effects_roundtrip)


_c16_before_guards = EXTRA_CHECKS["C16"]
EXTRA_CHECKS["C16"] = (lambda tier="quick", seed=0: _c16_before_guards(tier, seed) + _c16_guards(tier, seed))


# ---- C08 "repeating a run in a fresh process gives bit-identical outputs": nothing in the simulation modules builds ordered structure (lists of
# members, links, accumulated sums) by iterating over a set, whose order depends on the hash seed of the process
def _replay_hash_seed():
    """replay END TO END: the tb demo is run (without and with its programs) in three fresh interpreter processes with PYTHONHASHSEED 1, 2 and 3 and a digest of every output array is compared"""
    import hashlib
    import os
    import subprocess
    import sys

    at, _ = _udt()
    root = os.path.dirname(os.path.dirname(at.__file__))
    code = ("import warnings, logging, hashlib, numpy as np\nwarnings.filterwarnings('ignore')\nimport atomica as at\nat.logger.setLevel(logging.ERROR)\n"
            "P = at.demo('tb', do_run=False)\nh = hashlib.sha256()\n"
            "for kw in (dict(), dict(progset=P.progsets[0], progset_instructions=at.ProgramInstructions(start_year=2018))):\n    res = P.run_sim(P.parsets[0], store_results=False, **kw)\n"
            "    for pop in res.model.pops:\n        for v in pop.comps + pop.characs + pop.pars + pop.links:\n            if v.vals is not None:\n                h.update(np.ascontiguousarray(np.asarray(v.vals, dtype=float)).tobytes())\nprint('DIGEST', h.hexdigest())\n")
    digests = {}
    for seed in ("1", "2", "3"):
        env = dict(os.environ, PYTHONHASHSEED=seed, PYTHONPATH=root + os.pathsep + os.environ.get("PYTHONPATH", ""))
        r = subprocess.run([sys.executable, "-c", code], capture_output=True, text=True, env=env, timeout=600)
        line = [l for l in r.stdout.split("\n") if l.startswith("DIGEST")]
        digests[seed] = line[0].split()[1] if line else "run failed: " + r.stderr[-200:]
    same = len(set(digests.values())) == 1
    return dict(verdict="holds" if same else "violates", detail="outputs of the tb demo (without and with programs) are bit-identical for hash seeds 1, 2 and 3" if same else "the tb demo gives different output bytes in processes with PYTHONHASHSEED=1, 2 and 3: %r" % digests,
                prestate=dict(project="tb", programs="the demo program set from 2018", hash_seeds=[1, 2, 3]))


def _c08_set_order(tier="quick", seed=0):
    import ast

    from pyvc import source

    out, scanned = [], 0
    for mod in ("model", "parameters", "programs", "project", "utils", "function_parser", "scenarios"):
        m = source.load(mod)
        names = list(m.functions.keys()) + ["%s.%s" % (c, f.name) for c, (node, _) in m.classes.items() for f in node.body if isinstance(f, ast.FunctionDef)]
        for n in sorted(names):
            scanned += 1
            out += flow.no_order_dependent_iteration_over_sets("%s:%s" % (mod, n))
    out.append(dict(function="model,parameters,programs,project,utils,function_parser,scenarios:all-functions", name="functions-scanned-for-set-order-dependence:%d" % scanned, kind="structural",
                    status="proved" if scanned > 100 else "refuted", seconds=0.0, backend="ast-analysis", note="loops over sets whose bodies append / insert / accumulate / register"))
    return _attach(out, "set-iteration-is-order-independent", _replay_hash_seed)


_c08_before_sets = EXTRA_CHECKS["C08"]
EXTRA_CHECKS["C08"] = (lambda tier="quick", seed=0: _c08_before_sets(tier, seed) + _c08_set_order(tier, seed))


# ---- stale loop variables (the defect class of F25): in the modules that build objects from books, no variable of a finished loop is read later
def _c16_stale(tier="quick", seed=0):
    import ast

    from pyvc import source

    out, scanned = [], 0
    for mod in ("parameters", "data", "programs", "model", "project", "excel", "scenarios"):
        m = source.load(mod)
        names = list(m.functions.keys()) + ["%s.%s" % (c, f.name) for c, (node, _) in m.classes.items() for f in node.body if isinstance(f, ast.FunctionDef)]
        for n in sorted(names):
            scanned += 1
            out += [o for o in flow.loop_variables_not_read_after_loop("%s:%s" % (mod, n)) if o["status"] != "proved"]
    out.append(dict(function="parameters,data,programs,model,project,excel,scenarios:all-functions", name="functions-scanned-for-stale-loop-variables:%d" % scanned, kind="structural", status="proved" if scanned > 100 else "refuted",
                    seconds=0.0, backend="ast-analysis", note="a variable bound by a for loop is not read after that loop has finished"))
    return out


_c16_before_stale = EXTRA_CHECKS["C16"]
EXTRA_CHECKS["C16"] = (lambda tier="quick", seed=0: _c16_before_stale(tier, seed) + _c16_stale(tier, seed))


# ---- temporal locality of the integration step (DESIGN 3.3), the obligation C09 and C10 rest on: every function of the model module that works on a
# current step is scanned on each run for accesses to time-indexed storage at an index that does not depend on the step
def _replay_restart():
    """replay END TO END on the tb demo (junction proportions that change over time): run 2000-2012, save the state at 2005 into the parameter set,
    restart at 2005 and compare every compartment, link, characteristic and parameter from 2005 onward"""
    import numpy as np
    import sciris as sc

    _quiet()
    import atomica as at

    P = at.demo("tb", do_run=False)
    P.settings.update_time_vector(end=2012.0)
    full = P.run_sim(P.parsets[0], result_name="full")
    Y = 2005.0
    ps = sc.dcp(P.parsets[0])
    ps.set_initialization(full, Y)
    P2 = sc.dcp(P)
    P2.settings.update_time_vector(start=Y)
    again = P2.run_sim(ps, result_name="restart")
    i0 = int(np.nonzero(full.model.t == Y)[0][0])
    worst, n = None, 0
    for p1, p2 in zip(full.model.pops, again.model.pops):
        for kind in ("comps", "links", "characs", "pars"):
            for o1, o2 in zip(getattr(p1, kind), getattr(p2, kind)):
                a, b = np.asarray(o1.vals, dtype=float)[i0:], np.asarray(o2.vals, dtype=float)
                n += 1
                if a.shape != b.shape or not np.allclose(a, b, rtol=1e-9, atol=1e-9, equal_nan=True):
                    k = int(np.nanargmax(np.abs(a - b))) if a.shape == b.shape else 0
                    worst = worst or "%s %s/%s at %g: original %r, restarted %r" % (kind[:-1], p1.name, o1.name, again.model.t[k], float(a[k]), float(b[k]))
    pre = dict(demo="tb", run="2000-2012", restart_year=Y, quantities_compared=n)
    return dict(verdict="violates" if worst else "holds", detail=worst or "the restarted run reproduces all %d quantities from %g onward" % (n, Y), prestate=pre)


def _locality(tier="quick", seed=0):
    from pyvc import source

    m = source.load("model")
    out = []
    for (cls, name) in sorted(m.methods):
        out += flow.time_indexed_access_is_local("model:%s.%s" % (cls, name))
    if not out:
        out.append(flow._ob("model", "time-indexed-access-is-at-the-current-step", False, note="no function of the model module works on a current step: the scan found nothing to check"))
    return _attach(out, "time-indexed-access", _replay_restart)


for _pid in ("C09", "C10"):
    EXTRA_CHECKS[_pid] = (lambda prev: (lambda tier="quick", seed=0: (prev(tier, seed) if prev else []) + _locality(tier, seed)))(EXTRA_CHECKS.get(_pid))


# ---- C17 "regardless of whether samples run serially or in parallel and of the number of workers": the worker pool of utils.parallel_progress is created
# with the re-seeding initializer (the contract on utils._worker_init says what it does; this clause says that every worker runs it)
def _replay_parallel_draws():
    """replay on the REAL parallel_progress (in a fresh interpreter: pool workers cannot have children): 8 jobs on 2 workers each return their process id
    and one draw from numpy's global generator; the first draws of the two workers must differ"""
    import json
    import os
    import subprocess
    import sys

    code = ("import sys, json, numpy as np\nsys.path.insert(0, %r); sys.path.insert(0, %r)\nimport atomica.utils as au\nfrom contracts.sampling import _draw\nnp.random.seed(12345)\n"
            "draws = au.parallel_progress(_draw, list(range(8)), num_workers=2, show_progress=False)\nprint('DRAWS ' + json.dumps(draws))\n") % ("/verif", os.environ.get("ATOMICA_REPO", "/repo"))
    out = subprocess.run([sys.executable, "-c", code], capture_output=True, text=True, timeout=180)
    line = [l for l in out.stdout.splitlines() if l.startswith("DRAWS ")]
    if not line:
        return dict(verdict="error", detail="replay subprocess failed: %s" % out.stderr[-400:])
    draws = json.loads(line[0][6:])
    by_pid = {}
    for pid, x in draws:
        by_pid.setdefault(pid, []).append(x)
    firsts = sorted(v[0] for v in by_pid.values())
    dup = len(by_pid) > 1 and len(set(firsts)) < len(firsts)
    return dict(verdict="violates" if dup else "holds", prestate=dict(workers=2, jobs=8, draws=draws),
                detail=("two workers of parallel_progress produced the same first draw %r: they share the generator state inherited from the parent" % firsts[0]) if dup else "workers draw different numbers (%d workers)" % len(by_pid))


def _c17_pool(tier="quick", seed=0):
    return _attach(flow.callsites_pass("utils:parallel_progress", "Pool", "initializer", "_worker_init"), "callsite-passes-initializer", _replay_parallel_draws)


_c17_before_pool = EXTRA_CHECKS["C17"]
EXTRA_CHECKS["C17"] = (lambda tier="quick", seed=0: _c17_before_pool(tier, seed) + _c17_pool(tier, seed))


# ---- C20 "the value reported for an output ... depends only on that output, those populations and the aggregation options -- not on which other outputs or
# populations were requested in the same call or in what order": in the reporting modules no loop over series / outputs / populations carries a local
# from one item to the next
def _replay_report_alone_and_together():
    """replay END TO END on the tb demo: a number output (`sus`) aggregated over 5-year bins alone, and together with a proportion (`p_div`) in both orders"""
    import numpy as np

    _quiet()
    import atomica as at

    P = at.demo("tb", do_run=False)
    P.settings.update_time_vector(end=2020.0)
    res = P.run_sim(P.parsets[0], store_results=False)
    bins = np.arange(2000.0, 2021.0, 5.0)
    alone = {(s.pop, s.output): np.array(s.vals) for s in at.PlotData(res, outputs=["sus"], t_bins=bins).series}
    bad = []
    for outs in (["sus", "p_div"], ["p_div", "sus"]):
        for s in at.PlotData(res, outputs=outs, t_bins=bins).series:
            if s.output == "sus" and not np.allclose(np.array(s.vals), alone[(s.pop, "sus")], rtol=1e-12, atol=0, equal_nan=True):
                bad.append("`sus` in %s requested as %r: %r, requested alone: %r" % (s.pop, outs, [float(v) for v in s.vals[:2]], [float(v) for v in alone[(s.pop, "sus")][:2]]))
    pre = dict(demo="tb", outputs=["sus", "p_div"], t_bins=[float(b) for b in bins])
    return dict(verdict="violates" if bad else "holds", detail="; ".join(bad[:2]) or "the 5-year aggregate of `sus` is the same alone and next to `p_div`, in either order", prestate=pre)


def _c20_loops(tier="quick", seed=0):
    import ast

    from pyvc import source

    out, scanned = [], 0
    for mod in ("plotting", "results", "cascade"):
        m = source.load(mod)
        names = list(m.functions.keys()) + ["%s.%s" % (c, f.name) for c, (node, _) in m.classes.items() for f in node.body if isinstance(f, ast.FunctionDef)]
        for n in sorted(names):
            scanned += 1
            out += flow.no_loop_carried_locals("%s:%s" % (mod, n))
    out.append(dict(function="plotting,results,cascade:all-functions", name="functions-scanned-for-loop-carried-locals:%d" % scanned, kind="structural", status="proved" if scanned > 60 else "refuted",
                    seconds=0.0, backend="ast-analysis", note="a local assigned in a loop body is assigned in each iteration before it is read"))
    return _attach(out, "iteration-uses-only-its-own-locals", _replay_report_alone_and_together)


_c20_before_loops = EXTRA_CHECKS["C20"]
EXTRA_CHECKS["C20"] = (lambda tier="quick", seed=0: _c20_before_loops(tier, seed) + _c20_loops(tier, seed))


# ---- C16: reading a book, every row (table, program) is read from its own cells: in the modules that build objects from books no loop carries a local
# from one item to the next -- a value set while scanning the cells of a row and used after them is reset for every row
def _replay_effect_rows_are_independent():
    """replay END TO END: in the hiv program book one parameter's first population row gets an uncertainty and the rows after it none; the book is
    written and read back, and every (parameter, population) entry must read back with its own baseline, uncertainty and interactions"""
    import logging
    import warnings

    import atomica as at

    warnings.filterwarnings("ignore")
    at.logger.setLevel(logging.ERROR)
    P = at.demo("hiv", do_run=False)
    ps = P.progsets[0].copy()
    by_par = {}
    for (par, pop), c in ps.covouts.items():
        by_par.setdefault(par, []).append(pop)
    par = next((p for p, pops in by_par.items() if len(pops) >= 2), None)
    if par is None:
        return dict(verdict="error", detail="the hiv program book has no parameter with effects in two populations")
    first = by_par[par][0]
    ps.covouts[(par, first)].sigma = 0.05
    for pop in by_par[par][1:]:
        ps.covouts[(par, pop)].sigma = None
    view = lambda s: {k: (c.baseline, c.sigma, c.cov_interaction, c.imp_interaction, tuple(sorted(c.progs.items()))) for k, c in s.covouts.items()}
    ps2 = at.ProgramSet.from_spreadsheet(ps.to_spreadsheet(), framework=P.framework, data=P.data)
    a, b = view(ps), view(ps2)
    bad = ["%r was written as %r and reads back as %r" % (k, a.get(k), b.get(k)) for k in sorted(set(a) | set(b)) if a.get(k) != b.get(k)]
    pre = dict(program_book="hiv", parameter=par, uncertainty_only_on=first)
    return dict(verdict="violates" if bad else "holds", detail="; ".join(bad[:2]) or "all %d program effect entries read back as written" % len(a), prestate=pre)


def _c16_rows(tier="quick", seed=0):
    import ast

    from pyvc import source

    out, scanned = [], 0
    for mod in ("programs", "parameters", "data", "project"):
        m = source.load(mod)
        names = list(m.functions.keys()) + ["%s.%s" % (c, f.name) for c, (node, _) in m.classes.items() for f in node.body if isinstance(f, ast.FunctionDef)]
        for n in sorted(names):
            scanned += 1
            out += flow.no_loop_carried_locals("%s:%s" % (mod, n), nested=True)
    out.append(dict(function="programs,parameters,data,project:all-functions", name="functions-scanned-for-loop-carried-locals:%d" % scanned, kind="structural", status="proved" if scanned > 100 else "refuted",
                    seconds=0.0, backend="ast-analysis", note="a local assigned in a loop body (nested loops included) is assigned in each iteration before it is read"))
    return _attach(out, "iteration-uses-only-its-own-locals", _replay_effect_rows_are_independent)


_c16_before_rows = EXTRA_CHECKS["C16"]
EXTRA_CHECKS["C16"] = (lambda tier="quick", seed=0: _c16_before_rows(tier, seed) + _c16_rows(tier, seed))


# ---- C19 "the listed mathematical functions": the whitelist table of function_parser names exactly the documented functions and binds each name to the function it says
# (a name bound to another function -- floor to trunc -- makes accepted strings evaluate to something else than ordinary arithmetic; an extra name widens what strings can call)
_C19_TABLE = {"max": "vector_max", "min": "vector_min", "exp": "np.exp", "floor": "np.floor", "SRC_POP_AVG": "None", "TGT_POP_AVG": "None", "SRC_POP_SUM": "None", "TGT_POP_SUM": "None", "STITCH_AVG": "None",
              "STITCH_SUM": "None", "pi": "np.pi", "cos": "np.cos", "sin": "np.sin", "sqrt": "np.sqrt", "ln": "np.log", "rand": "np.random.rand", "randn": "np.random.randn", "sdiv": "sdiv"}


def _replay_listed_functions():
    """replay on the REAL parse_function: every listed function of one argument is evaluated on scalars and arrays of both signs and compared with the math module"""
    import math

    import numpy as np

    import atomica.function_parser as fp

    ref = {"exp": math.exp, "floor": math.floor, "cos": math.cos, "sin": math.sin, "sqrt": math.sqrt, "ln": math.log}
    bad = []
    for name, f in ref.items():
        xs = [-2.5, -1.0, -0.25, 0.0, 0.75, 1.0, 3.5] if name not in ("sqrt", "ln") else [0.25, 1.0, 3.5]
        fn = fp.parse_function("%s(x)" % name)[0]
        for x in xs:
            got, want = float(fn(x=x)), float(f(x))
            if not (abs(got - want) <= 1e-12 * max(1.0, abs(want))):
                bad.append("%s(%r) evaluates to %r, ordinary arithmetic gives %r" % (name, x, got, want))
        arr = np.asarray(fn(x=np.array(xs)), dtype=float)
        if not np.allclose(arr, [f(x) for x in xs], rtol=1e-12, atol=1e-12):
            bad.append("%s on the array %r evaluates to %r" % (name, xs, arr.tolist()))
    for src, env, want in (("max(x,y)", dict(x=-3.0, y=-1.0), -1.0), ("min(x,y,z)", dict(x=2.0, y=-1.0, z=5.0), -1.0), ("pi", {}, math.pi)):
        got = float(fp.parse_function(src)[0](**env))
        if got != want:
            bad.append("%s with %r evaluates to %r, expected %r" % (src, env, got, want))
    return dict(verdict="violates" if bad else "holds", detail="; ".join(bad[:3]) or "every listed function evaluates like ordinary arithmetic on the sample points", prestate=dict(sample_points="scalars and arrays of both signs"))


def _c19_table(tier="quick", seed=0):
    import ast

    from pyvc import source

    m = source.load("function_parser")
    node = None
    for st in m.tree.body:
        if isinstance(st, ast.Assign) and len(st.targets) == 1 and isinstance(st.targets[0], ast.Name) and st.targets[0].id == "supported_functions" and isinstance(st.value, ast.Dict):
            node = st
    out = []
    if node is None:
        return [flow._ob("function_parser:supported_functions", "whitelist-table-found", False, note="the module no longer assigns a dict display to supported_functions")]
    got = {k.value: ast.unparse(v) for k, v in zip(node.value.keys, node.value.values) if isinstance(k, ast.Constant)}
    out.append(flow._ob("function_parser:supported_functions", "whitelist-names-exactly-the-listed-functions", set(got) == set(_C19_TABLE) and len(node.value.keys) == len(_C19_TABLE), node.lineno,
                        "listed: %s" % ", ".join(sorted(got)) if set(got) == set(_C19_TABLE) else "names only in the table: %s; names missing from it: %s" % (sorted(set(got) - set(_C19_TABLE)), sorted(set(_C19_TABLE) - set(got)))))
    for name in sorted(_C19_TABLE):
        if name in got:
            out.append(flow._ob("function_parser:supported_functions", "listed-name-is-bound-to-its-function:%s" % name, got[name] == _C19_TABLE[name], node.lineno,
                                "`%s` is bound to `%s`%s" % (name, got[name], "" if got[name] == _C19_TABLE[name] else " -- the function of that name is `%s`" % _C19_TABLE[name])))
    # the table is not rebound or extended elsewhere in the module
    later = [n for n in ast.walk(m.tree) if isinstance(n, (ast.Assign, ast.AugAssign)) and n is not node and any(isinstance(x, ast.Name) and x.id == "supported_functions" and isinstance(x.ctx, ast.Store) or
                                                                                                                  (isinstance(x, ast.Subscript) and isinstance(x.value, ast.Name) and x.value.id == "supported_functions" and isinstance(x.ctx, ast.Store))
                                                                                                                  for t in (n.targets if isinstance(n, ast.Assign) else [n.target]) for x in ast.walk(t))]
    out.append(flow._ob("function_parser:supported_functions", "whitelist-is-not-extended-elsewhere", not later, later[0].lineno if later else node.lineno, "no other statement of the module assigns to the table or to one of its entries"))
    return _attach(out, "listed-name-is-bound", _replay_listed_functions)


_c19_prev = EXTRA_CHECKS.get("C19")
EXTRA_CHECKS["C19"] = (lambda tier="quick", seed=0: (_c19_prev(tier, seed) if _c19_prev else []) + _c19_table(tier, seed))


# ---- C07 "initial compartment sizes reproduce the databook values of the first simulated year": Model.build initialises every population at the model's first TIME (self.t[0]),
# not at an index (the databook series are interpolated at that year)
def _replay_initial_year():
    """replay END TO END: the diabetes / cervicalcancer demo (databook values that change over the years) started one or two years after the first data year; a characteristic
    used for initialisation must start at its databook value of the START year"""
    import numpy as np

    _quiet()
    import atomica as at

    bad, checked = [], 0
    for demo, shift in (("diabetes", 2), ("cervicalcancer", 1)):
        try:
            P = at.demo(demo, do_run=False)
        except Exception:  # noqa
            continue
        start = float(P.data.start_year) + shift
        P.settings.update_time_vector(start=start, end=start + 2)
        res = P.run_sim(P.parsets[0], store_results=False)
        for name, tdve in P.data.tdve.items():
            if name in res.model.pops[0] and name in P.framework.characs.index and P.framework.characs.at[name, "setup weight"] > 0 and not (P.framework.characs.at[name, "denominator"] == P.framework.characs.at[name, "denominator"]):
                for pop in res.model.pops:
                    ts = tdve.ts.get(pop.name)
                    if ts is None or not ts.has_time_data:
                        continue
                    want = float(ts.interpolate(start)[0]) * P.parsets[0].pars[name].y_factor[pop.name] * P.parsets[0].pars[name].meta_y_factor
                    got = float(pop.get_variable(name)[0].vals[0])
                    checked += 1
                    if abs(got - want) > 1e-6 * max(1.0, abs(want)):
                        bad.append("%s / %s in %s: the run starts at %r, the databook value of %g is %r" % (demo, name, pop.name, got, start, want))
    if not checked:
        return dict(verdict="error", detail="no initialisation quantity with time data could be checked")
    return dict(verdict="violates" if bad else "holds", detail="; ".join(bad[:2]) or "%d initial quantities equal their databook value of the start year" % checked, prestate=dict(demos=["diabetes", "cervicalcancer"], start="first data year + 2 / + 1"))


def _c07_init_year(tier="quick", seed=0):
    import ast

    from pyvc import source

    fi = source.lookup("model:Model.build")
    calls = [c for c in ast.walk(fi.node) if isinstance(c, ast.Call) and isinstance(c.func, ast.Attribute) and c.func.attr == "initialize_compartments"]
    out = []
    for c in calls:
        args = [ast.unparse(a) for a in c.args] + ["%s=%s" % (k.arg, ast.unparse(k.value)) for k in c.keywords]
        year = ast.unparse(c.args[2]) if len(c.args) >= 3 else next((ast.unparse(k.value) for k in c.keywords if k.arg == "t_init"), None)
        out.append(flow._ob("model:Model.build", "populations-are-initialised-at-the-first-simulated-year@L%d" % c.lineno, year == "self.t[0]", c.lineno,
                            "call `%s(%s)`: the third argument (t_init, a YEAR) %s" % (ast.unparse(c.func), ", ".join(args), "is the model's first time" if year == "self.t[0]" else "is `%s`, not the model's first time `self.t[0]`" % year)))
    if not calls:
        out.append(flow._ob("model:Model.build", "populations-are-initialised-at-the-first-simulated-year:none-found", False, fi.lineno, "Model.build no longer calls initialize_compartments"))
    return _attach(out, "populations-are-initialised", _replay_initial_year)


_c07_prev = EXTRA_CHECKS.get("C07")
EXTRA_CHECKS["C07"] = (lambda tier="quick", seed=0: (_c07_prev(tier, seed) if _c07_prev else []) + _c07_init_year(tier, seed))


# ---- C10, the spreadsheet form of a saved state (Initialization.to_excel / from_excel: pandas, outside the engine's reach): BOUNDED stand-in, never counted as proved.
# Random saved states in the order from_result produces them (population by population, 1..6 compartments each; scalars for plain compartments, arrays of 1..12 rows for timed
# ones) are written with the real to_excel and read back with the real from_excel;
# every value must come back to 16 significant digits, arrays with all their rows, together with year, step and calibration hash.
def _bounded_saved_state_sheet(tier="quick", seed=0):
    import io
    import random
    import time

    import numpy as np
    import pandas as pd

    _quiet()
    from atomica.parameters import Initialization

    t0 = time.time()
    rng = random.Random(seed)
    n_cases = 12 if tier == "quick" else 120
    bad = []
    for case in range(n_cases):
        values = {}
        n_comps = rng.randint(2, 6)
        shape = {c: rng.choice([0, 0, 1, 2, 3, 8, 12]) for c in range(n_comps)}
        pops = ("adults", "children", "elderly")[: rng.randint(1, 3)]
        if case % 3 == 2:
            n_comps = 1   # populations with a single compartment: consecutive keys then name the same compartment (F29: pandas merged those index cells and the reader lost the value)
        for pop in pops:   # the order Initialization.from_result produces: population by population, each with all its compartments
            for c in range(n_comps):
                mag = 10 ** rng.uniform(-3, 7)
                values[("comp_%d" % c, pop)] = (rng.random() * mag) if shape[c] == 0 else np.array([rng.random() * mag for _ in range(shape[c])])
        init = Initialization(values=values, year=2000 + rng.randint(0, 30) + rng.choice([0.0, 0.25, 0.5]))
        init.dt = rng.choice([1.0, 0.25, 1 / 12])
        init.init_y_factor_hash = "hash%d" % case
        buf = io.BytesIO()
        try:
            with pd.ExcelWriter(buf, engine="xlsxwriter") as w:
                init.to_excel(w)
            buf.seek(0)
            back = Initialization.from_excel(pd.ExcelFile(buf))
        except Exception as e:  # noqa
            bad.append(dict(case=case, error="%s: %s" % (type(e).__name__, str(e)[:120])))
            continue
        for k, v in values.items():
            got = back.values.get(k)
            a, b = np.atleast_1d(np.asarray(v, dtype=float)), (np.atleast_1d(np.asarray(got, dtype=float)) if got is not None else np.array([]))
            if a.shape != b.shape or not np.allclose(a, b, rtol=1e-15, atol=0):
                bad.append(dict(case=case, key=list(k), saved=a.tolist(), read_back=b.tolist()))
        if (float(back.year), float(back.dt), back.init_y_factor_hash) != (float(init.year), float(init.dt), init.init_y_factor_hash):
            bad.append(dict(case=case, metadata_saved=[init.year, init.dt, init.init_y_factor_hash], metadata_read=[back.year, back.dt, back.init_y_factor_hash]))
    ob = dict(function="parameters:Initialization.to_excel / from_excel (bounded sweep)", name="BOUNDED.saved_state_sheet_round_trip_on_%d_states" % n_cases, kind="bounded", status="proved" if not bad else "refuted",
              seconds=round(time.time() - t0, 2), backend="bounded-enumeration",
              note="bounded stand-in: %d random saved states (scalars and arrays of 1..12 rows) through the real to_excel / from_excel; not counted as proved" % n_cases)
    if bad:
        ob["replay"] = dict(verdict="violates", detail="first failing states: %r" % bad[:2], prestate=bad[0])
    return [ob]


_c10_before_sheet = EXTRA_CHECKS["C10"]
EXTRA_CHECKS["C10"] = (lambda tier="quick", seed=0: _c10_before_sheet(tier, seed) + _bounded_saved_state_sheet(tier, seed))


# ---- C03 "output times are exactly start + k*dt ... up to the requested end year": the times requested in the Project constructor are applied AFTER the databook is loaded
# (loading a databook aligns the start year with the data and sets a default end year: applied before, the user's request would be overwritten)
def _replay_project_times():
    """replay on the REAL Project constructor: the udt framework and databook with sim_start=2017, sim_end=2030, sim_dt=0.25"""
    _quiet()
    import atomica as at

    P = at.Project(framework=at.LIBRARY_PATH / "udt_framework.xlsx", databook=at.LIBRARY_PATH / "udt_databook.xlsx", sim_start=2017, sim_end=2030, sim_dt=0.25, do_run=False)
    got = (float(P.settings.sim_start), float(P.settings.sim_end), float(P.settings.sim_dt))
    pre = dict(framework="udt", requested=dict(sim_start=2017, sim_end=2030, sim_dt=0.25))
    if got != (2017.0, 2030.0, 0.25):
        return dict(verdict="violates", detail="requested start 2017, end 2030, step 0.25; the project simulates from %r to %r in steps of %r" % got, prestate=pre)
    return dict(verdict="holds", detail="the project simulates from 2017 to 2030 in steps of 0.25 as requested", prestate=pre)


def _c03_project_times(tier="quick", seed=0):
    import ast

    from pyvc import source

    fi = source.lookup("project:Project.__init__")
    calls = [c for c in ast.walk(fi.node) if isinstance(c, ast.Call) and isinstance(c.func, ast.Attribute)]
    loads = [c.lineno for c in calls if c.func.attr == "load_databook"]
    applies = [c.lineno for c in calls if c.func.attr == "update_time_vector" and {k.arg for k in c.keywords} >= {"start", "end", "dt"}]
    ok = bool(applies) and bool(loads) and min(applies) > max(loads)
    note = ("the requested times are applied at line %s, after the databook is loaded (line %s)" % (applies, loads)) if ok else \
           ("the requested start / end / step must be applied after `load_databook` (which sets the times from the data): applied at line(s) %s, databook loaded at line(s) %s" % (applies, loads))
    return _attach([flow._ob("project:Project.__init__", "requested-times-are-applied-after-the-databook-is-loaded", ok, (applies or [fi.lineno])[0], note)], "requested-times", _replay_project_times)


_c03_prev = EXTRA_CHECKS.get("C03")
EXTRA_CHECKS["C03"] = (lambda tier="quick", seed=0: (_c03_prev(tier, seed) if _c03_prev else []) + _c03_project_times(tier, seed))
