"""
run_model / Project.run_sim (properties C08 "running a simulation is a function of its inputs", C09): the model is built from exactly the
settings, framework, parameter set, program set and instructions given, processed exactly once, and the result wraps THAT model under the
requested name; Project.run_sim hands run_model the project's own settings and framework and the sets it was given, invents a fresh
result name only when none is given, and stores the result only when asked.  Model / Result / run_model are ghosts recording their arguments.
"""
schema = "covout"
CONTRACTS = {}


def _env_run_model(it):
    from pyvc.core import Opaque

    return {"settings": Opaque("settings"), "framework": Opaque("framework"), "parset": Opaque("parset"), "progset": Opaque("progset"), "program_instructions": Opaque("instructions"), "name": "res", "LOG": []}


def _ghost_model(it, *a):
    from pyvc.interp import PyObjV
    from pyvc import source

    m = PyObjV("Model", source.load("model"), {"ARGS": a, "PROCESSED": 0})
    it.live_env["LOG"].append(("Model", m))
    return m


def _ghost_process(it):
    it.stub_receiver.fields["PROCESSED"] += 1


CONTRACTS["model:run_model"] = dict(
    schema=schema, make_env=_env_run_model,
    call_stubs={"Model": _ghost_model, "m.process": _ghost_process, "Result": (lambda it, **k: ("result", k["model"], k["parset"], k["name"]))},
    ensures=[("C08+C09.the_model_is_built_from_exactly_the_inputs_given", "len(LOG) == 1 and LOG[0][1].ARGS == (settings, framework, parset, progset, program_instructions)"),
             ("C08.it_is_processed_exactly_once_and_the_result_wraps_that_model", "LOG[0][1].PROCESSED == 1 and result == ('result', LOG[0][1], parset, 'res')")],
    defined_props=["C08", "C09"])


def _env_run_sim(named, store):
    def make(it):
        from pyvc.interp import PyObjV
        from pyvc.core import Opaque
        from pyvc import source

        ps = PyObjV("ParameterSet", source.load("parameters"), {"name": "default"})
        pg = PyObjV("ProgramSet", source.load("programs"), {"name": "progs"})
        self = PyObjV("Project", source.load("project"), {"name": "proj", "settings": Opaque("settings"), "framework": Opaque("framework"), "results": {"parset_default_progset_progs": "an earlier result"}})
        return {"self": self, "parset": ps, "progset": pg, "progset_instructions": Opaque("instructions"), "store_results": store, "result_name": "mine" if named else None, "PS": ps, "PG": pg, "CALLS": [], "STORED": []}

    return make


def _ghost_run_model(it, **k):
    it.live_env["CALLS"].append(k)
    return ("result named", k["name"])


for _named in (True, False):
    for _store in (True, False):
        CONTRACTS["project:Project.run_sim#%s_%s" % ("named" if _named else "unnamed", "stored" if _store else "not_stored")] = dict(
            schema=schema, make_env=_env_run_sim(_named, _store),
            call_stubs={"self.parset": (lambda it, x: x), "self.progset": (lambda it, x: x), "run_model": _ghost_run_model, "sc.tic": (lambda it: 0), "sc.toc": (lambda it, *a, **k: 0), "sc.sigfig": (lambda it, *a, **k: "0"),
                        "self.results.append": (lambda it, r: it.live_env["STORED"].append(r))},
            ensures=[("C08+C09.the_run_uses_the_projects_settings_and_framework_and_the_sets_given",
                      "len(CALLS) == 1 and CALLS[0]['settings'] is self.settings and CALLS[0]['framework'] is self.framework and CALLS[0]['parset'] is PS and CALLS[0]['progset'] is PG and CALLS[0]['program_instructions'] is progset_instructions"),
                     ("C08.the_result_name_is_the_one_given_or_a_fresh_one", "CALLS[0]['name'] == %r and result == ('result named', %r)" % (("mine", "mine") if _named else ("parset_default_progset_progs_1", "parset_default_progset_progs_1"))),
                     ("C08.the_result_is_stored_only_when_asked", "STORED == %s" % ("[result]" if _store else "[]"))],
            defined_props=["C08", "C09"])


# ---- Project.run_scenarios (C09): exactly the ACTIVE scenarios of the project are run, in their stored order, each against this project with the caller's storage flag
def _env_run_scens(it):
    from pyvc.interp import PyObjV
    from pyvc import source

    sm = source.load("scenarios")
    scens = {n: PyObjV("Scenario", sm, {"name": n, "active": act}) for n, act in (("first", True), ("off", False), ("last", True))}
    return {"self": PyObjV("Project", source.load("project"), {"name": "proj", "scens": scens}), "store_results": False, "RUNS": []}


def _ghost_scen_run(it, project=None, store_results=True):
    it.live_env["RUNS"].append((it.stub_receiver.fields["name"], project, store_results))
    return "result of " + it.stub_receiver.fields["name"]


CONTRACTS["project:Project.run_scenarios"] = dict(
    schema=schema, make_env=_env_run_scens, call_stubs={"scenario.run": _ghost_scen_run},
    ensures=[("C09.exactly_the_active_scenarios_are_run_in_order_against_this_project", "result == ['result of first', 'result of last'] and len(RUNS) == 2 and RUNS[0][0] == 'first' and RUNS[1][0] == 'last' and RUNS[0][1] is self and RUNS[1][1] is self and RUNS[0][2] is False")],
    defined_props=["C09"])


# ---- Result.__init__ (C20 / C13: a result is its finished model): the result keeps THE model it is given (no copy), the name of the parameter set that produced it and the
# population names in model order; it is named after the parameter set unless a name is given
def _env_result_init(name, with_parset=True):
    def make(it):
        from pyvc.interp import PyObjV
        from pyvc import source

        mm = source.load("model")
        model = PyObjV("Model", mm, {"pops": [PyObjV("Population", mm, {"name": n}) for n in ("adults", "children")]})
        ps = PyObjV("ParameterSet", source.load("parameters"), {"name": "calibrated"}) if with_parset else None
        return {"self": PyObjV("Result", source.load("results"), {}), "model": model, "parset": ps, "name": name, "MODEL": model, "NAMED": []}

    return make


_res_stubs = {"NamedItem.__init__": (lambda it, obj, name=None: (obj.fields.__setitem__("name", name), it.live_env["NAMED"].append(name))[1]), "sc.uuid": (lambda it: "UID")}
_res_globals = {"version": "VERSION", "gitinfo": "GITINFO"}
for _tag, _name, _wp, _want_name, _want_ps in (("named_after_its_parameter_set", None, True, "calibrated", "calibrated"), ("with_its_own_name", "scenario A", True, "scenario A", "calibrated"), ("without_a_parameter_set", None, False, None, None)):
    CONTRACTS["results:Result.__init__#%s" % _tag] = dict(
        schema=schema, make_env=(lambda n, w: (lambda it: dict(_env_result_init(n, w)(it), VERSION="1.0", GITINFO="git")))(_name, _wp), call_stubs=_res_stubs, stubs=_res_globals,
        ensures=[("C20+C13.the_result_keeps_the_model_it_is_given_and_the_population_names_in_model_order", "self.model is MODEL and self.pop_names == ['adults', 'children']"),
                 ("C20+C13.it_records_the_parameter_set_and_is_named_after_it_unless_named", "self.name == %r and self.parset_name == %r and NAMED == [%r]" % (_want_name, _want_ps, _want_name))],
        defined_props=["C20", "C13"])
