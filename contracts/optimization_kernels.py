"""
Contracts on atomica/optimization.py: constrain_sum_bounded (property C14).

scipy.optimize.minimize (SLSQP) is external: its result is HAVOCKED -- `success` is an arbitrary boolean and `x` an arbitrary
real vector.  Whatever SLSQP returns, the function must either signal failure or return a vector inside the bounds whose
sum is within the code's own tolerance of the target.
"""
import z3

SCHEMA = {"__families__": []}
schema = "optimization_kernels"
CONTRACTS = {}


def _env(it):
    from pyvc.core import LArr

    n = z3.Int("n")
    it.facts.append(n >= 1)

    def arr(name):
        f = z3.Function(name, z3.IntSort(), z3.RealSort())
        return LArr(n, lambda i, f=f: f(i if z3.is_expr(i) else z3.IntVal(i)), fresh_alloc=False)

    res = {"success": z3.Bool("slsqp_success"), "x": arr("slsqp_x")}
    return {"x": arr("x"), "lb": arr("lb"), "ub": arr("ub"), "s": z3.Real("s"), "RES": res, "n": n}


CONTRACTS["optimization:constrain_sum_bounded"] = dict(
    schema=schema,
    make_env=_env,
    call_stubs={"scipy.optimize.minimize": "RES"},
    requires=["s > 0", "all(lb[i] >= 0 and lb[i] <= ub[i] and x[i] >= 0 for i in range(n))"],
    raises={"FailedConstraint": "not RES['success']", "AssertionError": True},
    ensures=[
        ("C14+C15.within_bounds", "all(result[i] >= lb[i] and result[i] <= ub[i] for i in range(n))"),
        ("C14.sum_meets_total_within_code_tolerance", "abs(sum(result[i] for i in range(n)) - s) <= 1e-08 + 1e-05 * s"),
        ("C14.feasible_proposal_returned_unchanged", "implies(sum(x[i] for i in range(n)) == s and all(x[i] >= lb[i] and x[i] <= ub[i] for i in range(n)), all(result[i] == x[i] for i in range(n)))"),
        ("C14.exact_total_without_slsqp", "implies(sum(x[i] for i in range(n)) != 0 and all(x[i] * s >= lb[i] * sum(x[j] for j in range(n)) and x[i] * s <= ub[i] * sum(x[j] for j in range(n)) for i in range(n)), sum(result[i] for i in range(n)) == s)"),
    ],
    defined_props=["C14"],
    raises_props=["C14"],
)


# ---- SpendingPackageAdjustment.update_instructions (C14, last sentence): every member's share stays within its minimum / maximum
# proportion and the members add up to the package total.  Two programs; the fractions come from constrain_sum_bounded(fracs, 1,
# min_props, max_props), seen here through ITS contract (clauses C14.within_bounds and C14.sum_meets_total_within_code_tolerance
# above, instantiated by hand for s = 1 -- the callee is verified against them separately).
def _env_package(adjust_total):
    def make(it):
        from pyvc.interp import PyObjV
        from pyvc.core import LArr
        from pyvc import source

        om, um = source.load("optimization"), source.load("utils")
        mn = [z3.Real("min_%d" % i) for i in range(2)]
        mx = [z3.Real("max_%d" % i) for i in range(2)]
        ini = [z3.Real("initial_%d" % i) for i in range(2)]
        fr = [z3.Real("FR_%d" % i) for i in range(2)]
        adj = [PyObjV("Adjustable", om, {"name": "frac_a"}), PyObjV("Adjustable", om, {"name": "frac_b"})]
        vals = [z3.Real("adj_%d" % i) for i in range(3 if adjust_total else 2)]
        if adjust_total:
            adj.append(PyObjV("Adjustable", om, {"name": "package_spend"}))
        self = PyObjV("SpendingPackageAdjustment", om, {"name": "pkg", "prog_name": ["a", "b"], "t": 2020.0, "adjustables": adj,
                                                      "min_props": LArr(2, it._list_reader(mn)), "max_props": LArr(2, it._list_reader(mx)), "initial_spends": LArr(2, it._list_reader(ini))})
        ts = lambda: PyObjV("TimeSeries", um, {"t": [], "vals": [], "units": "$", "assumption": None, "sigma": None, "_sampled": False})
        instructions = PyObjV("ProgramInstructions", source.load("programs"), {"alloc": {"a": ts(), "b": ts()}})
        total = vals[2] if adjust_total else ini[0] + ini[1]
        return {"self": self, "instructions": instructions, "adjustable_values": LArr(len(vals), it._list_reader(vals)), "FR": LArr(2, it._list_reader(fr)),
                "fr": fr, "mn": mn, "mx": mx, "total": total}

    return make


for _adj in (True, False):
    CONTRACTS["optimization:SpendingPackageAdjustment.update_instructions#%s" % ("adjustable_total" if _adj else "fixed_total")] = dict(
        schema=schema, make_env=_env_package(_adj),
        call_stubs={"constrain_sum_bounded": (lambda it, *a, **k: it.ghost_env["FR"])},
        # the callee's ensures, for s = 1
        requires=["all(fr[i] >= mn[i] and fr[i] <= mx[i] for i in range(2))", "abs(fr[0] + fr[1] - 1) <= 1e-08 + 1e-05", "total >= 0"],
        ensures=[
            ("C14.member_spending_is_its_fraction_of_the_package_total", "instructions.alloc['a'].vals[0] == fr[0] * total and instructions.alloc['b'].vals[0] == fr[1] * total"),
            ("C14.member_share_within_its_minimum_and_maximum_proportion",
             "all(instructions.alloc[p].vals[0] >= mn[i] * total and instructions.alloc[p].vals[0] <= mx[i] * total for i, p in enumerate(['a', 'b']))"),
            ("C14.members_add_up_to_the_package_total_within_the_code_tolerance", "abs(instructions.alloc['a'].vals[0] + instructions.alloc['b'].vals[0] - total) <= (1e-08 + 1e-05) * total"),
            ("C14.spending_is_dated_at_the_package_year", "instructions.alloc['a'].t == [2020.0] and instructions.alloc['b'].t == [2020.0]"),
        ],
        defined_props=["C14"], adjust_total=_adj)


def _replay_package(model, contract):
    """replay on a REAL SpendingPackageAdjustment (built without its constructor) and real TimeSeries allocations; the real
    constrain_sum_bounded runs (no stub), so a refusal (FailedConstraint / AssertionError) counts as a signalled failure"""
    import numpy as np
    import atomica.optimization as ao
    import atomica.utils as au

    def val(name):
        v = model.eval(z3.Real(name), model_completion=True)
        try:
            return float(v.numerator_as_long()) / float(v.denominator_as_long())
        except Exception:
            v = v.approx(12)
            return float(v.numerator_as_long()) / float(v.denominator_as_long())

    adj_total = contract["adjust_total"]
    mn = [val("min_%d" % i) for i in range(2)]
    mx = [val("max_%d" % i) for i in range(2)]
    ini = [val("initial_%d" % i) for i in range(2)]
    x = [val("adj_%d" % i) for i in range(3 if adj_total else 2)]
    pkg = object.__new__(ao.SpendingPackageAdjustment)
    pkg.name, pkg.prog_name, pkg.t = "pkg", ["a", "b"], 2020.0
    pkg.min_props, pkg.max_props, pkg.initial_spends = np.array(mn), np.array(mx), np.array(ini)
    pkg.adjustables = [ao.Adjustable("frac_a"), ao.Adjustable("frac_b")] + ([ao.Adjustable("package_spend")] if adj_total else [])

    class _Instr:
        pass

    instr = _Instr()
    instr.alloc = {"a": au.TimeSeries(), "b": au.TimeSeries()}
    total = x[2] if adj_total else ini[0] + ini[1]
    pre = dict(min_props=mn, max_props=mx, initial_spends=ini, adjustable_values=x, package_total=total)
    try:
        with np.errstate(all="ignore"):
            pkg.update_instructions(np.array(x), instr)
    except (ao.FailedConstraint, AssertionError) as e:
        return dict(verdict="holds", detail="the real code signalled that the proposal cannot be satisfied (%s)" % type(e).__name__, prestate=pre)
    except Exception as e:
        return dict(verdict="violates", detail="real code raised %s: %s" % (type(e).__name__, e), prestate=pre)
    spend = [float(instr.alloc[p].get(2020.0)) for p in ("a", "b")]
    tol = (1e-8 + 1e-5) * abs(total) + 1e-12
    bad = []
    for i, p in enumerate(("a", "b")):
        if spend[i] < mn[i] * total - tol or spend[i] > mx[i] * total + tol:
            bad.append("share of %s is %r of a total %r, allowed [%r, %r]" % (p, spend[i], total, mn[i], mx[i]))
    if abs(sum(spend) - total) > tol:
        bad.append("members add up to %r, package total %r" % (sum(spend), total))
    pre["spending_after"] = spend
    return dict(verdict="violates" if bad else "holds", detail="; ".join(bad) or "shares within their proportions and adding up to the total", prestate=pre)


for _k, _c in CONTRACTS.items():
    if "SpendingPackageAdjustment" in _k:
        _c["replay_hook"] = _replay_package


# ---- bounds of one adjustable and the start-of-optimisation check (C14: "constraints that are impossible from the outset are reported
# before optimization starts"; C15: "adjusted values all lie within the bounds given")
def _env_adjustable(limit_type, lower_none, upper_none):
    def make(it):
        from pyvc.interp import PyObjV
        from pyvc import source

        lo, hi = z3.Real("lower"), z3.Real("upper")
        self = PyObjV("Adjustable", source.load("optimization"), {"name": "a", "limit_type": limit_type, "lower_bound": None if lower_none else lo,
                                                                 "upper_bound": None if upper_none else hi, "initial_value": None})
        return {"self": self, "lo": lo, "hi": hi}

    return make


for _lt in ("abs", "rel"):
    CONTRACTS["optimization:Adjustable.get_hard_bounds#%s" % _lt] = dict(
        schema=schema, make_env=_env_adjustable(_lt, False, False), params={"x0": "real"},
        ensures=[("C14+C15.bounds_are_absolute_or_relative_to_the_initial_value",
                  "result[0] == (lo if %r == 'abs' else x0 * lo) and result[1] == (hi if %r == 'abs' else x0 * hi)" % (_lt, _lt))],
        defined_props=["C14", "C15"])


def _env_init_check(it):
    from pyvc.interp import PyObjV
    from pyvc.core import LArr
    from pyvc import source

    om = source.load("optimization")
    lo, hi, x = z3.Real("lower"), z3.Real("upper"), z3.Real("x_init")
    adjustable = PyObjV("Adjustable", om, {"name": "a", "limit_type": "abs", "lower_bound": lo, "upper_bound": hi, "initial_value": None})
    adjustment = PyObjV("Adjustment", om, {"name": "adj", "adjustables": [adjustable]})
    return {"adjustable": adjustable, "adjustment": adjustment, "ptr": 0, "x0": LArr(1, lambda i: x), "xmin": LArr(1, lambda i: 0.0), "xmax": LArr(1, lambda i: 0.0),
            "lo": lo, "hi": hi, "x": x, "self": None, "progset": None, "instructions": None}


CONTRACTS["optimization:Optimization.get_initialization#bounds_check"] = dict(
    schema=schema, fragment={"iter": "adjustment.adjustables"}, make_env=_env_init_check,
    raises={"InvalidInitialConditions": "x > hi or x < lo"}, raises_props=["C14", "C15"],
    ensures=[
        ("C14+C15.accepted_initial_value_lies_within_its_bounds", "lo <= x and x <= hi"),
        ("C14+C15.bounds_are_recorded_for_the_optimiser", "xmin[0] == lo and xmax[0] == hi and ptr == 1"),
    ],
    defined_props=["C14", "C15"])


# ---- TotalSpendConstraint.constrain_instructions (C14, first sentence): the body of the loop over constrained years, for two programs
# that both have a spending series.  constrain_sum_bounded is seen through ITS contract (the ghost X1 with the clauses
# C14.within_bounds and C14.sum_meets_total_within_code_tolerance assumed in `requires`; the callee is verified against them above);
# what is proved here is the wiring around it: the proposal handed over is the current spending at THAT year in program order, each
# program's bounds travel with its amount, and the rescaled amounts are written back to the right program at the right year -- so
# the instructions end up within every bound and adding up to the total.
def _env_constrain(it):
    from pyvc.interp import PyObjV
    from pyvc.core import LArr
    from pyvc import source

    om, um = source.load("optimization"), source.load("utils")
    T = 2020.0
    cur = [z3.Real("cur_%d" % i) for i in range(2)]
    other = [z3.Real("other_%d" % i) for i in range(2)]
    lo = [z3.Real("lo_%d" % i) for i in range(2)]
    hi = [z3.Real("hi_%d" % i) for i in range(2)]
    x1 = [z3.Real("X1_%d" % i) for i in range(2)]
    ts = lambda i: PyObjV("TimeSeries", um, {"t": [T, 2030.0], "vals": [cur[i], other[i]], "units": "$", "assumption": None, "sigma": None, "_sampled": False})
    instructions = PyObjV("ProgramInstructions", source.load("programs"), {"alloc": {"a": ts(0), "b": ts(1)}})
    hc = {"programs": {T: ["a", "b"]}, "bounds": {T: {"a": (lo[0], hi[0]), "b": (lo[1], hi[1])}}}
    return {"self": PyObjV("TotalSpendConstraint", om, {}), "instructions": instructions, "hard_constraints": hc, "t": T, "penalty": z3.Real("penalty0"), "penalty0": z3.Real("penalty0"),
            "X1": LArr(2, it._list_reader(x1)), "x1": x1, "cur": cur, "other": other, "lo": lo, "hi": hi, "optimization": None, "USED": {}}


def _ghost_csb(it, x, s, lb, ub):
    it.live_env["USED"].update({"x": x, "s": s, "lb": lb, "ub": ub})
    return it.ghost_env["X1"]


CONTRACTS["optimization:TotalSpendConstraint.constrain_instructions#one_year_two_programs"] = dict(
    schema=schema, fragment={"iter": "hard_constraints['initial_total_spend'].items()"}, make_env=_env_constrain,
    ghost_params={"TOTAL": "real", "NORM": "real"},
    stubs={"sc.promotetoarray(total_spend).ravel()[0]": "TOTAL", "np.linalg.norm(x1_array - x0_array)": "NORM"},
    call_stubs={"constrain_sum_bounded": _ghost_csb},
    # the callee's ensures
    requires=["all(x1[i] >= lo[i] and x1[i] <= hi[i] for i in range(2))", "abs(x1[0] + x1[1] - TOTAL) <= 1e-08 + 1e-05 * TOTAL", "TOTAL >= 0"],
    ensures=[
        ("C14.proposal_is_the_current_spending_of_that_year_in_program_order", "len(USED['x']) == 2 and USED['x'][0] == cur[0] and USED['x'][1] == cur[1] and USED['s'] == TOTAL"),
        ("C14.each_program_travels_with_its_own_bounds", "len(USED['lb']) == 2 and len(USED['ub']) == 2 and all(USED['lb'][i] == lo[i] and USED['ub'][i] == hi[i] for i in range(2))"),
        ("C14.rescaled_amounts_are_written_to_their_program_at_that_year", "instructions.alloc['a'].get(2020.0) == x1[0] and instructions.alloc['b'].get(2020.0) == x1[1]"),
        ("C14.instructions_end_up_within_every_bound_and_on_the_total",
         "all(instructions.alloc[p].get(2020.0) >= lo[i] and instructions.alloc[p].get(2020.0) <= hi[i] for i, p in enumerate(['a', 'b'])) and abs(instructions.alloc['a'].get(2020.0) + instructions.alloc['b'].get(2020.0) - TOTAL) <= 1e-08 + 1e-05 * TOTAL"),
        ("C14.other_years_are_left_alone", "instructions.alloc['a'].get(2030.0) == other[0] and instructions.alloc['b'].get(2030.0) == other[1] and len(instructions.alloc['a'].t) == 2 and len(instructions.alloc['b'].t) == 2"),
        ("C14.penalty_grows_by_the_distance_moved", "penalty == penalty0 + TOTAL * NORM"),
    ],
    defined_props=["C14"])


def _replay_constrain(model, contract):
    """replay on a REAL TotalSpendConstraint, real ProgramInstructions-like allocations (real TimeSeries) and the real
    constrain_sum_bounded: the solver's values first, then a small catalogue of feasible proposals; after the call the two
    amounts at the year must lie within their bounds and add up to the total, unless the code signalled that it cannot be done"""
    import numpy as np
    import atomica.optimization as ao
    import atomica.utils as au

    def val(name):
        v = model.eval(z3.Real(name), model_completion=True)
        try:
            return float(v.numerator_as_long()) / float(v.denominator_as_long())
        except Exception:
            v = v.approx(12)
            return float(v.numerator_as_long()) / float(v.denominator_as_long())

    cases = []
    try:
        cases.append(([val("cur_0"), val("cur_1")], [val("lo_0"), val("lo_1")], [val("hi_0"), val("hi_1")], val("TOTAL")))
    except Exception:
        pass
    cases += [([30.0, 70.0], [10.0, 60.0], [35.0, 100.0], 100.0), ([50.0, 50.0], [0.0, 70.0], [40.0, 90.0], 110.0), ([10.0, 20.0], [5.0, 5.0], [100.0, 100.0], 60.0), ([80.0, 20.0], [0.0, 0.0], [50.0, 1000.0], 100.0)]
    bad, tried = [], []
    for cur, lo, hi, total in cases:
        class _Instr:
            pass

        instr = _Instr()
        instr.alloc = {"a": au.TimeSeries([2020.0, 2030.0], [cur[0], 1.0]), "b": au.TimeSeries([2020.0, 2030.0], [cur[1], 2.0])}
        hc = {"programs": {2020.0: ["a", "b"]}, "bounds": {2020.0: {"a": (lo[0], hi[0]), "b": (lo[1], hi[1])}}, "initial_total_spend": {2020.0: total}}
        c = ao.TotalSpendConstraint()
        case = dict(spending=cur, lower=lo, upper=hi, total=total)
        try:
            with np.errstate(all="ignore"):
                c.constrain_instructions(instr, hc, None)
        except (ao.FailedConstraint, AssertionError) as e:
            case["outcome"] = "signalled %s" % type(e).__name__
            tried.append(case)
            continue
        except Exception as e:
            case["outcome"] = "raised %s: %s" % (type(e).__name__, e)
            tried.append(case)
            bad.append("real code raised %s: %s for %r" % (type(e).__name__, e, case))
            continue
        after = [float(instr.alloc[p].get(2020.0)) for p in ("a", "b")]
        case["spending_after"] = after
        tried.append(case)
        tol = 1e-8 + 1e-5 * abs(total)
        for i, p in enumerate(("a", "b")):
            if after[i] < lo[i] - tol or after[i] > hi[i] + tol:
                bad.append("program %s ends at %r outside [%r, %r] (proposal %r, total %r)" % (p, after[i], lo[i], hi[i], cur, total))
        if abs(sum(after) - total) > tol:
            bad.append("amounts add up to %r, required total %r (proposal %r)" % (sum(after), total, cur))
        if float(instr.alloc["a"].get(2030.0)) != 1.0 or float(instr.alloc["b"].get(2030.0)) != 2.0:
            bad.append("spending of another year was changed")
    return dict(verdict="violates" if bad else "holds", detail="; ".join(bad[:3]) or "every proposal ends within its bounds on the total (or is refused)", prestate=dict(cases=tried))


CONTRACTS["optimization:TotalSpendConstraint.constrain_instructions#one_year_two_programs"]["replay_hook"] = _replay_constrain


# ---- TotalSpendConstraint.get_hard_constraint (C14: "constraints that are impossible from the outset are reported before optimization
# starts"): the body of the loop that collects the bounds of one constrained year, for two SpendingAdjustments (programs a and b,
# one adjustable each, relative or absolute bounds, both finite).  Each program's bounds are its adjustable's hard bounds at the
# spending of THAT year, and a total outside [sum of the minima, sum of the maxima] is refused with UnresolvableConstraint.
def _env_hard(limit_type):
    def make(it):
        import numpy as np
        from pyvc.interp import PyObjV
        from pyvc import source

        om, um = source.load("optimization"), source.load("utils")
        T = 2020.0
        sp = [z3.Real("spend_%d" % i) for i in range(2)]
        lo = [z3.Real("lower_%d" % i) for i in range(2)]
        hi = [z3.Real("upper_%d" % i) for i in range(2)]
        ts = lambda i: PyObjV("TimeSeries", um, {"t": [T], "vals": [sp[i]], "units": "$", "assumption": None, "sigma": None, "_sampled": False})
        instructions = PyObjV("ProgramInstructions", source.load("programs"), {"alloc": {"a": ts(0), "b": ts(1)}})
        # program a is adjustable in an EARLIER year too, with other bounds: the bounds of the constrained year must be used
        early = PyObjV("Adjustable", om, {"name": "a", "limit_type": limit_type, "lower_bound": z3.Real("lower_early"), "upper_bound": z3.Real("upper_early")})
        adj = lambda i, p: PyObjV("SpendingAdjustment", om, {"name": p, "prog_name": p, "t": np.array([2015.0, T]) if i == 0 else np.array([T]),
                                                              "adjustables": ([early] if i == 0 else []) + [PyObjV("Adjustable", om, {"name": p, "limit_type": limit_type, "lower_bound": lo[i], "upper_bound": hi[i]})]})
        optimization = PyObjV("Optimization", om, {"adjustments": [adj(0, "a"), adj(1, "b")]})
        total = z3.Real("TOTAL")
        hc = {"programs": {T: ["a", "b"]}, "initial_total_spend": {T: total}, "bounds": {}}
        mult = (lambda i, b: b) if limit_type == "abs" else (lambda i, b: sp[i] * b)
        return {"self": PyObjV("TotalSpendConstraint", om, {}), "instructions": instructions, "optimization": optimization, "hard_constraints": hc, "t": T, "progs": ["a", "b"],
                "TOTAL": total, "LO": [mult(i, lo[i]) for i in range(2)], "HI": [mult(i, hi[i]) for i in range(2)], "sp": sp}

    return make


for _lt in ("abs", "rel"):
    CONTRACTS["optimization:TotalSpendConstraint.get_hard_constraint#bounds_of_one_year_%s" % _lt] = dict(
        schema=schema, fragment={"iter": "hard_constraints['programs'].items()", "body_contains": "minimum_spend"}, make_env=_env_hard(_lt),
        requires=["sp[0] >= 0", "sp[1] >= 0"],
        raises={"UnresolvableConstraint": "LO[0] + LO[1] > TOTAL or HI[0] + HI[1] < TOTAL"}, raises_props=["C14"],
        ensures=[
            ("C14+C15.each_program_is_bounded_by_its_adjustable_at_that_year", "hard_constraints['bounds'][2020.0]['a'] == (LO[0], HI[0]) and hard_constraints['bounds'][2020.0]['b'] == (LO[1], HI[1])"),
            ("C14.an_accepted_total_lies_between_the_sums_of_the_bounds", "LO[0] + LO[1] <= TOTAL and TOTAL <= HI[0] + HI[1]"),
        ],
        defined_props=["C14", "C15"])


def _replay_hard(limit_type):
    def replay(model, contract):
        """replay on the REAL TotalSpendConstraint.get_hard_constraint with two real SpendingAdjustments (spending 30 and 70 in 2020) and
        explicit totals below the sum of the minima, inside, and above the sum of the maxima"""
        import atomica as at
        import atomica.optimization as ao

        lo, hi = ([15.0, 35.0], [60.0, 140.0]) if limit_type == "abs" else ([0.5, 0.5], [2.0, 2.0])
        want_lo, want_hi = [15.0, 35.0], [60.0, 140.0]

        class _Opt:
            pass

        bad, tried = [], []
        for total, ok in ((40.0, False), (50.0, True), (100.0, True), (200.0, True), (250.0, False)):
            opt = _Opt()
            early = (1.0, 2.0) if limit_type == "abs" else (0.01, 0.02)   # program a is also adjustable in 2015, with other (much tighter) bounds
            opt.adjustments = [ao.SpendingAdjustment("a", [2015.0, 2020.0], limit_type, [early[0], lo[0]], [early[1], hi[0]]), ao.SpendingAdjustment("b", 2020.0, limit_type, lo[1], hi[1])]
            instr = at.ProgramInstructions(start_year=2015, alloc={"a": at.TimeSeries([2015.0, 2020.0], [30.0, 30.0]), "b": at.TimeSeries(2020.0, 70.0)})
            c = ao.TotalSpendConstraint(total_spend=total, t=2020.0)
            case = dict(total=total, limit_type=limit_type, lower=lo, upper=hi)
            try:
                hc = c.get_hard_constraint(opt, instr)
            except ao.UnresolvableConstraint:
                case["outcome"] = "refused"
                if ok:
                    bad.append("a total of %r between the sums of the bounds (50, 200) was refused" % total)
                tried.append(case)
                continue
            except Exception as e:  # noqa
                bad.append("total %r: raised %s: %s" % (total, type(e).__name__, e))
                continue
            case["outcome"] = "accepted"
            tried.append(case)
            if not ok:
                bad.append("a total of %r outside the sums of the bounds (50, 200) was accepted" % total)
            got = hc["bounds"][2020.0]
            for i, p in enumerate(("a", "b")):
                if tuple(float(x) for x in got[p]) != (want_lo[i], want_hi[i]):
                    bad.append("program %s is bounded by %r, its adjustable gives (%r, %r)" % (p, tuple(got[p]), want_lo[i], want_hi[i]))
        return dict(verdict="violates" if bad else "holds", detail="; ".join(bad[:3]) or "bounds as the adjustables give them; totals outside [50, 200] refused", prestate=dict(spending={"a": 30.0, "b": 70.0}, cases=tried))

    return replay


for _lt in ("abs", "rel"):
    CONTRACTS["optimization:TotalSpendConstraint.get_hard_constraint#bounds_of_one_year_%s" % _lt]["replay_hook"] = _replay_hard(_lt)


# ---- the total of one constrained year (second loop of get_hard_constraint): the sum of the current spending of the programs that are
# adjustable in that year, or the explicitly given total, times the budget factor
def _env_total(explicit):
    def make(it):
        import numpy as np
        from pyvc.interp import PyObjV
        from pyvc.core import LArr
        from pyvc import source

        om, um = source.load("optimization"), source.load("utils")
        T = 2020.0
        sp = [z3.Real("spend_%d" % i) for i in range(3)]
        bf, given = z3.Real("budget_factor"), z3.Real("given_total")
        ts = lambda i: PyObjV("TimeSeries", um, {"t": [T], "vals": [sp[i]], "units": "$", "assumption": None, "sigma": None, "_sampled": False})
        instructions = PyObjV("ProgramInstructions", source.load("programs"), {"alloc": {"a": ts(0), "b": ts(1), "not_adjustable": ts(2)}})
        self = PyObjV("TotalSpendConstraint", om, {"t": np.array([T]) if explicit else (), "total_spend": LArr(1, lambda i: given) if explicit else (), "budget_factor": LArr(1, lambda i: bf)})
        return {"self": self, "instructions": instructions, "optimization": None, "hard_constraints": {"programs": {T: ["a", "b"]}, "initial_total_spend": {}}, "t": T, "progs": ["a", "b"],
                "sp": sp, "bf": bf, "given": given}

    return make


for _explicit in (False, True):
    CONTRACTS["optimization:TotalSpendConstraint.get_hard_constraint#total_of_one_year_%s" % ("given" if _explicit else "from_the_allocation")] = dict(
        schema=schema, fragment={"iter": "hard_constraints['programs'].items()", "body_contains": "budget_factor"}, make_env=_env_total(_explicit),
        ensures=[("C14.required_total_is_%s_times_the_budget_factor" % ("the_given_total" if _explicit else "the_current_spending_of_the_adjustable_programs"),
                  "len(hard_constraints['initial_total_spend'][2020.0]) == 1 and hard_constraints['initial_total_spend'][2020.0][0] == %s * bf" % ("given" if _explicit else "(sp[0] + sp[1])"))],
        defined_props=["C14"])


# a year in which programs are adjustable but which the constraint does not name is skipped -- and ONLY that year: the loop goes on to the years after it
def _env_total_other_year(it):
    import numpy as np
    from pyvc.interp import PyObjV
    from pyvc.core import LArr
    from pyvc import source

    self = PyObjV("TotalSpendConstraint", source.load("optimization"), {"t": np.array([2021.0]), "total_spend": LArr(1, lambda i: z3.Real("given_total")), "budget_factor": LArr(1, lambda i: z3.Real("budget_factor"))})
    return {"self": self, "instructions": PyObjV("ProgramInstructions", source.load("programs"), {"alloc": {}}), "optimization": None,
            "hard_constraints": {"programs": {2020.0: ["a"], 2021.0: ["a"]}, "initial_total_spend": {}}, "t": 2020.0, "progs": ["a"]}


CONTRACTS["optimization:TotalSpendConstraint.get_hard_constraint#total_of_a_year_the_constraint_does_not_name"] = dict(
    schema=schema, fragment={"iter": "hard_constraints['programs'].items()", "body_contains": "budget_factor"}, make_env=_env_total_other_year,
    ensures=[("C14.a_year_the_constraint_does_not_name_gets_no_required_total", "len(hard_constraints['initial_total_spend']) == 0"),
             ("C14.and_the_years_after_it_are_still_considered", "LOOP_EXIT == 'continue'")],
    defined_props=["C14"])


# ---- SpendingPackageAdjustment.get_total_spend / set_total_spend (C14: "spending packages keep ... the package total within its limits";
# TotalSpendConstraint.constrain_instructions writes a package's rescaled amount back through set_total_spend): for two member programs
# with spending series at the package year, the package total afterwards IS the amount given and the members keep their shares
def _env_pkg_total(it):
    from pyvc.interp import PyObjV
    from pyvc.core import LArr
    from pyvc import source

    om, um = source.load("optimization"), source.load("utils")
    T = 2020.0
    cur = [z3.Real("cur_%d" % i) for i in range(2)]
    other = [z3.Real("other_%d" % i) for i in range(2)]
    ini = [z3.Real("initial_%d" % i) for i in range(2)]
    ts = lambda i: PyObjV("TimeSeries", um, {"t": [T, 2030.0], "vals": [cur[i], other[i]], "units": "$", "assumption": None, "sigma": None, "_sampled": False})
    instructions = PyObjV("ProgramInstructions", source.load("programs"), {"alloc": {"a": ts(0), "b": ts(1)}})
    self = PyObjV("SpendingPackageAdjustment", om, {"name": "pkg", "prog_name": ["a", "b"], "t": T, "initial_spends": LArr(2, it._list_reader(ini))})
    return {"self": self, "instructions": instructions, "cur": cur, "other": other}


CONTRACTS["optimization:SpendingPackageAdjustment.get_total_spend"] = dict(
    schema=schema, make_env=_env_pkg_total,
    ensures=[("C14.package_total_is_the_current_spending_of_its_members_at_the_package_year", "result == cur[0] + cur[1]")],
    defined_props=["C14"])
CONTRACTS["optimization:SpendingPackageAdjustment.set_total_spend"] = dict(
    schema=schema, make_env=_env_pkg_total, params={"total_spend": "real"},
    requires=["cur[0] >= 0", "cur[1] >= 0", "total_spend >= 0"],
    ensures=[
        ("C14.the_package_total_becomes_the_amount_given", "implies(cur[0] + cur[1] > 0, (instructions.alloc['a'].get(2020.0) + instructions.alloc['b'].get(2020.0)) * (cur[0] + cur[1]) == total_spend * (cur[0] + cur[1]))"),
        ("C14.members_keep_their_shares_of_the_package", "implies(cur[0] + cur[1] > 0, instructions.alloc['a'].get(2020.0) * (cur[0] + cur[1]) == cur[0] * total_spend and instructions.alloc['b'].get(2020.0) * (cur[0] + cur[1]) == cur[1] * total_spend)"),
        ("C14.an_unfunded_package_stays_unfunded", "implies(cur[0] + cur[1] == 0, instructions.alloc['a'].get(2020.0) == 0 and instructions.alloc['b'].get(2020.0) == 0)"),
        ("C14.other_years_are_left_alone", "instructions.alloc['a'].get(2030.0) == other[0] and instructions.alloc['b'].get(2030.0) == other[1] and len(instructions.alloc['a'].t) == 2"),
    ],
    defined_props=["C14"])


# ---- SpendingAdjustment (C14 / C15: the adjusted values ARE the spending of the program in the adjusted years): update_instructions writes
# value i at year i of the program's spending series (creating the series when the program had none) and touches no other program;
# get_initialization starts each year from its explicit initial value, else from the spending the instructions imply in that year
def _env_spending_adj(has_series):
    def make(it):
        from pyvc.interp import PyObjV
        from pyvc.core import LArr
        from pyvc import source

        om, um = source.load("optimization"), source.load("utils")
        xs = [z3.Real("x_%d" % i) for i in range(2)]
        old = [z3.Real("old_%d" % i) for i in range(2)]
        ts = lambda vals: PyObjV("TimeSeries", um, {"t": [2020.0, 2025.0], "vals": list(vals), "units": "$", "assumption": None, "sigma": None, "_sampled": False})
        other = ts([z3.Real("o_0"), z3.Real("o_1")])
        alloc = {"other": other}
        if has_series:
            alloc["prog"] = ts(old)
        instructions = PyObjV("ProgramInstructions", source.load("programs"), {"alloc": alloc})
        self = PyObjV("SpendingAdjustment", om, {"name": "prog", "prog_name": "prog", "t": [2020.0, 2025.0]})
        return {"self": self, "instructions": instructions, "adjustable_values": LArr(2, it._list_reader(xs)), "xs": xs, "OTHER": other, "OTHER_VALS": list(other.fields["vals"])}

    return make


for _hs in (True, False):
    CONTRACTS["optimization:SpendingAdjustment.update_instructions#%s" % ("existing_series" if _hs else "no_series_yet")] = dict(
        schema=schema, make_env=_env_spending_adj(_hs), concrete_new=["TimeSeries"],
        ensures=[("C14+C15.each_adjusted_value_is_the_programs_spending_in_its_year", "instructions.alloc['prog'].get(2020.0) == xs[0] and instructions.alloc['prog'].get(2025.0) == xs[1] and len(instructions.alloc['prog'].t) == 2"),
                 ("C14+C15.other_programs_are_untouched", "instructions.alloc['other'] is OTHER and OTHER.vals == OTHER_VALS and len(instructions.alloc) == 2")],
        defined_props=["C14", "C15"])


def _env_spending_init(explicit):
    def make(it):
        from pyvc.interp import PyObjV
        from pyvc.core import Opaque
        from pyvc import source

        om = source.load("optimization")
        ini = [z3.Real("initial_%d" % i) for i in range(2)]
        adj = [PyObjV("Adjustable", om, {"name": "prog", "initial_value": ini[i] if explicit[i] else None}) for i in range(2)]
        self = PyObjV("SpendingAdjustment", om, {"name": "prog", "prog_name": "prog", "t": [2020.0, 2025.0], "adjustables": adj})
        return {"self": self, "progset": PyObjV("ProgramSet", source.load("programs"), {"name": "ps"}), "instructions": Opaque("instructions"), "ini": ini, "ASKED": []}

    return make


def _ghost_get_alloc(it, t, instructions):
    from pyvc.core import LArr

    it.live_env["ASKED"].append((t, instructions))
    v = z3.Real("implied_spending_%s" % str(t).replace(".", "_"))
    return {"prog": LArr(1, lambda i, v=v: v), "other": LArr(1, lambda i: z3.RealVal(0))}


for _e in ((True, True), (False, True), (False, False)):
    CONTRACTS["optimization:SpendingAdjustment.get_initialization#%s" % "_".join("explicit" if x else "implied" for x in _e)] = dict(
        schema=schema, make_env=_env_spending_init(_e), call_stubs={"progset.get_alloc": _ghost_get_alloc},
        ghost_params={"implied_spending_2020_0": "real", "implied_spending_2025_0": "real"},
        ensures=[("C15.start_from_the_explicit_value_else_from_the_spending_in_force_in_that_year",
                  "len(result) == 2 and result[0] == %s and result[1] == %s" % ("ini[0]" if _e[0] else "implied_spending_2020_0", "ini[1]" if _e[1] else "implied_spending_2025_0")),
                 ("C15.the_instructions_are_asked_for_exactly_the_years_without_an_explicit_value", "[a[0] for a in ASKED] == %r and all(a[1] is instructions for a in ASKED)" % [y for y, x in zip((2020.0, 2025.0), _e) if not x])],
        defined_props=["C15"])


def _replay_later_year(model, contract):
    """replay on the REAL TotalSpendConstraint.get_hard_constraint: program a is adjustable in 2020 and 2021, program b in 2021; the constraint names 2021 only"""
    import atomica as at
    import atomica.optimization as ao

    class _Opt:
        pass

    opt = _Opt()
    opt.adjustments = [ao.SpendingAdjustment("a", [2020.0, 2021.0], "abs", [0.0, 0.0], [80.0, 80.0]), ao.SpendingAdjustment("b", 2021.0, "abs", 0.0, 80.0)]
    instr = at.ProgramInstructions(start_year=2020, alloc={"a": at.TimeSeries([2020.0, 2021.0], [50.0, 90.0]), "b": at.TimeSeries(2021.0, 70.0)})
    hc = ao.TotalSpendConstraint(total_spend=100.0, t=2021.0).get_hard_constraint(opt, instr)
    years = sorted(float(t) for t in hc["initial_total_spend"])
    pre = dict(adjustable={"a": [2020.0, 2021.0], "b": [2021.0]}, constraint=dict(t=2021.0, total_spend=100.0))
    if years != [2021.0]:
        return dict(verdict="violates", detail="the constraint names 2021, required totals were recorded for %r" % years, prestate=pre)
    return dict(verdict="holds", detail="a required total is recorded for 2021 and not for 2020", prestate=pre)


CONTRACTS["optimization:TotalSpendConstraint.get_hard_constraint#total_of_a_year_the_constraint_does_not_name"]["replay_hook"] = _replay_later_year


# ---- SpendingAdjustment.__init__ (C14 / C15: "adjusted values all lie within the bounds given"): one adjustable per year, each with the bounds and the initial value given for
# THAT year (a single bound / initial value is used for every year); a number of bounds that is neither one nor the number of years is refused
def _env_sa(lower, upper, initial, t=(2020.0, 2021.0)):
    def make(it):
        from pyvc.interp import PyObjV
        from pyvc import source

        L, U0, U1, I0, I1 = (z3.Real(n) for n in ("L", "U0", "U1", "I0", "I1"))
        pick = {"L": L, "[U0,U1]": [U0, U1], "[U0]": [U0], "None": None, "[I0,I1]": [I0, I1], "[L,L,L]": [L, L, L]}
        return {"self": PyObjV("SpendingAdjustment", source.load("optimization"), {}), "prog_name": "prog", "t": list(t), "limit_type": "rel", "lower": pick[lower], "upper": pick[upper], "initial": pick[initial],
                "L": L, "U0": U0, "U1": U1, "I0": I0, "I1": I1}

    return make


_sa_stubs = {"sc.promotetoarray": (lambda it, x: list(x) if isinstance(x, (list, tuple)) else [x]), "sc.promotetolist": (lambda it, x, keepnone=False: list(x) if isinstance(x, list) else [x])}
CONTRACTS["optimization:SpendingAdjustment.__init__#bounds_per_year"] = dict(
    schema=schema, make_env=_env_sa("L", "[U0,U1]", "None"), call_stubs=_sa_stubs, concrete_new=["Adjustable"],
    ensures=[("C14+C15.one_adjustable_per_year_with_the_bounds_given_for_that_year", "len(self.adjustables) == 2 and self.adjustables[0].lower_bound == L and self.adjustables[1].lower_bound == L and self.adjustables[0].upper_bound == U0 and self.adjustables[1].upper_bound == U1"),
             ("C14+C15.limit_type_program_and_years_are_kept", "self.adjustables[0].limit_type == 'rel' and self.adjustables[1].limit_type == 'rel' and self.prog_name == 'prog' and self.name == 'prog' and list(self.t) == [2020.0, 2021.0]"),
             ("C14+C15.without_initial_values_the_starting_point_comes_from_the_instructions", "self.adjustables[0].initial_value is None and self.adjustables[1].initial_value is None")],
    defined_props=["C14", "C15"])
CONTRACTS["optimization:SpendingAdjustment.__init__#initial_values_per_year"] = dict(
    schema=schema, make_env=_env_sa("L", "[U0]", "[I0,I1]"), call_stubs=_sa_stubs, concrete_new=["Adjustable"],
    ensures=[("C14+C15.each_year_starts_from_its_own_initial_value", "len(self.adjustables) == 2 and self.adjustables[0].initial_value == I0 and self.adjustables[1].initial_value == I1 and self.adjustables[0].upper_bound == U0 and self.adjustables[1].upper_bound == U0")],
    defined_props=["C14", "C15"])
CONTRACTS["optimization:SpendingAdjustment.__init__#wrong_number_of_bounds"] = dict(
    schema=schema, make_env=_env_sa("[L,L,L]", "[U0]", "None"), call_stubs=_sa_stubs, concrete_new=["Adjustable"], raises={"AssertionError": "True"}, raises_props=["C14", "C15", "C18"], ensures=[], defined_props=["C14", "C15"])
