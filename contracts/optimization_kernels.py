"""
Contracts on atomica/optimization.py: constrain_sum_bounded (property C14).

scipy.optimize.minimize (SLSQP) is external: its result is HAVOCKED -- `success` is an arbitrary boolean and `x` an arbitrary
real vector.  Whatever SLSQP returns, the function must either signal failure or return a vector inside the bounds whose
sum is within the code's own tolerance of the target.
"""
import z3

SCHEMA = {"__families__": []}
schema = "optimization_kernels"
CONTRACTS = {}


def _env(it):
    from pyvc.core import LArr

    n = z3.Int("n")
    it.facts.append(n >= 1)

    def arr(name):
        f = z3.Function(name, z3.IntSort(), z3.RealSort())
        return LArr(n, lambda i, f=f: f(i if z3.is_expr(i) else z3.IntVal(i)), fresh_alloc=False)

    res = {"success": z3.Bool("slsqp_success"), "x": arr("slsqp_x")}
    return {"x": arr("x"), "lb": arr("lb"), "ub": arr("ub"), "s": z3.Real("s"), "RES": res, "n": n}


CONTRACTS["optimization:constrain_sum_bounded"] = dict(
    schema=schema,
    make_env=_env,
    call_stubs={"scipy.optimize.minimize": "RES"},
    requires=["s > 0", "all(lb[i] >= 0 and lb[i] <= ub[i] and x[i] >= 0 for i in range(n))"],
    raises={"FailedConstraint": "not RES['success']", "AssertionError": True},
    ensures=[
        ("C14.within_bounds", "all(result[i] >= lb[i] and result[i] <= ub[i] for i in range(n))"),
        ("C14.sum_meets_total_within_code_tolerance", "abs(sum(result[i] for i in range(n)) - s) <= 1e-08 + 1e-05 * s"),
        ("C14.feasible_proposal_returned_unchanged", "implies(sum(x[i] for i in range(n)) == s and all(x[i] >= lb[i] and x[i] <= ub[i] for i in range(n)), all(result[i] == x[i] for i in range(n)))"),
        ("C14.exact_total_without_slsqp", "implies(sum(x[i] for i in range(n)) != 0 and all(x[i] * s >= lb[i] * sum(x[j] for j in range(n)) and x[i] * s <= ub[i] * sum(x[j] for j in range(n)) for i in range(n)), sum(result[i] for i in range(n)) == s)"),
    ],
    defined_props=["C14"],
    raises_props=["C14"],
)
