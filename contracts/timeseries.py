"""
Contracts on utils.TimeSeries (property C16: objects behave as their visible data).  A series of concrete length n (n = 0..N_MAX)
with SYMBOLIC times and values; the representation invariant (times strictly increasing, as many values as times) and
whole-view postconditions (`view' = view[t := v]`, every other key unchanged) are proved for each n -- complete per length,
bounded in the length (labelled so in the evidence notes).
"""
import z3

SCHEMA = {"__families__": []}
schema = "timeseries"
CONTRACTS = {}
N_MAX = 6
N_QUICK = 4


def _env(n, with_assumption=True):
    def make(it):
        from pyvc.interp import PyObjV
        from pyvc import source

        ts = [z3.Real("t%d" % i) for i in range(n)]
        vs = [z3.Real("v%d" % i) for i in range(n)]
        for a, b in zip(ts, ts[1:]):
            it.pc.append(a < b)
        fields = {"t": list(ts), "vals": list(vs), "units": "u", "assumption": z3.Real("assumption") if with_assumption else None, "sigma": None, "_sampled": False}
        return {"self": PyObjV("TimeSeries", source.load("utils"), fields), "old_t": list(ts), "old_v": list(vs), "old_assumption": fields["assumption"]}

    return make


_inv = "len(self.t) == len(self.vals) and all(self.t[i] < self.t[i + 1] for i in range(len(self.t) - 1))"
for _n in range(0, N_MAX + 1):
    _others = " and ".join("any(self.t[i] == old_t[%d] and (self.vals[i] == old_v[%d] or old_t[%d] == t) for i in range(len(self.t)))" % (j, j, j) for j in range(_n)) or "True"
    _nonew = "all(self.t[i] == t or any(self.t[i] == old_t[j] for j in range(%d)) for i in range(len(self.t)))" % _n
    CONTRACTS["utils:TimeSeries.insert#n%d" % _n] = dict(
        schema=schema, make_env=_env(_n), params={"t": "real", "v": "real"},
        ensures=[
            ("C16.invariant_sorted_and_aligned", _inv),
            ("C16.inserted_value_is_visible", "any(self.t[i] == t and self.vals[i] == v for i in range(len(self.t)))"),
            ("C16.other_entries_unchanged", _others),
            ("C16.no_other_entries_appear", _nonew),
            ("C16.assumption_untouched", "self.assumption == old_assumption"),
        ],
        defined_props=["C16"], raises={}, raises_props=["C16"], tiers=(["quick", "thorough"] if _n <= N_QUICK else ["thorough"]))
    if _n >= 1:
        _kept = " and ".join("(old_t[%d] == t or any(self.t[i] == old_t[%d] and self.vals[i] == old_v[%d] for i in range(len(self.t))))" % (j, j, j) for j in range(_n))
        CONTRACTS["utils:TimeSeries.remove#n%d" % _n] = dict(
            schema=schema, make_env=_env(_n), params={"t": "real"},
            raises={"Exception": "not any(old_t[j] == t for j in range(%d))" % _n},
            ensures=[
                ("C16.invariant_sorted_and_aligned", _inv),
                ("C16.removed_time_is_gone", "not any(self.t[i] == t for i in range(len(self.t)))"),
                ("C16.other_entries_unchanged", _kept),
                ("C16.exactly_one_entry_removed", "len(self.t) == %d" % (_n - 1)),
            ],
            defined_props=["C16"], raises_props=["C16"], tiers=(["quick", "thorough"] if _n <= N_QUICK else ["thorough"]))


# ---- interpolation (C06): exact at entered years, linear in between, constant outside the data range, or the assumption
for _n in range(0, 6):
    _ens = []
    if _n == 0:
        _ens.append(("C06.assumption_only_series_is_constant", "result[0] == old_assumption"))
    elif _n == 1:
        _ens.append(("C06.single_point_series_is_constant", "result[0] == old_v[0]"))
    else:
        _ens.append(("C06.exact_at_entered_years", " and ".join("implies(t2 == old_t[%d], result[0] == old_v[%d])" % (i, i) for i in range(_n))))
        _ens.append(("C06.constant_outside_the_data_range", "implies(t2 <= old_t[0], result[0] == old_v[0]) and implies(t2 >= old_t[%d], result[0] == old_v[%d])" % (_n - 1, _n - 1)))
        _ens.append(("C06.linear_between_entered_years", " and ".join(
            "implies(old_t[%d] <= t2 and t2 <= old_t[%d], result[0] == old_v[%d] + (old_v[%d] - old_v[%d]) * (t2 - old_t[%d]) / (old_t[%d] - old_t[%d]))" % (i, i + 1, i, i + 1, i, i, i + 1, i)
            for i in range(_n - 1))))
    _ens.append(("C06.one_value_per_requested_time", "len(result) == 1"))
    CONTRACTS["utils:TimeSeries.interpolate#n%d" % _n] = dict(
        schema=schema, make_env=_env(_n), params={"t2": "real"}, ghost_params={"method": "const:'linear'"},
        ensures=_ens, defined_props=["C06"], raises={}, raises_props=["C06"], tiers=(["quick", "thorough"] if _n <= 3 else ["thorough"]))



# ---- removing ranges of time points (C16): exactly the entries in the stated range go, the others stay with their values
for _n in range(0, 4):
    for _op, _gone in (("remove_before", "old_t[%d] < t_remove"), ("remove_after", "old_t[%d] > t_remove"), ("remove_between", "(t_remove[0] < old_t[%d] and old_t[%d] < t_remove[1])")):
        _g = lambda j: (_gone % ((j,) * _gone.count("%d")))
        _present = lambda j: "any(self.t[i] == old_t[%d] and self.vals[i] == old_v[%d] for i in range(len(self.t)))" % (j, j)
        _ens = [("C16.invariant_sorted_and_aligned", _inv),
                ("C16.entries_in_the_range_are_removed_and_the_others_kept", " and ".join("((%s) != (%s))" % (_g(j), _present(j)) for j in range(_n)) or "True"),
                ("C16.no_other_entries_appear", "all(any(self.t[i] == old_t[j] for j in range(%d)) for i in range(len(self.t)))" % _n),
                ("C16.assumption_untouched", "self.assumption == old_assumption")]
        CONTRACTS["utils:TimeSeries.%s#n%d" % (_op, _n)] = dict(
            schema=schema, make_env=_env(_n), params={"t_remove": ("real" if _op != "remove_between" else "arr1:2")},
            ensures=_ens, defined_props=["C16"], raises={}, raises_props=["C16"], tiers=(["quick", "thorough"] if _n <= 2 else ["thorough"]))


# ---- lookup (C16): the value entered at a time, the assumption when there are no time points, None for a time that was not entered
for _n in range(0, 4):
    if _n == 0:
        _ens = [("C16.series_without_time_points_returns_its_assumption", "result == old_assumption")]
    else:
        _ens = [("C16.entered_time_returns_its_value", " and ".join("implies(t == old_t[%d], result == old_v[%d])" % (j, j) for j in range(_n))),
                ("C16.time_that_was_not_entered_returns_none", "implies(%s, result is None)" % " and ".join("t != old_t[%d]" % j for j in range(_n)))]
    CONTRACTS["utils:TimeSeries.get#n%d" % _n] = dict(
        schema=schema, make_env=_env(_n), params={"t": "real"}, ensures=_ens, defined_props=["C16"], raises={}, raises_props=["C16"])


# ---- sampling (C17): a copy is returned, the source is untouched; without uncertainty the copy equals the source, with uncertainty
# every value (and the assumption) is shifted by the same sigma x draw
def _env_sample(n, has_sigma):
    base = _env(n)

    def make(it):
        from pyvc.core import LArr

        env = base(it)
        draw = z3.Real("draw")
        sigma = z3.Real("sigma") if has_sigma else None
        env["self"].fields["sigma"] = sigma
        env.update(DRAW=LArr(1, lambda i: draw), draw=draw, sigma=sigma, constant=True)
        return env

    return make


for _n in range(0, 3):
    for _hs in (False, True):
        _shift = "sigma * draw" if _hs else "0"
        CONTRACTS["utils:TimeSeries.sample#n%d_%s" % (_n, "sigma" if _hs else "nosigma")] = dict(
            schema=schema, make_env=_env_sample(_n, _hs), call_stubs={"np.random.randn": "DRAW"},
            ensures=[
                ("C17.sample_is_a_copy_with_the_same_times", "result is not self and len(result.t) == %d and all(result.t[i] == old_t[i] for i in range(%d))" % (_n, _n)),
                ("C17.every_value_is_shifted_by_sigma_times_the_draw" if _hs else "C17.without_uncertainty_the_sample_equals_the_source",
                 "len(result.vals) == %d and all(result.vals[i] == old_v[i] + %s for i in range(%d)) and result.assumption == old_assumption + %s" % (_n, _shift, _n, _shift)),
                ("C17.source_series_is_untouched", "len(self.t) == %d and len(self.vals) == %d and all(self.t[i] == old_t[i] and self.vals[i] == old_v[i] for i in range(%d)) and self.assumption == old_assumption and not self._sampled" % (_n, _n, _n)),
                ("C17.sample_is_marked_as_sampled", "result._sampled"),
            ],
            defined_props=["C17"], raises={}, raises_props=["C17"], has_sigma=_hs)



def _replay(model, contract):
    """replay on a REAL TimeSeries with the model's times and values"""
    import atomica.utils as au

    def val(name):
        v = model.eval(z3.Real(name), model_completion=True)
        return float(v.numerator_as_long()) / float(v.denominator_as_long())

    n = contract["n"]
    ts = [val("t%d" % i) for i in range(n)]
    vs = [val("v%d" % i) for i in range(n)]
    if contract["op"] == "interpolate":
        t2 = val("t2")
        a = val("assumption")
        pre = dict(t=ts, vals=vs, op="interpolate", at=t2, assumption=a)
        if any(x >= y for x, y in zip(ts, ts[1:])):
            return dict(verdict="requires-fail", detail="model times not strictly increasing", prestate=pre)
        s = au.TimeSeries(t=list(ts), vals=list(vs), assumption=a)
        try:
            got = s.interpolate(t2)
        except Exception as e:
            return dict(verdict="violates", detail="real code raised %s: %s" % (type(e).__name__, e), prestate=pre)
        # independent oracle: the property's wording
        if n == 0:
            want = a
        elif n == 1 or t2 <= ts[0]:
            want = vs[0]
        elif t2 >= ts[-1]:
            want = vs[-1]
        else:
            i = max(j for j in range(n - 1) if ts[j] <= t2)
            want = vs[i] + (vs[i + 1] - vs[i]) * (t2 - ts[i]) / (ts[i + 1] - ts[i])
        ok = len(got) == 1 and abs(float(got[0]) - want) <= 1e-9 * max(1.0, abs(want))
        return dict(verdict="holds" if ok else "violates", detail="interpolate(%r) returned %r, the documented rule gives %r" % (t2, list(map(float, got)), want), prestate=pre)
    if contract["op"] == "get":
        t = val("t")
        a = val("assumption")
        pre = dict(t=ts, vals=vs, op="get", at=t, assumption=a)
        s = au.TimeSeries(t=list(ts), vals=list(vs), assumption=a)
        got = s.get(t)
        want = a if n == 0 else (vs[ts.index(t)] if t in ts else None)
        return dict(verdict="holds" if got == want else "violates", detail="get(%r) returned %r, expected %r" % (t, got, want), prestate=pre)
    if contract["op"] == "remove_range":
        fn = contract["fn"]
        if fn == "remove_between":
            tr = [val("t_remove[0]"), val("t_remove[1]")]
            gone = lambda x: tr[0] < x < tr[1]
        else:
            tr = val("t_remove")
            gone = (lambda x: x < tr) if fn == "remove_before" else (lambda x: x > tr)
        pre = dict(t=ts, vals=vs, op=fn, t_remove=tr)
        if any(x >= y for x, y in zip(ts, ts[1:])):
            return dict(verdict="requires-fail", detail="model times not strictly increasing", prestate=pre)
        s = au.TimeSeries(t=list(ts), vals=list(vs), assumption=1.0)
        try:
            getattr(s, fn)(tr)
        except Exception as e:
            return dict(verdict="violates", detail="real code raised %s: %s" % (type(e).__name__, e), prestate=pre)
        want = {a: b for a, b in zip(ts, vs) if not gone(a)}
        got = dict(zip(s.t, s.vals))
        ok = got == want and list(s.t) == sorted(s.t) and len(s.t) == len(s.vals) and s.assumption == 1.0
        return dict(verdict="holds" if ok else "violates", detail="series after %s(%r): t=%r vals=%r; expected entries %r" % (fn, tr, list(s.t), list(s.vals), want), prestate=pre)
    if contract["op"] == "sample":
        a, draw = val("assumption"), val("draw")
        sigma = val("sigma") if contract.get("has_sigma") else None
        pre = dict(t=ts, vals=vs, op="sample", assumption=a, sigma=sigma, draw=draw)
        if any(x >= y for x, y in zip(ts, ts[1:])):
            return dict(verdict="requires-fail", detail="model times not strictly increasing", prestate=pre)
        s = au.TimeSeries(t=list(ts), vals=list(vs), assumption=a, sigma=sigma)
        import numpy as np
        real_randn = np.random.randn
        np.random.randn = lambda *shape: np.full(shape if shape else (1,), draw)
        try:
            new = s.sample(constant=True)
        except Exception as e:
            return dict(verdict="violates", detail="real code raised %s: %s" % (type(e).__name__, e), prestate=pre)
        finally:
            np.random.randn = real_randn
        shift = (sigma * draw) if sigma is not None else 0.0
        close = lambda x, y: abs(x - y) <= 1e-9 * max(1.0, abs(y))
        bad = []
        if new is s or list(new.t) != list(ts):
            bad.append("sample is not an independent copy with the same times")
        if len(new.vals) != n or not all(close(x, v + shift) for x, v in zip(new.vals, vs)) or not close(new.assumption, a + shift):
            bad.append("sampled values %r / assumption %r, expected the source shifted by %r" % (list(new.vals), new.assumption, shift))
        if list(s.t) != list(ts) or list(s.vals) != list(vs) or s.assumption != a or s._sampled:
            bad.append("the source series was modified")
        if not new._sampled:
            bad.append("the sample is not marked as sampled")
        return dict(verdict="violates" if bad else "holds", detail="; ".join(bad) or "sample is the source shifted by sigma x draw; source untouched", prestate=pre)
    t = val("t")
    pre = dict(t=ts, vals=vs, op=contract["op"], at=t)
    if any(a >= b for a, b in zip(ts, ts[1:])):
        return dict(verdict="requires-fail", detail="model times not strictly increasing", prestate=pre)
    s = au.TimeSeries(t=list(ts), vals=list(vs), assumption=1.0)
    try:
        if contract["op"] == "insert":
            v = val("v")
            pre["value"] = v
            s.insert(t, v)
            want = dict(zip(ts, vs))
            want[t] = v
        else:
            if t not in ts:
                return dict(verdict="requires-fail", detail="time to remove not present", prestate=pre)
            s.remove(t)
            want = {a: b for a, b in zip(ts, vs) if a != t}
    except Exception as e:
        return dict(verdict="violates", detail="real code raised %s: %s" % (type(e).__name__, e), prestate=pre)
    got = dict(zip(s.t, s.vals))
    ok = got == want and list(s.t) == sorted(s.t) and len(s.t) == len(s.vals) and len(set(s.t)) == len(s.t)
    return dict(verdict="holds" if ok else "violates", detail="series after the operation: t=%r vals=%r; expected entries %r" % (list(s.t), list(s.vals), want), prestate=pre)


for _k, _c in CONTRACTS.items():
    _c["replay_hook"] = _replay
    _c["n"] = int(_k.split("#n")[1].split("_")[0])
    _c["fn"] = _k.split(".")[-1].split("#")[0]
    _c["op"] = "insert" if ".insert#" in _k else ("remove" if ".remove#" in _k else ("sample" if ".sample#" in _k else ("remove_range" if ".remove_" in _k else ("get" if ".get#" in _k else "interpolate"))))


# ---- copies (C08 "a model / input that is deep-copied behaves the same", C16): __deepcopy__ / copy give a series with the same visible data
# whose time and value lists are NEW lists (changing the copy does not change the original); has_data / has_time_data read as documented
for _n in (0, 2):
    for _meth in ("__deepcopy__", "copy"):
        CONTRACTS["utils:TimeSeries.%s#n%d" % (_meth, _n)] = dict(
            schema=schema, make_env=_env(_n), ghost_params=({"memodict": "const:{}"} if _meth == "__deepcopy__" else {}),
            ensures=[
                ("C08+C16.the_copy_has_the_same_visible_data", "result.t == old_t and result.vals == old_v and result.assumption == old_assumption and result.units == self.units and result.sigma == self.sigma and result._sampled == self._sampled"),
                ("C08+C16.the_copy_shares_no_list_with_the_original", "result is not self and result.t is not self.t and result.vals is not self.vals"),
                ("C08.the_original_is_untouched", "self.t == old_t and self.vals == old_v and self.assumption == old_assumption"),
            ],
            defined_props=["C08", "C16"])
    CONTRACTS["utils:TimeSeries.has_time_data#n%d" % _n] = dict(
        schema=schema, make_env=_env(_n), ensures=[("C16.time_data_means_at_least_one_entered_year", "result == %s" % (_n > 0))], defined_props=["C16"])
    for _with in (True, False):
        CONTRACTS["utils:TimeSeries.has_data#n%d_%s" % (_n, "with_assumption" if _with else "without_assumption")] = dict(
            schema=schema, make_env=_env(_n, with_assumption=_with),
            ensures=[("C16.data_means_an_assumption_or_an_entered_year", "result == %s" % (_with or _n > 0))], defined_props=["C16"])


# ---- TimeSeries.__init__ / get_arrays / __eq__ (C16: "objects behave as their visible data"): a new series holds the points given (sorted, through insert), the units, assumption
# and uncertainty given, and has not been sampled; get_arrays returns the entered points -- or a single NaN time with the assumption when there are none; two series are equal
# exactly when all six visible fields are equal
def _env_ts_init(t, vals):
    def make(it):
        from pyvc.interp import PyObjV
        from pyvc import source

        A, S = z3.Real("A"), z3.Real("S")
        v = [z3.Real("v%d" % i) for i in range(len(vals))] if isinstance(vals, list) else vals
        env = {"self": PyObjV("TimeSeries", source.load("utils"), {}), "t": t, "vals": v, "units": "people", "assumption": A, "sigma": S, "A": A, "S": S}
        if isinstance(v, list):
            env.update({"v%d" % i: x for i, x in enumerate(v)})
        return env

    return make


CONTRACTS["utils:TimeSeries.__init__#with_points_out_of_order"] = dict(
    schema=schema, make_env=_env_ts_init([2021.0, 2020.0], [0, 1]),
    ensures=[("C16.a_new_series_holds_the_points_given_in_time_order", "self.t == [2020.0, 2021.0] and len(self.vals) == 2 and self.vals[0] == v1 and self.vals[1] == v0"),
             ("C16.and_the_units_assumption_and_uncertainty_given_unsampled", "self.units == 'people' and self.assumption == A and self.sigma == S and self._sampled is False")],
    defined_props=["C16"])
CONTRACTS["utils:TimeSeries.__init__#without_points"] = dict(
    schema=schema, make_env=_env_ts_init(None, None),
    ensures=[("C16.a_new_series_without_points_is_empty", "self.t == [] and self.vals == [] and self.units == 'people' and self.assumption == A and self.sigma == S and self._sampled is False")], defined_props=["C16"])


def _env_ts_arrays(points):
    def make(it):
        from pyvc.interp import PyObjV
        from pyvc import source

        A, V = z3.Real("A"), z3.Real("V")
        return {"self": PyObjV("TimeSeries", source.load("utils"), {"t": [2020.0] if points else [], "vals": [V] if points else [], "units": "people", "assumption": A, "sigma": None, "_sampled": False}), "A": A, "V": V}

    return make


_arr = {"np.array": (lambda it, x: list(x))}
CONTRACTS["utils:TimeSeries.get_arrays#with_points"] = dict(schema=schema, make_env=_env_ts_arrays(True), call_stubs=_arr,
                                                          ensures=[("C16.the_entered_points_are_returned", "result[0] == [2020.0] and len(result[1]) == 1 and result[1][0] == V")], defined_props=["C16"])
CONTRACTS["utils:TimeSeries.get_arrays#assumption_only"] = dict(schema=schema, make_env=_env_ts_arrays(False), call_stubs=_arr,
                                                              ensures=[("C16.without_points_the_assumption_is_returned_at_an_undefined_time", "len(result[0]) == 1 and result[0][0] != result[0][0] and len(result[1]) == 1 and result[1][0] == A")], defined_props=["C16"])
