"""
Contract on Parameter.relink (property C08: a model that is deep-copied or pickled after construction and then run produces the same
outputs as the original).  Copying unlinks every object (references become ids, the compiled parameter function is dropped) and
relinks it; relink must restore EVERYTHING unlink dropped: the population, the links, the dependencies and -- for every parameter
that has a function, whatever its other flags -- the compiled function.
"""
import z3

schema = "covout"
CONTRACTS = {}


def _make_env_nodeps(it):
    env = _make_env(it)
    env["self"].fields["deps"] = {}          # a function of time only: no dependencies
    env["self"].fields["fcn_str"] = "t*2"
    return env


def _make_env(it):
    from pyvc.interp import PyObjV
    from pyvc.core import Opaque
    from pyvc import source

    mm = source.load("model")
    pop = PyObjV("Population", mm, {"name": "pop"})
    link = PyObjV("Link", mm, {"id": ("pop", "a", "b", "p:flow")})
    dep = PyObjV("Compartment", mm, {"id": ("pop", "a")})
    is_dyn, pre = z3.Bool("is_dynamic"), z3.Bool("precompute")
    # the state unlink() leaves behind: ids instead of objects, no compiled function
    par = PyObjV("Parameter", mm, {"id": ("pop", "p"), "pop": "pop", "links": [("pop", "a", "b", "p:flow")], "deps": {"a": [("pop", "a")]}, "fcn_str": "a*2", "_fcn": None,
                                   "_is_dynamic": is_dyn, "_precompute": pre, "derivative": False, "pop_aggregation": None})
    objs = {"pop": pop, ("pop", "a", "b", "p:flow"): link, ("pop", "a"): dep}
    return {"self": par, "objs": objs, "the_pop": pop, "the_link": link, "the_dep": dep, "COMPILED": (Opaque("compiled function"), ["a"])}


CONTRACTS["model:Parameter.relink#function_parameter"] = dict(
    schema=schema, make_env=_make_env, call_stubs={"parse_function": (lambda it, s: it.ghost_env["COMPILED"])},
    ensures=[
        ("C08.references_are_restored", "self.pop is the_pop and len(self.links) == 1 and self.links[0] is the_link and len(self.deps['a']) == 1 and self.deps['a'][0] is the_dep"),
        ("C08.compiled_function_is_restored_for_every_function_parameter", "self._fcn is not None"),
    ],
    defined_props=["C08"])


CONTRACTS["model:Parameter.relink#function_of_time_only"] = dict(
    schema=schema, make_env=_make_env_nodeps, call_stubs={"parse_function": (lambda it, s: it.ghost_env["COMPILED"])},
    ensures=[
        ("C08.references_are_restored", "self.pop is the_pop and len(self.links) == 1 and self.links[0] is the_link"),
        ("C08.compiled_function_is_restored_for_every_function_parameter", "self._fcn is not None"),
    ],
    defined_props=["C08"], nodeps=True)


def _replay(model, contract):
    """replay on a REAL Parameter: unlink() then relink() with the object table, for the model's flag values"""
    import atomica.model as am

    dyn = bool(z3.is_true(model.eval(z3.Bool("is_dynamic"), model_completion=True)))
    pre = bool(z3.is_true(model.eval(z3.Bool("precompute"), model_completion=True)))

    class _Pop:
        name = "pop"

    pop = _Pop()
    dep = object.__new__(am.Compartment)
    dep.id, dep.pop = ("pop", "a"), pop
    link = object.__new__(am.Link)
    link.id, link.pop = ("pop", "a", "b", "p:flow"), pop
    par = object.__new__(am.Parameter)
    par.id, par.pop, par.links, par.deps, par.fcn_str = ("pop", "p"), pop, [link], ({} if contract.get("nodeps") else {"a": [dep]}), ("t*2" if contract.get("nodeps") else "a*2")
    par._is_dynamic, par._precompute, par.derivative, par.pop_aggregation = dyn, pre, False, None
    par._fcn = (lambda **k: 0.0)  # a compiled function is present before the copy
    had_fcn = True
    par.unlink()
    par.relink({"pop": pop, link.id: link, dep.id: dep})
    state = dict(is_dynamic=dyn, precompute=pre, had_compiled_function_before=had_fcn, has_compiled_function_after=par._fcn is not None,
                 links_restored=par.links == [link], deps_restored=par.deps == ({} if contract.get("nodeps") else {"a": [dep]}), pop_restored=par.pop is pop)
    ok = state["has_compiled_function_after"] and state["links_restored"] and state["deps_restored"] and state["pop_restored"]
    return dict(verdict="holds" if ok else "violates", detail="after unlink() / relink(): %r" % state, prestate=dict(fcn_str="a*2", is_dynamic=dyn, precompute=pre))


for _c in CONTRACTS.values():
    _c["replay_hook"] = _replay
