"""
Contract on cascade.validate_cascade (properties C18 / C20): a cascade is accepted only if every stage is nested in the
stage before it.  Contract on the body of the nesting loop for an arbitrary stage index i; the stages are abstract sets
(uninterpreted sort, `<=` = subset relation).
"""
import z3

SCHEMA = {"__families__": []}
schema = "cascade_kernels"
CONTRACTS = {}


class _Expanded:
    """stand-in for the odict `expanded`: n stages, expanded[k] is the abstract set of stage k"""


def _env(it):
    from pyvc.core import MapSeq, SetV, SetT, Opaque
    from pyvc.interp import PyObjV

    n = z3.Int("n_stages")
    it.facts.append(n >= 2)
    stage = z3.Function("stage", z3.IntSort(), SetT)
    expanded = MapSeq(n, lambda k: SetV(stage(k if z3.is_expr(k) else z3.IntVal(k))))
    expanded_keys = MapSeq(n, lambda k: Opaque("stage name"))
    return {"expanded": expanded, "cascade": {"stage": "includes"}, "framework": Opaque("framework"), "cascade_name": "cascade", "fallback_used": False, "stage": stage, "n_stages": n, "STAGE_NAMES": expanded_keys}


CONTRACTS["cascade:validate_cascade#nesting"] = dict(
    # the loop is found by what its body tests; that it runs over EVERY consecutive pair (first index 0, stop index n - 1) is an
    # obligation on its iterable, whatever its source text
    schema=schema, fragment={"iter": "range(0, len(expanded) - 1)", "body_contains": "set(expanded[i + 1]) <= set(expanded[i])", "iter_range": {"first": "0", "stop": "n_stages - 1", "label": "C18+C20.every_consecutive_pair_of_stages_is_checked"}},
    make_env=_env, params={"i": "int"},
    stubs={"expanded.keys()": "STAGE_NAMES"},
    requires=["0 <= i", "i < n_stages - 1"],
    raises={"InvalidCascade": "not (expanded[i + 1] <= expanded[i])"},
    ensures=[("C18+C20.accepted_only_if_each_stage_is_nested_in_the_previous_one", "expanded[i + 1] <= expanded[i]")],
    raises_props=["C18", "C20"], defined_props=["C18"])


def _replay(model, contract):
    """replay on the REAL validate_cascade: ad hoc cascades on the udt framework that break the nesting between the first and second
    stage, and between the second and third stage, must each be rejected; a nested one must be accepted"""
    import warnings
    import atomica as at
    from atomica.cascade import validate_cascade, InvalidCascade

    warnings.simplefilter("ignore")
    F = at.demo("udt", do_run=False).framework
    cases = [("second stage not inside the first", {"treated": "all_tx", "everyone": "all_people", "diagnosed": "all_dx"}, False),
             ("third stage not inside the second", {"everyone": "all_people", "treated": "all_tx", "diagnosed": "all_dx"}, False),
             ("properly nested", {"everyone": "all_people", "diagnosed": "all_dx", "treated": "all_tx"}, True)]
    bad, tried = [], []
    for what, cascade, ok in cases:
        try:
            validate_cascade(F, cascade, cascade_name="replay")
            outcome = "accepted"
        except InvalidCascade:
            outcome = "rejected"
        except Exception as e:  # noqa
            outcome = "internal error %s: %s" % (type(e).__name__, e)
        tried.append(dict(case=what, cascade=cascade, outcome=outcome))
        if outcome != ("accepted" if ok else "rejected"):
            bad.append("cascade %r (%s) was %s" % (list(cascade.values()), what, outcome))
    return dict(verdict="violates" if bad else "holds", detail="; ".join(bad) or "both un-nested cascades are rejected with InvalidCascade, the nested one is accepted", prestate=dict(framework="udt", cases=tried))


for _c in CONTRACTS.values():
    _c["replay_hook"] = _replay
