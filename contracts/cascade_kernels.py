"""
Contract on cascade.validate_cascade (properties C18 / C20): a cascade is accepted only if every stage is nested in the
stage before it.  Contract on the body of the nesting loop for an arbitrary stage index i; the stages are abstract sets
(uninterpreted sort, `<=` = subset relation).
"""
import z3

SCHEMA = {"__families__": []}
schema = "cascade_kernels"
CONTRACTS = {}


class _Expanded:
    """stand-in for the odict `expanded`: n stages, expanded[k] is the abstract set of stage k"""


def _env(it):
    from pyvc.core import MapSeq, SetV, SetT, Opaque
    from pyvc.interp import PyObjV

    n = z3.Int("n_stages")
    it.facts.append(n >= 2)
    stage = z3.Function("stage", z3.IntSort(), SetT)
    expanded = MapSeq(n, lambda k: SetV(stage(k if z3.is_expr(k) else z3.IntVal(k))))
    expanded_keys = MapSeq(n, lambda k: Opaque("stage name"))
    return {"expanded": expanded, "cascade": {"stage": "includes"}, "framework": Opaque("framework"), "cascade_name": "cascade", "fallback_used": False, "stage": stage, "n_stages": n, "STAGE_NAMES": expanded_keys}


CONTRACTS["cascade:validate_cascade#nesting"] = dict(
    schema=schema, fragment={"iter": "range(0, len(expanded) - 1)"}, make_env=_env, params={"i": "int"},
    stubs={"expanded.keys()": "STAGE_NAMES"},
    requires=["0 <= i", "i < n_stages - 1"],
    raises={"InvalidCascade": "not (expanded[i + 1] <= expanded[i])"},
    ensures=[("C18+C20.accepted_only_if_each_stage_is_nested_in_the_previous_one", "expanded[i + 1] <= expanded[i]")],
    raises_props=["C18", "C20"], defined_props=["C18"])


def _replay(model, contract):
    """replay on the REAL validate_cascade: an ad hoc cascade on the udt framework whose third stage is nested in the first
    stage but not in the second must be rejected"""
    import warnings
    import atomica as at
    from atomica.cascade import validate_cascade, InvalidCascade

    warnings.simplefilter("ignore")
    F = at.demo("udt", do_run=False).framework
    cascade = {"everyone": "all_people", "treated": "all_tx", "diagnosed": "all_dx"}      # all_tx < all_dx < all_people: stage 3 is not inside stage 2
    pre = dict(framework="udt", cascade=cascade)
    try:
        validate_cascade(F, cascade, cascade_name="replay")
    except InvalidCascade as e:
        return dict(verdict="holds", detail="the un-nested cascade is rejected with InvalidCascade", prestate=pre)
    except Exception as e:
        return dict(verdict="violates", detail="validate_cascade raised the internal error %s: %s" % (type(e).__name__, e), prestate=pre)
    return dict(verdict="violates", detail="validate_cascade ACCEPTED a cascade whose stage 'diagnosed' (all_dx) is not a subset of the preceding stage 'treated' (all_tx)", prestate=pre)


for _c in CONTRACTS.values():
    _c["replay_hook"] = _replay
