"""
PlotData.time_aggregate, the choice of the aggregation method for ONE series (property C20: "the value reported for an output ... depends only on that
output ... and the aggregation options given -- not on which other outputs ... were requested in the same call or in what order"): the first statement of
the loop over the series.  Whatever method the previous series left behind (`method` is given a stale value on entry), a series is averaged exactly when
its own units are a duration, probability, rate, proportion or fraction and integrated otherwise, unless the caller names the method.
"""
schema = "covout"
CONTRACTS = {}


def _env(units, requested, stale):
    def make(it):
        from pyvc.interp import PyObjV
        from pyvc import source

        return {"s": PyObjV("Series", source.load("plotting"), {"units": units, "output": "x", "pop": "adults"}), "time_aggregation": requested, "method": stale, "self": PyObjV("PlotData", source.load("plotting"), {"series": []})}

    return make


_frag = {"iter": "self.series", "stmt": "if time_aggregation is None"}
_n = 0
for _units, _auto in (("Number of people", "integrate"), ("number", "integrate"), (None, "integrate"), ("probability", "average"), ("rate", "average"), ("duration", "average"), ("proportion", "average"), ("fraction", "average")):
    for _stale in ("integrate", "average"):
        _n += 1
        CONTRACTS["plotting:PlotData.time_aggregate#automatic_method_%d" % _n] = dict(
            schema=schema, fragment=_frag, make_env=_env(_units, None, _stale), call_stubs={"logger.warning": (lambda it, *a, **k: None)},
            ensures=[("C20.the_method_follows_from_the_series_own_units_whatever_was_processed_before", "method == %r" % _auto)], defined_props=["C20"])
for _req in ("integrate", "average"):
    for _units in ("Number of people", "probability"):
        _n += 1
        CONTRACTS["plotting:PlotData.time_aggregate#requested_method_%d" % _n] = dict(
            schema=schema, fragment=_frag, make_env=_env(_units, _req, "average" if _req == "integrate" else "integrate"), call_stubs={"logger.warning": (lambda it, *a, **k: None)},
            ensures=[("C20.a_requested_method_is_used_for_every_series", "method == %r" % _req)], defined_props=["C20"])
