"""
Contracts on the per-step evaluation of one parameter (properties C06, C09, C13): Parameter.update (function evaluation with its
skip window), the dependency accumulation inside it, and the three per-parameter loops of Model.update_pars (program overwrite
with its unit conversion, final clipping).  Schema: contracts/model_schema.py.

External collaborators are replaced by ghost values (assumed not to touch the modelled heap): the compiled parameter function
`self._fcn(**dep_vals)`, the program outcomes `prog_vals[...]`, `par.source_popsize(ti)`, and comparisons of the units string
with the framework constants.
"""
schema = "model_schema"
CONTRACTS = {}

_in_window = "(self.skip_function is not None and self.skip_function[0] <= self.t[ti] and self.t[ti] <= self.skip_function[1])"
_evaluated = "(has_fcn and not has_agg and not %s)" % _in_window
CONTRACTS["model:Parameter.update#scalar_no_deps"] = dict(
    schema=schema, params={"ti": "int"},
    ghost_params={"fval": "real", "has_fcn": "bool", "has_agg": "bool", "no_deps": "const:{}"},
    stubs={"self._fcn(**dep_vals)": "fval", "self._fcn": "has_fcn", "self.pop_aggregation": "has_agg", "self.deps": "no_deps"},
    requires=["0 <= ti", "ti < len(self.vals)", "len(self.t) == len(self.vals)",
              "implies(self.skip_function is not None, len(self.skip_function) == 2)"],
    modifies=["self.vals[ti]", "self._dx"],
    ensures=[
        ("C06.no_function_or_aggregated_parameter_is_left_alone", "implies(not has_fcn or has_agg, self.vals[ti] == old(self.vals[ti]) and self._dx == old(self._dx))"),
        ("C06+C09.function_is_not_evaluated_inside_the_skip_window", "implies(%s, self.vals[ti] == old(self.vals[ti]) and self._dx == old(self._dx))" % _in_window),
        ("C06+C09.value_is_scale_factor_times_function", "implies(%s and not self.derivative, self.vals[ti] == self.scale_factor * fval and self._dx == old(self._dx))" % _evaluated),
        ("C06+C09.derivative_parameter_stores_the_rate", "implies(%s and self.derivative, self._dx == self.scale_factor * fval and self.vals[ti] == old(self.vals[ti]))" % _evaluated),
    ],
    frame_props=["C06"], defined_props=["C06"])


# ---- the value a dependency contributes to the function's argument (body of `for dep in deps:` inside Parameter.update)
def _dep_env(it):
    import z3

    acc0 = z3.Real("acc0")
    return {"dep_vals": {"x": acc0}, "dep_name": "x", "acc0": acc0}


_dep_common = dict(schema=schema, fragment={"iter": "deps"}, make_env=_dep_env, modifies=[], frame_props=["C06"], defined_props=["C06"])
CONTRACTS["model:Parameter.update#dependency_parameter"] = dict(
    _dep_common, params={"ti": "int", "dep": "obj:Parameter"}, requires=["0 <= ti", "ti < len(dep.vals)"],
    ensures=[("C06.parameter_dependency_contributes_its_same_step_value", "dep_vals['x'] == acc0 + dep.vals[ti]")])
CONTRACTS["model:Parameter.update#dependency_characteristic"] = dict(
    _dep_common, params={"ti": "int", "dep": "obj:Characteristic"}, requires=["0 <= ti", "dep._vals is not None", "ti < len(dep._vals)"],
    ensures=[("C06.characteristic_dependency_contributes_its_same_step_value", "dep_vals['x'] == acc0 + dep._vals[ti]")])
CONTRACTS["model:Parameter.update#dependency_compartment"] = dict(
    _dep_common, params={"ti": "int", "dep": "obj:Compartment|JunctionCompartment|ResidualJunctionCompartment|SourceCompartment|SinkCompartment|TimedCompartment"},
    requires=["0 <= ti", "implies(not isinstance(dep, TimedCompartment), ti < len(dep.vals))",
              "implies(isinstance(dep, TimedCompartment), ti < dep._vals.shape[1] and dep._vals.shape[0] >= 1)"],
    ensures=[("C06.compartment_dependency_contributes_its_size", "implies(not isinstance(dep, TimedCompartment), dep_vals['x'] == acc0 + dep.vals[ti])"),
             ("C06.timed_compartment_dependency_contributes_its_total_size", "implies(isinstance(dep, TimedCompartment), dep_vals['x'] == acc0 + sum(dep._vals[r, ti] for r in range(dep._vals.shape[0])))")])
CONTRACTS["model:Parameter.update#dependency_flow"] = dict(
    _dep_common, params={"ti": "int", "dep": "obj:Link|TimedLink"},
    requires=["0 <= ti", "dep.dt > 0", "implies(not isinstance(dep, TimedLink), ti < len(dep.vals))",
              "implies(isinstance(dep, TimedLink), ti < dep._vals.shape[1] and dep._vals.shape[0] >= 1)"],
    ensures=[("C06.flow_dependency_is_annualised", "implies(not isinstance(dep, TimedLink), dep_vals['x'] == acc0 + dep.vals[ti] / dep.dt)"),
             ("C06.timed_flow_dependency_is_annualised_total", "implies(isinstance(dep, TimedLink), dep_vals['x'] == acc0 + sum(dep._vals[r, ti] for r in range(dep._vals.shape[0])) / dep.dt)")])


# ---- Model.update_pars, the program overwrite of one parameter (body of the `for par in pars:` loop that reads prog_vals)
_units = ["not (is_number and is_rate)", "not (is_number and is_prob)"]
_not_targeted_unchanged = "implies(not targeted, par.vals[ti] == old(par.vals[ti]) and par._dx == old(par._dx))"
class _NS:
    pass


def _prep_overwrite(env):
    """replay: real collaborators that make the stubbed sub-expressions take the ghost values"""
    from atomica.system import FrameworkSettings as FS

    par = env["par"]
    par.id = ("pop", "p")  # Variable.name is the last element of the id
    par.pop = _NS()
    par.pop.name = "pop"
    par.units = FS.QUANTITY_TYPE_NUMBER if env.get("is_number") else (FS.QUANTITY_TYPE_RATE if env.get("is_rate") else (FS.QUANTITY_TYPE_PROBABILITY if env.get("is_prob") else "unknown"))
    par.source_popsize = lambda ti, v=env.get("popsize", 0.0): v
    env["prog_vals"] = {("p", "pop"): env.get("outcome", 0.0)} if env.get("targeted") else {}


CONTRACTS["model:Model.update_pars#program_overwrite"] = dict(
    replay_prepare=_prep_overwrite,
    schema=schema, fragment={"iter": "pars", "body_contains": "prog_vals"},
    params={"ti": "int", "par": "obj:Parameter"},
    ghost_params={"targeted": "bool", "outcome": "real", "popsize": "real", "is_number": "bool", "is_rate": "bool", "is_prob": "bool"},
    stubs={"(par.name, par.pop.name) in prog_vals": "targeted", "prog_vals[par.name, par.pop.name]": "outcome", "par.source_popsize(ti)": "popsize",
           "par.units == FS.QUANTITY_TYPE_NUMBER": "is_number", "par.units == FS.QUANTITY_TYPE_RATE": "is_rate", "par.units == FS.QUANTITY_TYPE_PROBABILITY": "is_prob"},
    requires=["0 <= ti", "ti < len(par.vals)", "self.dt > 0"] + _units,
    modifies=["par.vals[ti]", "par._dx"],
    ensures=[
        ("C13.untargeted_parameter_is_not_touched_by_programs", _not_targeted_unchanged),
        ("C13.number_parameter_gets_outcome_times_people_per_year", "implies(targeted and not par.derivative and is_number, par.vals[ti] == outcome * popsize / self.dt)"),
        ("C13.per_year_parameter_gets_outcome_per_year", "implies(targeted and not par.derivative and not is_number and (is_rate or is_prob), par.vals[ti] == outcome / self.dt)"),
        ("C13.other_parameter_gets_the_outcome", "implies(targeted and not par.derivative and not is_number and not is_rate and not is_prob, par.vals[ti] == outcome)"),
        ("C13.derivative_parameter_gets_the_outcome_as_rate", "implies(targeted and par.derivative, par._dx == outcome)"),
    ],
    frame_props=["C13"], defined_props=["C13"])

# ---- Model.update_pars, the final loop: the value that drives flows and feeds dependants lies inside the limits
_lim_ok = "implies(par.limits is not None, len(par.limits) == 2 and par.limits[0] <= par.limits[1])"
CONTRACTS["model:Model.update_pars#final_clip"] = dict(
    schema=schema, fragment={"iter": "pars", "body_contains": "constrain"},
    params={"ti": "int", "par": "obj:Parameter"},
    requires=["0 <= ti", "ti < len(par.vals)", "len(self.t) == len(par.vals)", _lim_ok],
    modifies=["par.vals[ti]", "par.vals[ti + 1]"],
    ensures=[
        ("C06.value_used_this_step_is_clipped_into_limits", "implies(not par.derivative and par.limits is not None, par.vals[ti] == min(max(old(par.vals[ti]), par.limits[0]), par.limits[1]))"),
        ("C06.value_without_limits_is_kept", "implies(not par.derivative and par.limits is None, par.vals[ti] == old(par.vals[ti]))"),
        ("C06.derivative_parameter_takes_an_euler_step_then_clipped",
         "implies(par.derivative and ti < len(self.t) - 1 and par.limits is not None, par.vals[ti + 1] == min(max(old(par.vals[ti]) + par._dx * self.dt, par.limits[0]), par.limits[1]))"),
    ],
    frame_props=["C06"], defined_props=["C06"])


# ---- Model.build, the loop that inserts databook values: value = interpolated databook series x meta factor x population factor,
# clipped into the limits (body of `for par in pars:` that reads cascade_par.meta_y_factor)
def _prep_databook(env):
    """replay: a real collaborator object standing for the ParameterSet entry, answering with the ghost values"""
    import numpy as np

    par = env["par"]
    par.id = ("pop", "p")
    par.pop = _NS()
    par.pop.name = "pop"
    par.fcn_str = "f" if env.get("has_fcn") else None
    par.preallocate = lambda t, dt: None
    par.update = lambda *a, **k: None  # the precomputed function's values are whatever the pre-state holds
    cp = _NS()
    cp.name = "p"
    cp.meta_y_factor = env.get("meta", 1.0)
    cp.y_factor = {"pop": env.get("yf", 1.0)} if env.get("has_y") else {}
    cp.skip_function = {"pop": None} if env.get("has_skip") else {}
    cp.has_values = lambda pop, v=bool(env.get("has_values")): v
    series = np.array(env.get("series", []), dtype=float)
    cp.interpolate = lambda tvec=None, pop_name=None: series.copy()
    env["cascade_par"] = cp


CONTRACTS["model:Model.build#databook_values"] = dict(
    replay_prepare=_prep_databook,
    schema=schema, fragment={"iter": "pars", "body_contains": "cascade_par.meta_y_factor"},
    params={"par": "obj:Parameter", "series": "arr1", "parset": "const:None"},
    ghost_params={"meta": "real", "has_y": "bool", "yf": "real", "has_skip": "bool", "has_fcn": "bool", "has_values": "bool", "nothing": "const:None"},
    stubs={"cascade_par.meta_y_factor": "meta", "par.pop.name in cascade_par.y_factor": "has_y", "cascade_par.y_factor[par.pop.name]": "yf",
           "par.pop.name in cascade_par.skip_function": "has_skip", "par.fcn_str": "has_fcn", "cascade_par.has_values(par.pop.name)": "has_values",
           "cascade_par.interpolate(tvec=self.t, pop_name=par.pop.name)": "series", "par.preallocate(self.t, self.dt)": "nothing"},
    requires=["not has_skip", "not (has_fcn and par._precompute)", "has_values", _lim_ok],
    ensures=[
        ("C06.scale_factor_is_the_product_of_both_calibration_factors", "par.scale_factor == (meta * yf if has_y else meta)"),
        ("C06.databook_value_times_calibration_factors_clipped",
         "len(par.vals) == len(series) and all((par.vals[i] == min(max(series[i] * par.scale_factor, par.limits[0]), par.limits[1])) if par.limits is not None else (par.vals[i] == series[i] * par.scale_factor) for i in range(len(series)))"),
    ],
    defined_props=["C06"])


# the same loop body for a parameter whose function is precomputed before integration (par.update() fills the values): whatever the
# function produced, the values that leave Model.build lie inside the framework limits ("finally clipped ... before it drives any flow")
CONTRACTS["model:Model.build#precomputed_values"] = dict(
    schema=schema, fragment={"iter": "pars", "body_contains": "cascade_par.meta_y_factor"},
    params={"par": "obj:Parameter", "parset": "const:None"},
    ghost_params={"meta": "real", "has_y": "bool", "yf": "real", "has_skip": "bool", "has_fcn": "bool", "has_values": "bool", "nothing": "const:None"},
    stubs={"cascade_par.meta_y_factor": "meta", "par.pop.name in cascade_par.y_factor": "has_y", "cascade_par.y_factor[par.pop.name]": "yf",
           "par.pop.name in cascade_par.skip_function": "has_skip", "par.fcn_str": "has_fcn", "cascade_par.has_values(par.pop.name)": "has_values",
           "par.preallocate(self.t, self.dt)": "nothing", "par.update()": "nothing"},
    requires=["not has_skip", "has_fcn", "par._precompute", "par.limits is not None", _lim_ok],
    ensures=[("C06.precomputed_function_values_are_clipped_into_limits", "all(par.limits[0] <= par.vals[i] and par.vals[i] <= par.limits[1] for i in range(len(par.vals)))")],
    defined_props=["C06"], replay_prepare=_prep_databook)


# ---- Parameter.set_dynamic on a dependency chain  C = g(B),  B = f(A),  A overwritten by a program (C06: a function of a
# program-targeted parameter must be re-evaluated during integration, at every level of the chain)
def _env_chain(targeted):
    def make(it):
        from pyvc.interp import PyObjV
        from pyvc import source

        mm = source.load("model")

        def par(name, fcn, deps):
            return PyObjV("Parameter", mm, {"id": ("pop", name), "fcn_str": fcn, "_is_dynamic": False, "_precompute": False, "pop_aggregation": None, "derivative": False, "deps": deps})

        A = par("A", None, None)
        B = par("B", "A*2", {"A": [A]})
        C = par("C", "B+1", {"B": [B]})
        progset = PyObjV("ProgramSet", source.load("programs"), {"pars": {"A": {"label": "A"}} if targeted else {}})
        return {"self": C, "progset": progset, "A": A, "B": B, "C": C}

    return make


CONTRACTS["model:Parameter.set_dynamic#chain_below_a_program_target"] = dict(
    schema=schema, make_env=_env_chain(True),
    ensures=[("C06.function_of_a_program_target_is_dynamic_at_every_level", "B._is_dynamic and C._is_dynamic and not B._precompute and not C._precompute"),
             ("C06.the_target_itself_is_left_alone", "not A._is_dynamic and not A._precompute")],
    defined_props=["C06"], targeted=True)
CONTRACTS["model:Parameter.set_dynamic#chain_without_programs"] = dict(
    schema=schema, make_env=_env_chain(False),
    ensures=[("C06.function_of_databook_parameters_only_is_precomputed", "B._precompute and C._precompute and not B._is_dynamic and not C._is_dynamic")],
    defined_props=["C06"], targeted=False)


def _replay_chain(model, contract):
    """replay on REAL Parameter objects (built without a population) and a stand-in program set"""
    import atomica.model as am

    def par(name, fcn, deps):
        p = object.__new__(am.Parameter)
        p.id, p.fcn_str, p._is_dynamic, p._precompute, p.pop_aggregation, p.derivative, p.deps = ("pop", name), fcn, False, False, None, False, deps
        return p

    A = par("A", None, None)
    B = par("B", "A*2", {"A": [A]})
    C = par("C", "B+1", {"B": [B]})
    progset = type("PS", (), {})()
    progset.pars = {"A": {"label": "A"}} if contract["targeted"] else {}
    C.set_dynamic(progset=progset)
    state = {n: dict(dynamic=bool(p._is_dynamic), precompute=bool(p._precompute)) for n, p in (("A", A), ("B", B), ("C", C))}
    if contract["targeted"]:
        ok = state["B"]["dynamic"] and state["C"]["dynamic"] and not state["B"]["precompute"] and not state["C"]["precompute"]
    else:
        ok = state["B"]["precompute"] and state["C"]["precompute"]
    return dict(verdict="holds" if ok else "violates", detail="flags after C.set_dynamic(progset): %r" % state, prestate=dict(chain="C = g(B), B = f(A)", program_targets=list(progset.pars)))


for _k in ("model:Parameter.set_dynamic#chain_below_a_program_target", "model:Parameter.set_dynamic#chain_without_programs"):
    CONTRACTS[_k]["replay_hook"] = _replay_chain


# ---- Model.process, the output ("postcompute") function parameters evaluated after the integration (C06: "clipped to limits"): the body of the loop over the parameters of one
# name.  A function parameter that is neither dynamic nor precomputed is evaluated over the whole run and THEN clipped to its limits -- each population's parameter, not only the
# last one; other parameters are left alone here (they were evaluated and clipped during the run)
def _env_postcompute(fcn, dynamic, precompute):
    def make(it):
        from pyvc.interp import PyObjV
        from pyvc import source

        return {"par": PyObjV("Parameter", source.load("model"), {"name": "out", "fcn_str": fcn, "_is_dynamic": dynamic, "_precompute": precompute, "DONE": []}), "self": None, "par_name": "out"}

    return make


_pc_stubs = {"par.update": (lambda it, *a: it.stub_receiver.fields["DONE"].append("update")), "par.constrain": (lambda it, *a: it.stub_receiver.fields["DONE"].append("constrain"))}
for _tag, _fcn, _dyn, _pre, _want in (("output_function_parameter", "a+b", False, False, ["update", "constrain"]), ("dynamic_parameter", "a+b", True, False, []), ("precomputed_parameter", "a+b", False, True, []), ("data_parameter", None, False, False, [])):
    CONTRACTS["model:Model.process#postcompute_%s" % _tag] = dict(
        schema="covout", fragment={"iter": "self._vars_by_pop[par_name]", "body_contains": "par.update()"}, make_env=_env_postcompute(_fcn, _dyn, _pre), call_stubs=_pc_stubs,
        ensures=[("C06.an_output_function_parameter_is_evaluated_and_then_clipped_in_every_population" if _want else "C06.parameters_handled_during_the_run_are_left_alone_afterwards", "par.DONE == %r" % _want)],
        defined_props=["C06"])
