"""
Population.get_variable (properties C20 "the value reported for an output ... depends only on that output", C15 "the requested outputs"): which
integration objects a requested name denotes, for every documented form of the name, on a population with three compartments
a, b, c, one characteristic, two parameters p (links a->b and b->c) and q (link a->c):

   code name of a compartment / characteristic / parameter      that object
   `p:flow`                                                     the links driven by p
   `a:b`   `a:`   `:c`   `::p`   `a:c:q`   `a:b:q`              the links from a to b / out of a / into c / driven by p / from a to c driven by q / none
   `a___b`                                                      as `a:b` (the spelling used inside parameter functions)
   an unknown name                                              NotFoundError
"""
schema = "covout"
CONTRACTS = {}


def _make_env(name):
    def make(it):
        from pyvc.interp import PyObjV
        from pyvc import source

        mm = source.load("model")
        pop_fields = {"name": "pop"}
        pop = PyObjV("Population", mm, pop_fields)
        comp = {n: PyObjV("Compartment", mm, {"id": ("pop", n), "pop": pop, "outlinks": [], "inlinks": []}) for n in "abc"}
        par = {n: PyObjV("Parameter", mm, {"id": ("pop", n), "links": []}) for n in "pq"}
        charac = PyObjV("Characteristic", mm, {"id": ("pop", "ch")})

        def link(s, d, p):
            l = PyObjV("Link", mm, {"id": ("pop", s, d, p + ":flow"), "source": comp[s], "dest": comp[d], "parameter": par[p]})
            comp[s].fields["outlinks"].append(l)
            comp[d].fields["inlinks"].append(l)
            par[p].fields["links"].append(l)
            return l

        ab, bc, ac = link("a", "b", "p"), link("b", "c", "p"), link("a", "c", "q")
        pop_fields.update({"comps": list(comp.values()), "characs": [charac], "pars": list(par.values()), "links": [ab, bc, ac], "comp_lookup": dict(comp), "charac_lookup": {"ch": charac},
                           "par_lookup": dict(par), "link_lookup": {"p:flow": [ab, bc], "q:flow": [ac]}})
        return {"self": pop, "name": name, "A": comp["a"], "CH": charac, "P": par["p"], "AB": ab, "BC": bc, "AC": ac}

    return make


_CASES = [("compartment", "a", "[A]"), ("characteristic", "ch", "[CH]"), ("parameter", "p", "[P]"), ("flows_of_a_parameter", "p:flow", "[AB, BC]"), ("from_a_to_b", "a:b", "[AB]"),
          ("out_of_a", "a:", "[AB, AC]"), ("into_c", ":c", "[BC, AC]"), ("driven_by_p", "::p", "[AB, BC]"), ("from_a_to_c_driven_by_q", "a:c:q", "[AC]"), ("from_a_to_b_driven_by_q", "a:b:q", "[]"),
          ("function_spelling", "a___b", "[AB]"), ("unknown", "nope", None)]
for _tag, _name, _want in _CASES:
    CONTRACTS["model:Population.get_variable#%s" % _tag] = dict(
        schema=schema, make_env=_make_env(_name), class_module="model",
        raises=({} if _want is not None else {"NotFoundError": "True"}), raises_props=["C20"],
        ensures=([("C20+C15.the_name_denotes_exactly_these_objects", "len(result) == len(%s) and all(result[i] is %s[i] for i in range(len(%s)))" % (_want, _want, _want))] if _want is not None else []),
        defined_props=["C20", "C15"])


# ---- Result.get_variable: one population -> that population's objects; no population given -> the objects of every population that knows the
# name, in population order, populations that do not know it being skipped; nobody knows it -> NotFoundError
def _env_result_lookup(pops, known):
    def make(it):
        from pyvc.interp import PyObjV
        from pyvc import source

        mm = source.load("model")
        P = [PyObjV("Population", mm, {"name": "p%d" % i, "KNOWS": known[i]}) for i in range(3)]
        model = PyObjV("Model", mm, {"pops": P, "_pop_ids": {"p0": 0, "p1": 1, "p2": 2}})
        return {"self": PyObjV("Result", source.load("results"), {"model": model}), "name": "x", "pops": pops, "P": P}

    return make


def _ghost_pop_get_variable(it, name):
    from pyvc.interp import _Raise

    pop = it.stub_receiver
    if not pop.fields["KNOWS"]:
        raise _Raise("NotFoundError")
    return [("x of", pop.fields["name"])]


_ls = {"pop.get_variable": _ghost_pop_get_variable, "self.model.get_pop(pops).get_variable": (lambda it, name: [("x of", it.live_env["pops"])])}
for _tag, _pops, _known, _want in (("one_population", "p1", (True, True, True), [("x of", "p1")]), ("all_populations", None, (True, False, True), [("x of", "p0"), ("x of", "p2")]), ("unknown_everywhere", None, (False, False, False), None)):
    CONTRACTS["results:Result.get_variable#%s" % _tag] = dict(
        schema=schema, make_env=_env_result_lookup(_pops, _known), call_stubs=_ls,
        raises=({} if _want is not None else {"NotFoundError": "True"}), raises_props=["C20"],
        ensures=([("C20.the_objects_of_the_population_asked_or_of_every_population_that_knows_the_name_in_order", "result == %r" % (_want,))] if _want is not None else []),
        defined_props=["C20"])


# ---- Population.get_comp / get_charac / get_par / get_links (C20: outputs are looked up by name): the object of that name in this population; links can be asked for by the name
# of their parameter (all links that parameter drives) or by their own name; an unknown name is refused with NotFoundError, never with a KeyError
def _env_lookups(it):
    from pyvc.interp import PyObjV
    from pyvc import source

    mm = source.load("model")
    par = PyObjV("Parameter", mm, {"name": "rec", "links": ["link 1", "link 2"]})
    return {"self": PyObjV("Population", mm, {"name": "adults", "comp_lookup": {"sus": "COMP"}, "charac_lookup": {"alive": "CHARAC"}, "par_lookup": {"rec": par}, "link_lookup": {"rec:flow": ["link 1", "link 2"], "z": ["link 3"]}}), "PAR": par}


for _fn, _arg, _name, _want in (("get_comp", "comp_name", "sus", "result == 'COMP'"), ("get_charac", "charac_name", "alive", "result == 'CHARAC'"), ("get_par", "par_name", "rec", "result is PAR"),
                                ("get_links", "name", "rec", "result == ['link 1', 'link 2']"), ("get_links", "name", "z", "result == ['link 3']")):
    CONTRACTS["model:Population.%s#%s" % (_fn, _name)] = dict(
        schema=schema, make_env=(lambda a, n: (lambda it: dict(_env_lookups(it), **{a: n})))(_arg, _name), ensures=[("C20.the_object_of_that_name_in_this_population", _want)], defined_props=["C20"])
for _fn, _arg in (("get_comp", "comp_name"), ("get_charac", "charac_name"), ("get_par", "par_name"), ("get_links", "name")):
    CONTRACTS["model:Population.%s#unknown_name" % _fn] = dict(
        schema=schema, make_env=(lambda a: (lambda it: dict(_env_lookups(it), **{a: "nothing"})))(_arg), raises={"NotFoundError": "True"}, raises_props=["C20", "C18"], ensures=[], defined_props=["C20"])
