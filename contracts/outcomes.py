"""
ProgramSet.get_outcomes (properties C13, C12): the flat dictionary handed to Model.update_pars holds, for every (parameter, population)
pair that has a coverage-outcome entry, the outcome of THAT entry at the coverages given -- nothing else, nothing swapped.  Two
entries; Covout.get_outcome is seen as a ghost function of the entry (its own contracts are in covout.py).
"""
import z3

schema = "covout"
CONTRACTS = {}
OUT = z3.Function("outcome_of_entry", z3.IntSort(), z3.RealSort())


def _make_env(it):
    from pyvc.interp import PyObjV, BuiltinV
    from pyvc.core import Opaque
    from pyvc import source

    pm = source.load("programs")
    c0 = PyObjV("Covout", pm, {"par": "p0", "pop": "adults", "IDX": 0})
    c1 = PyObjV("Covout", pm, {"par": "p1", "pop": "children", "IDX": 1})
    self = PyObjV("ProgramSet", pm, {"covouts": {("p0", "adults"): c0, ("p1", "children"): c1}})
    return {"self": self, "prop_coverage": Opaque("coverages"), "SEEN": [], "outcome_of": BuiltinV("outcome_of", lambda it, i: OUT(z3.IntVal(i)))}


def _dispatch(it, cov):
    entry = it.stub_receiver                     # the Covout whose outcome is asked for
    it.live_env["SEEN"].append(cov)
    return OUT(z3.IntVal(entry.fields["IDX"]))


CONTRACTS["programs:ProgramSet.get_outcomes"] = dict(
    schema=schema, make_env=_make_env,
    call_stubs={"covout.get_outcome": _dispatch},
    ensures=[
        ("C13+C12.one_value_per_targeted_parameter_and_population", "len(result) == 2 and ('p0', 'adults') in result and ('p1', 'children') in result"),
        ("C13+C12.each_pair_gets_the_outcome_of_its_own_entry", "result['p0', 'adults'] == outcome_of(0) and result['p1', 'children'] == outcome_of(1)"),
        ("C13.every_entry_is_evaluated_at_the_coverages_given", "len(SEEN) == 2 and SEEN[0] is prop_coverage and SEEN[1] is prop_coverage"),
    ],
    defined_props=["C13", "C12"])



def _replay(model, contract):
    """replay on the udt demo program set: the flat dictionary against each entry's own outcome at the same coverages"""
    import logging
    import warnings

    import numpy as np
    import atomica as at

    warnings.filterwarnings("ignore")
    at.logger.setLevel(logging.ERROR)
    P = at.demo("udt", do_run=False)
    ps = P.progsets[0]
    cov = {k: np.array([0.1 + 0.15 * i]) for i, k in enumerate(ps.programs.keys())}
    got = ps.get_outcomes(cov)
    want = {(c.par, c.pop): c.get_outcome(cov) for c in ps.covouts.values()}
    bad = []
    if set(got.keys()) != set(want.keys()):
        bad.append("keys %r, the program set has outcomes for %r" % (sorted(got.keys())[:4], sorted(want.keys())[:4]))
    else:
        bad += ["%r: %r, its own entry gives %r" % (k, float(np.ravel(got[k])[0]), float(np.ravel(want[k])[0])) for k in want if not np.allclose(got[k], want[k], rtol=0, atol=0)]
    return dict(verdict="violates" if bad else "holds", detail="; ".join(bad[:3]) or "every (parameter, population) pair gets its own entry's outcome", prestate=dict(project="udt", coverages={k: float(v[0]) for k, v in cov.items()}))


CONTRACTS["programs:ProgramSet.get_outcomes"]["replay_hook"] = _replay
