"""
Model.__getstate__ / __setstate__ / __deepcopy__ (property C08: "a model that is deep-copied or pickled after construction and then run produces the
same outputs as the original"): references are replaced by ids only for the duration of the copy -- the ORIGINAL is linked again before the
method returns, the state handed to pickle is a copy taken while unlinked, and the new object is linked before it is returned / used.
unlink / relink (under contract in structural.py: symmetric per class) and sc.dcp are ghosts that record the order of the calls.
"""
schema = "covout"
CONTRACTS = {}


def _make_env(it):
    from pyvc.interp import PyObjV
    from pyvc import source

    self = PyObjV("Model", source.load("model"), {"LINKED": True, "payload": "state of the model"})
    return {"self": self, "LOG": [], "d": {"LINKED": False, "payload": "restored state"}}


def _unlink(it):
    o = it.stub_receiver
    o.fields["LINKED"] = False
    it.live_env["LOG"].append(("unlink", o))


def _relink(it):
    o = it.stub_receiver
    o.fields["LINKED"] = True
    it.live_env["LOG"].append(("relink", o))


def _dcp(it, d):
    it.live_env["LOG"].append(("copy", dict(d)))
    return dict(d)


def _cp(it, d):
    """sc.cp / copy.copy: a SHALLOW copy -- a new dict whose values are the original's objects"""
    it.live_env["LOG"].append(("shallow-copy", d))
    return d


_stubs = {"self.unlink": _unlink, "self.relink": _relink, "new.relink": _relink, "sc.dcp": _dcp, "sc.cp": _cp, "copy.copy": _cp, "copy.deepcopy": _dcp}
CONTRACTS["model:Model.__getstate__"] = dict(
    schema=schema, make_env=_make_env, call_stubs=_stubs, ghost_params={},
    ensures=[("C08.the_state_is_copied_while_unlinked", "[e[0] for e in LOG] == ['unlink', 'copy', 'relink'] and LOG[1][1]['LINKED'] == False and result['LINKED'] == False and result['payload'] == 'state of the model'"),
             ("C08.the_original_is_linked_again", "self.LINKED == True and LOG[2][1] is self")],
    defined_props=["C08"])
CONTRACTS["model:Model.__deepcopy__"] = dict(
    schema=schema, make_env=_make_env, call_stubs=_stubs, ghost_params={"memodict": "const:{}"},
    ensures=[("C08.the_copy_is_taken_while_unlinked_and_both_objects_end_up_linked", "[e[0] for e in LOG] == ['unlink', 'copy', 'relink', 'relink'] and LOG[2][1] is self and LOG[3][1] is result and self.LINKED == True and result.LINKED == True"),
             ("C08.the_copy_is_a_new_model_with_the_same_state", "result is not self and result.payload == 'state of the model'")],
    defined_props=["C08"])

CONTRACTS["model:Model.__setstate__"] = dict(
    schema=schema, make_env=_make_env, call_stubs=_stubs,
    ensures=[("C08.the_restored_model_holds_the_saved_state_and_is_linked_before_use", "self.payload == 'restored state' and self.LINKED == True and [e[0] for e in LOG] == ['relink'] and LOG[0][1] is self")],
    defined_props=["C08"])
