"""
Type invariants of the integration objects of atomica/model.py (part of wf(model), DESIGN.md 3.1).

Derived from the constructors and preallocate() methods: which attributes exist, what they hold.  Every
kernel contract requires this schema; it is an assumption on the pre-state (listed in the evidence) and the
ownership part (each array/list attribute is owned by its object) is baked into the heap model.
"""
SCHEMA = {
    "__families__": ["Compartment", "Characteristic", "Parameter", "Link", "Population", "Model"],
    "Variable": {"vals": "arr1", "t": "arr1", "dt": "real", "units": "str", "id": "opaque", "pop": "opaque"},
    "Compartment": {"outlinks": "list:Link", "inlinks": "list:Link", "_cached_outflow": "real"},
    "JunctionCompartment": {"duration_group": "str?"},
    "TimedCompartment": {"_vals": "arr2", "_cached_outflow": "arr1", "parameter": "ref:Parameter", "flush_link": "ref:Link"},
    "Characteristic": {"includes": "list:Compartment|Characteristic", "denominator": "ref?:Compartment|Characteristic", "_vals": "arr1?", "_is_dynamic": "bool"},
    "Parameter": {"links": "list:Link", "timescale": "real", "scale_factor": "real", "limits": "arr1?", "_source_popsize_cache_time": "int?", "_source_popsize_cache_val": "real",
                  "derivative": "bool", "_dx": "real", "_is_dynamic": "bool", "_precompute": "bool", "fcn_str": "opaque", "skip_function": "arr1?"},
    "Link": {"parameter": "ref?:Parameter", "source": "ref:Compartment", "dest": "ref:Compartment", "_cache": "real"},
    "TimedLink": {"_vals": "arr2"},
    "Model": {"dt": "real", "_t_index": "int", "t": "arr1", "framework": "opaque", "_exec_order": "opaque", "pops": "list:Population", "programs_active": "bool",
              "progset": "opaque", "program_instructions": "opaque", "_program_cache": "opaque", "_vars_by_pop": "opaque", "interactions": "opaque"},
    "Population": {"name": "opaque", "comps": "list:Compartment", "links": "list:Link", "pars": "list:Parameter", "characs": "list:Characteristic"},
}
