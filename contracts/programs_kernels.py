"""
Contracts on the coverage arithmetic of atomica/programs.py (property C11).

Program.get_capacity and Program.get_prop_covered are element-wise numpy computations.  They are verified for arrays of
length 1 with symbolic contents (all inputs range over the reals); the step to arrays of any length rests on the stated
assumption that numpy ufuncs act element by element.  Calls into TimeSeries (interpolate, has_data, units) are external:
they are replaced by ghost values named in `stubs` (assumed contract: interpolate returns a fresh array of the same
length as tvec).
"""
SCHEMA = {
    "__families__": ["Program"],
    "Program": {"name": "opaque", "unit_cost": "opaque", "capacity_constraint": "opaque", "saturation": "opaque", "spend_data": "opaque", "coverage": "opaque"},
}
schema = "programs_kernels"
CONTRACTS = {}

_sat_stubs = {"self.saturation.has_data": "HAS_SAT", "self.saturation.interpolate(tvec, method='previous')": "SAT"}

CONTRACTS["programs:Program.get_prop_covered"] = dict(
    schema=schema,
    params={"tvec": "arr1:1", "capacity": "arr1:1", "eligible": "arr1:1"},
    ghost_params={"HAS_SAT": "bool", "SAT": "arr1:1"},
    stubs=_sat_stubs,
    requires=["capacity[0] >= 0", "eligible[0] >= 0", "SAT[0] > 0"],
    ensures=[
        ("C11+C13.in_unit_interval", "result[0] >= 0 and result[0] <= 1"),
        ("C11+C13.linear_when_unconstrained_below_one", "implies(not HAS_SAT and eligible[0] > capacity[0], result[0] * eligible[0] == capacity[0])"),
        ("C11+C13.full_when_capacity_covers_everyone", "implies(not HAS_SAT and eligible[0] <= capacity[0], result[0] == 1)"),
        ("C11+C13.bounded_by_saturation", "implies(HAS_SAT, result[0] <= SAT[0])"),
        ("C11+C13.nobody_eligible_gives_saturation_or_one", "implies(eligible[0] == 0, result[0] == (min(SAT[0], 1) if HAS_SAT else 1))"),
        ("C11.never_more_people_than_capacity", "implies(not HAS_SAT and eligible[0] > 0, result[0] * eligible[0] <= capacity[0])"),   # with saturation: a*tanh(x/a) <= x, beyond the exp axioms (not decided)
    ],
    relational=dict(vary={"capacity": "arr1:1"}, requires=["capacity_2[0] >= 0", "capacity[0] <= capacity_2[0]"]),
    defined_props=["C11", "C13"],
)
CONTRACTS["programs:Program.get_prop_covered"]["ensures"].append(("C11.monotone_in_capacity", "result[0] <= result_2[0]"))

_cap_stubs = {"self.unit_cost.interpolate(tvec, method='previous')": "UC", "self.is_one_off": "ONE_OFF", "self.capacity_constraint.has_data": "HAS_CC",
              "self.capacity_constraint.interpolate(tvec, method='previous')": "CC", "'/year' in self.capacity_constraint.units": "CC_PER_YEAR",
              # the unit-cost units are what is_one_off is defined by (Program.is_one_off): a test of them anywhere in the function has
              # the value  not ONE_OFF  (assumed through the precondition below), it is independent of the capacity-constraint units
              "'/year' in self.unit_cost.units": "UC_PER_YEAR", "'/year' not in self.unit_cost.units": "ONE_OFF"}
CONTRACTS["programs:Program.get_capacity"] = dict(
    schema=schema,
    params={"tvec": "arr1:1", "spending": "arr1:1", "dt": "real"},
    ghost_params={"UC": "arr1:1", "ONE_OFF": "bool", "HAS_CC": "bool", "CC": "arr1:1", "CC_PER_YEAR": "bool", "UC_PER_YEAR": "bool"},
    stubs=_cap_stubs,
    requires=["spending[0] >= 0", "UC[0] > 0", "dt > 0", "CC[0] >= 0", "UC_PER_YEAR == (not ONE_OFF)"],
    ensures=[
        ("C11.capacity_nonneg", "result[0] >= 0"),
        ("C11.capacity_is_spending_over_unit_cost", "implies(not HAS_CC, result[0] * UC[0] == spending[0] * (dt if ONE_OFF else 1))"),
        ("C11.capped_by_capacity_constraint", "implies(HAS_CC, result[0] <= CC[0] * (dt if CC_PER_YEAR else 1) and result[0] * UC[0] <= spending[0] * (dt if ONE_OFF else 1))"),
        ("C11.one_off_annual_reach_independent_of_dt", "implies(ONE_OFF and not HAS_CC, result[0] / dt * UC[0] == spending[0])"),
        ("C08.argument_not_modified", "spending[0] == old(spending[0])"),     # works on the promoted copy: the caller's array is untouched
        ("C11.monotone_in_spending", "result[0] <= result_2[0]"),
    ],
    relational=dict(vary={"spending": "arr1:1"}, requires=["spending_2[0] >= 0", "spending[0] <= spending_2[0]"]),
    defined_props=["C11"],
)


# ---- ProgramSet.get_prop_coverage: contract on the body of `for prog in self.programs.values()` for an arbitrary program
def _pc_env(it):
    from pyvc.interp import PyObjV
    from pyvc.core import Opaque
    from pyvc import source

    prog = PyObjV("Program", source.load("programs"), {"name": "prog"})
    return {"prog": prog, "prop_coverage": {}, "instructions": PyObjV("ProgramInstructions", source.load("programs"), {"coverage": Opaque("coverage dict")}),
            "capacities": Opaque("capacities"), "num_eligible": Opaque("num_eligible"), "self": Opaque("progset")}


CONTRACTS["programs:ProgramSet.get_prop_coverage#per_program"] = dict(
    schema=schema, fragment={"iter": "self.programs.values()"}, make_env=_pc_env,
    params={"tvec": "arr1:1", "dt": "real"},
    ghost_params={"NO_OVERWRITE": "bool", "ONE_OFF": "bool", "PC": "arr1:1", "OV": "arr1:1", "OV_LINEAR": "arr1:1"},
    stubs={"prog.name not in instructions.coverage": "NO_OVERWRITE", "prog.is_one_off": "ONE_OFF",
           "prog.get_prop_covered(tvec, capacities[prog.name], num_eligible[prog.name])": "PC",
           "instructions.coverage[prog.name].interpolate(tvec, method='previous')": "OV",
           # the same series read with the default (linear) interpolation is a DIFFERENT value: overwrites are stepped (C09)
           "instructions.coverage[prog.name].interpolate(tvec)": "OV_LINEAR"},
    requires=["dt > 0", "PC[0] >= 0", "OV[0] >= 0"],
    ensures=[
        ("C09+C11+C13.coverage_overwrite_takes_precedence_is_stepped_and_per_step", "implies(not NO_OVERWRITE, prop_coverage['prog'][0] == min(OV[0] * (dt if ONE_OFF else 1), 1))"),
        ("C11+C13.otherwise_coverage_follows_from_capacity", "implies(NO_OVERWRITE, prop_coverage['prog'][0] == min(PC[0], 1))"),
        ("C11+C13.final_cap_at_one", "prop_coverage['prog'][0] <= 1"),
    ],
    defined_props=["C11", "C13"])


# ---- ProgramSet.get_capacities / get_alloc: bodies of `for prog in self.programs.values()` for an arbitrary program.
# Precedence (C11): capacity overwrite > spending overwrite > program-book spending; overwrites are stepped ('previous').
def _cap_env(it):
    from pyvc.interp import PyObjV
    from pyvc.core import Opaque
    from pyvc import source

    prog = PyObjV("Program", source.load("programs"), {"name": "prog"})
    return {"prog": prog, "capacities": {}, "alloc": {}, "instructions": PyObjV("ProgramInstructions", source.load("programs"), {"capacity": Opaque("capacity dict"), "alloc": Opaque("alloc dict")}),
            "self": Opaque("progset")}


def _ghost_capacity(it, tvec=None, dt=None, spending=None):
    """Program.get_capacity seen from its caller: CAP_FROM_SPEND when it is handed the allocated spending (the very array), CAP_NO_SPEND when
    it is handed None (program-book spending); any other argument is not what the property allows"""
    if spending is None:
        return it.ghost_env["CAP_NO_SPEND"]
    g = it.ghost_env["SPEND"]
    if getattr(spending, "get", None) is not None and spending.get(0) is g.get(0):
        return it.ghost_env["CAP_FROM_SPEND"]
    from pyvc.core import Unsupported
    raise Unsupported("get_capacity called with a spending argument that is neither None nor the allocated spending")


CONTRACTS["programs:ProgramSet.get_capacities#per_program"] = dict(
    schema=schema, fragment={"iter": "self.programs.values()"}, make_env=_cap_env,
    params={"tvec": "arr1:1", "dt": "real"},
    ghost_params={"NO_OVERWRITE": "bool", "ONE_OFF": "bool", "HAS_ALLOC": "bool", "SPEND": "arr1:1", "CAP_FROM_SPEND": "arr1:1", "CAP_NO_SPEND": "arr1:1", "OV": "arr1:1", "OV_LINEAR": "arr1:1"},
    stubs={"prog.name not in instructions.capacity": "NO_OVERWRITE", "prog.is_one_off": "ONE_OFF", "prog.name in alloc": "HAS_ALLOC", "alloc[prog.name]": "SPEND",
           "instructions.capacity[prog.name].interpolate(tvec, method='previous')": "OV", "instructions.capacity[prog.name].interpolate(tvec)": "OV_LINEAR"},
    call_stubs={"prog.get_capacity": _ghost_capacity},
    requires=["dt > 0"],
    ensures=[
        ("C11+C09.capacity_overwrite_takes_precedence_is_stepped_and_per_step", "implies(not NO_OVERWRITE, capacities['prog'][0] == OV[0] * (dt if ONE_OFF else 1))"),
        ("C11.otherwise_capacity_follows_from_the_allocated_spending", "implies(NO_OVERWRITE and HAS_ALLOC, capacities['prog'][0] == CAP_FROM_SPEND[0])"),
        ("C11.without_allocation_capacity_follows_from_program_book_spending", "implies(NO_OVERWRITE and not HAS_ALLOC, capacities['prog'][0] == CAP_NO_SPEND[0])"),
    ],
    defined_props=["C11", "C09"])

CONTRACTS["programs:ProgramSet.get_alloc#per_program"] = dict(
    schema=schema, fragment={"iter": "self.programs.values()"}, make_env=_cap_env,
    params={"tvec": "arr1:1"},
    ghost_params={"NO_OVERWRITE": "bool", "BOOK": "arr1:1", "OV": "arr1:1", "OV_LINEAR": "arr1:1"},
    stubs={"prog.name not in instructions.alloc": "NO_OVERWRITE", "prog.get_spend(tvec)": "BOOK",
           "instructions.alloc[prog.name].interpolate(tvec, method='previous')": "OV", "instructions.alloc[prog.name].interpolate(tvec)": "OV_LINEAR"},
    ensures=[
        ("C11+C09.spending_overwrite_takes_precedence_and_is_stepped", "implies(not NO_OVERWRITE, alloc['prog'][0] == OV[0])"),
        ("C11.otherwise_program_book_spending", "implies(NO_OVERWRITE, alloc['prog'][0] == BOOK[0])"),
    ],
    defined_props=["C11", "C09"])



# ---- replay of the three per-program fragments on real collaborators that answer with the ghost values
class _NS:
    pass


class _Series:
    """stand-in overwrite series: the stepped reading ('previous') and the default linear reading are different values"""

    def __init__(self, stepped, linear):
        self.stepped, self.linear = stepped, linear

    def interpolate(self, tvec, method="linear", **kwargs):
        import numpy as np

        return np.array(self.stepped if method == "previous" else self.linear, dtype=float).copy()


def _prep_progset(which):
    def prep(env):
        import numpy as np

        arr = lambda k: np.array(env.get(k, [0.0]), dtype=float)
        prog = _NS()
        prog.name = "prog"
        prog.is_one_off = bool(env.get("ONE_OFF"))
        prog.get_capacity = lambda tvec=None, dt=None, spending=None: (arr("CAP_NO_SPEND") if spending is None else arr("CAP_FROM_SPEND")).copy()
        prog.get_spend = lambda tvec: arr("BOOK").copy()
        prog.get_prop_covered = lambda tvec, cap, n: arr("PC").copy()
        instr = _NS()
        over = {} if env.get("NO_OVERWRITE") else {"prog": _Series(env.get("OV", [0.0]), env.get("OV_LINEAR", [0.0]))}
        instr.capacity, instr.alloc, instr.coverage = dict(over), dict(over), dict(over)
        env["prog"], env["instructions"], env["self"] = prog, instr, None
        if which == "capacities":
            env["alloc"] = {"prog": arr("SPEND")} if env.get("HAS_ALLOC") else {}
            env["capacities"] = {}
        elif which == "alloc":
            env["alloc"] = {}
        else:
            env["capacities"], env["num_eligible"], env["prop_coverage"] = {"prog": arr("PC")}, {"prog": arr("PC")}, {}

    return prep


CONTRACTS["programs:ProgramSet.get_capacities#per_program"]["replay_prepare"] = _prep_progset("capacities")
CONTRACTS["programs:ProgramSet.get_alloc#per_program"]["replay_prepare"] = _prep_progset("alloc")
CONTRACTS["programs:ProgramSet.get_prop_coverage#per_program"]["replay_prepare"] = _prep_progset("coverage")
