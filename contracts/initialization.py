"""
Contract on the acceptance test at the end of Population.initialize_compartments (property C07): whatever the least-squares
solver returns (its result `x` is an arbitrary vector: nothing is assumed about numpy.linalg.lstsq), the run is either refused
with BadInitialization or every databook quantity used for initialization is reproduced to within the tolerance and no compartment
is negative beyond the tolerance.  The contract is on the statements AFTER the lstsq call; the variables bound before it (A, b,
b_objs, comps, the two index dicts and x) are contract parameters of concrete shape (m databook quantities, n compartments)
with symbolic contents.  Complete for each shape, shapes (m, n) in {1,2} x {1,2}.
"""
import numpy as np
import z3

schema = "model_schema"
CONTRACTS = {}
TOL = "1e-06"


def _make_env(m, n):
    def make(it):
        from pyvc.interp import PyObjV
        from pyvc.core import LArr
        from pyvc import source

        A = [[z3.Real("A_%d_%d" % (i, j)) for j in range(n)] for i in range(m)]
        b = [z3.Real("b_%d" % i) for i in range(m)]
        x = [z3.Real("x_%d" % j) for j in range(n)]
        mod = source.load("model")
        # compartments being solved for: plain compartments of concrete identity (their names index the matrix columns)
        comps = [PyObjV("Compartment", mod, {"id": ("pop", "c%d" % j), "vals": LArr(1, (lambda i, v=z3.Real("old_size_%d" % j): v))}) for j in range(n)]
        # databook quantities: the first is a characteristic over all compartments, a second one is the first compartment itself
        b_objs = [PyObjV("Characteristic", mod, {"id": ("pop", "q0"), "includes": list(comps), "denominator": None})]
        if m == 2:
            b_objs.append(comps[0])
        env = {
            "self": PyObjV("Population", mod, {"name": "pop"}),
            "A": it.table2(A), "b": it.table2([[v] for v in b]), "x": it.table2([[v] for v in x]),
            "comps": comps, "b_objs": b_objs,
            "charac_indices": {o.fields["id"][1]: i for i, o in enumerate(b_objs)}, "comp_indices": {"c%d" % j: j for j in range(n)},
            "A_": A, "b_": b, "x_": x, "m": m, "n": n,
        }
        return env

    return make


def _clauses(m, n):
    prop = lambda i: " + ".join("A_[%d][%d] * x_[%d]" % (i, j, j) for j in range(n))
    within = " and ".join("abs(%s - b_[%d]) <= %s" % (prop(i), i, TOL) for i in range(m))
    nonneg = " and ".join("x_[%d] >= -%s" % (j, TOL) for j in range(n))
    resid = " + ".join("(%s - b_[%d]) ** 2" % (prop(i), i) for i in range(m))
    ens = [
        ("C07.accepted_only_if_every_databook_quantity_is_reproduced_within_tolerance", within),
        ("C07.accepted_only_if_no_compartment_is_negative_beyond_tolerance", nonneg),
        ("C07.accepted_only_if_the_global_residual_is_within_tolerance", "%s <= %s" % (resid, TOL)),
        ("C07.initial_sizes_are_the_nonnegative_part_of_the_solution", " and ".join("comps[%d][0] == max(0, x_[%d])" % (j, j) for j in range(n))),
    ]
    refuse = "not (%s) or not (%s) or %s > %s" % (within, nonneg, resid, TOL)
    return ens, refuse


for _m in (1, 2):
    for _n in (1, 2, 3):
        _ens, _refuse = _clauses(_m, _n)
        CONTRACTS["model:Population.initialize_compartments#acceptance_m%d_n%d" % (_m, _n)] = dict(
            schema=schema, fragment={"after": "x = np.linalg.lstsq("}, make_env=_make_env(_m, _n),
            params={"parset": "const:None", "framework": "const:None", "t_init": "real"},
            ensures=_ens, raises={"BadInitialization": _refuse}, raises_props=["C07"], defined_props=["C07"], m=_m, n=_n,
            tiers=(["quick", "thorough"] if _n <= 2 else ["thorough"]))


def _replay(model, contract):
    """replay on REAL Compartment / Characteristic objects: the statements after the lstsq call of the real function are executed
    with the model's A, b and x, and the clauses are re-evaluated on what the real code did (accept or refuse)"""
    import ast
    import inspect
    import textwrap

    import atomica.model as am

    m, n = contract["m"], contract["n"]

    def val(name):
        v = model.eval(z3.Real(name), model_completion=True)
        try:
            return float(v.numerator_as_long()) / float(v.denominator_as_long())
        except Exception:
            v = v.approx(15)
            return float(v.numerator_as_long()) / float(v.denominator_as_long())

    A = np.array([[val("A_%d_%d" % (i, j)) for j in range(n)] for i in range(m)], dtype=float).reshape(m, n)
    b = np.array([[val("b_%d" % i)] for i in range(m)], dtype=float)
    x = np.array([[val("x_%d" % j)] for j in range(n)], dtype=float)
    comps = []
    for j in range(n):
        c = object.__new__(am.Compartment)
        c.id = ("pop", "c%d" % j)
        c.vals = np.array([val("old_size_%d" % j)], dtype=float)
        comps.append(c)
    q0 = object.__new__(am.Characteristic)
    q0.id, q0.includes, q0.denominator, q0._vals = ("pop", "q0"), list(comps), None, None
    b_objs = [q0] + ([comps[0]] if m == 2 else [])

    class _Pop:
        name = "pop"

    src = textwrap.dedent(inspect.getsource(am.Population.initialize_compartments))
    body = ast.parse(src).body[0].body
    idx = [i for i, st in enumerate(body) if ast.unparse(st).startswith(contract["fragment"]["after"])]
    tail = ast.Module(body=body[idx[0] + 1:], type_ignores=[])
    env = dict(vars(am))
    env.update(self=_Pop(), A=A, b=b, x=x, comps=comps, b_objs=b_objs, parset=None, framework=None, t_init=0.0,
               charac_indices={o.name: i for i, o in enumerate(b_objs)}, comp_indices={c.name: j for j, c in enumerate(comps)})
    pre = dict(A=A.tolist(), b=b.ravel().tolist(), x=x.ravel().tolist(), m=m, n=n)
    refused = None
    try:
        with np.errstate(all="ignore"):
            exec(compile(ast.fix_missing_locations(tail), "<tail of initialize_compartments>", "exec"), env)
    except am.BadInitialization as e:
        refused = str(e)[:200]
    except Exception as e:
        return dict(verdict="violates", detail="real code raised %s: %s" % (type(e).__name__, e), prestate=pre)
    tol = 1e-6
    prop = (A @ x).ravel()
    within = all(abs(prop[i] - b[i, 0]) <= tol * (1 + 1e-9) for i in range(m))
    nonneg = all(x[j, 0] >= -tol * (1 + 1e-9) for j in range(n))
    resid = float(np.sum((prop - b.ravel()) ** 2)) <= tol * (1 + 1e-9)
    if refused is not None:
        ok = not (within and nonneg and resid)
        return dict(verdict="holds" if ok else "violates", detail="refused (%s) although every quantity is within tolerance" % refused if not ok else "refused, and some quantity is out of tolerance", prestate=pre)
    sizes_ok = all(abs(float(comps[j].vals[0]) - max(0.0, x[j, 0])) <= 1e-12 for j in range(n))
    ok = within and nonneg and resid and sizes_ok
    pre["accepted_sizes"] = [float(c.vals[0]) for c in comps]
    return dict(verdict="holds" if ok else "violates",
                detail="accepted: within tolerance %s, non-negative %s, residual ok %s, sizes = max(0, x) %s" % (within, nonneg, resid, sizes_ok), prestate=pre)


for _c in CONTRACTS.values():
    _c["replay_hook"] = _replay


# ---- Characteristic structure (C07): the compartments a characteristic stands for (used to build the initialization equations) are its own
# compartments plus, recursively, those of the characteristics it includes, in order; making a characteristic dynamic makes every member
# and the denominator dynamic (their per-step values are needed in the same step); add_include / add_denom record what they are given
def _env_charac(it):
    from pyvc.interp import PyObjV
    from pyvc import source

    mm = source.load("model")
    comp = lambda n: PyObjV("Compartment", mm, {"id": ("pop", n), "DYN": []})
    a, b, c, d = comp("a"), comp("b"), comp("c"), comp("d")
    inner = PyObjV("Characteristic", mm, {"id": ("pop", "inner"), "includes": [b, c], "denominator": None, "_is_dynamic": False, "DYN": []})
    outer = PyObjV("Characteristic", mm, {"id": ("pop", "outer"), "includes": [a, inner], "denominator": d, "_is_dynamic": False, "units": "Number of people"})
    return {"self": outer, "A": a, "B": b, "C": c, "D": d, "INNER": inner, "x": PyObjV("Compartment", mm, {"id": ("pop", "new")})}


def _mark_dynamic(it, *a, **k):
    it.stub_receiver.fields["DYN"].append(True)


CONTRACTS["model:Characteristic.get_included_comps"] = dict(
    schema=schema, make_env=_env_charac, class_module="model",
    ensures=[("C07.a_characteristic_stands_for_its_compartments_and_those_of_the_characteristics_it_includes", "len(result) == 3 and result[0] is A and result[1] is B and result[2] is C")],
    defined_props=["C07"])
CONTRACTS["model:Characteristic.set_dynamic"] = dict(
    schema=schema, make_env=_env_charac, class_module="model", call_stubs={"inc.set_dynamic": _mark_dynamic, "self.denominator.set_dynamic": _mark_dynamic},
    ensures=[("C07.members_and_denominator_of_a_dynamic_characteristic_are_dynamic", "self._is_dynamic == True and A.DYN == [True] and INNER.DYN == [True] and D.DYN == [True]")],
    defined_props=["C07"])
CONTRACTS["model:Characteristic.add_include"] = dict(
    schema=schema, make_env=_env_charac, class_module="model",
    ensures=[("C07.the_new_member_is_appended", "len(self.includes) == 3 and self.includes[2] is x and self.includes[0] is A and self.includes[1] is INNER")], defined_props=["C07"])
CONTRACTS["model:Characteristic.add_denom"] = dict(
    schema=schema, make_env=_env_charac, class_module="model",
    ensures=[("C07.the_denominator_is_recorded_and_the_characteristic_becomes_dimensionless", "self.denominator is x and self.units == ''")], defined_props=["C07"])
