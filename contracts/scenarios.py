"""
Contract on a parameter-scenario overwrite (property C09: "a parameter-scenario overwrite whose first point is Y leaves every output
strictly before Y identical to the run without it"): the body of the loop over overwrites in scenarios.ParameterScenario.get_parset,
for one overwrite point (Y, v) on a simulation grid of three years.

The new time series holds, for every simulation year strictly before Y, the BASELINE value at that year -- par.interpolate with the
parameter's own interpolation, a ghost function here -- and nothing else before Y; the overwrite point is present; a parameter with a
function is not evaluated from Y on (skip window starts at Y).  Parameter.smooth() on the years >= Y is external (ghost, no effect on
earlier years assumed).
"""
import z3

schema = "covout"
CONTRACTS = {}
GRID = [2000.0, 2001.0, 2002.0]
BASE = z3.Function("baseline_value_at", z3.RealSort(), z3.RealSort())


def _make_env(it):
    from pyvc.interp import PyObjV, BuiltinV
    from pyvc.core import LArr, Opaque, to_real
    from pyvc import source

    um, pm = source.load("utils"), source.load("parameters")
    Y, v = z3.Real("Y"), z3.Real("v")
    ts = PyObjV("TimeSeries", um, {"t": [1990.0, 2010.0], "vals": [z3.Real("d0"), z3.Real("d1")], "units": "u", "assumption": None, "sigma": None, "_sampled": False})
    par = PyObjV("Parameter", pm, {"name": "par", "ts": {"pop": ts}, "skip_function": {"pop": None}, "y_factor": {"pop": 1.0}, "meta_y_factor": 1.0, "_interpolation_method": "linear"})
    self = PyObjV("ParameterScenario", source.load("scenarios"), {"name": "scen", "interpolation": "linear", "scenario_values": Opaque("scenario values")})
    return {"self": self, "PAR": par, "par_label": "par", "pop_specifier": "pop", "overwrite": {"t": LArr(1, lambda i: Y), "y": LArr(1, lambda i: v)},
            "tvec": LArr(len(GRID), it._list_reader(list(GRID))), "ts": ts, "Y": Y, "v": v, "project": Opaque("project"), "parset": Opaque("parset"), "new_parset": Opaque("new parset"),
            "baseline_at": BuiltinV("baseline_at", lambda it, x: BASE(to_real(x)))}


def _ghost_interpolate(it, times, pop):
    from pyvc.core import LArr, to_real

    rd, n = it.arr_reader(times), it.arr_len(times)
    return LArr(n, lambda i: BASE(to_real(rd(i))))


_before = lambda g: "implies(%r < Y, any(ts.t[i] == %r and ts.vals[i] == baseline_at(%r) for i in range(len(ts.t))))" % (g, g, g)
CONTRACTS["scenarios:ParameterScenario.get_parset#one_overwrite_point"] = dict(
    schema=schema, fragment={"iter": "self.scenario_values[par_label].items()"}, make_env=_make_env,
    ghost_params={"has_function": "bool", "NOTHING": "const:None"},
    stubs={"new_parset.get_par(par_label)": "PAR"},
    call_stubs={"par.interpolate": _ghost_interpolate, "par.smooth": (lambda it, *a, **k: None)},
    ensures=[
        ("C09.years_before_the_first_overwrite_keep_their_baseline_value", " and ".join(_before(g) for g in GRID)),
        ("C09.nothing_else_is_left_before_the_first_overwrite", "all(implies(ts.t[i] < Y, any(ts.t[i] == g and g < Y for g in [%s])) for i in range(len(ts.t)))" % ", ".join(repr(g) for g in GRID)),
        ("C09.the_overwrite_point_is_present", "any(ts.t[i] == Y and ts.vals[i] == v for i in range(len(ts.t)))"),
        ("C09.series_stays_aligned_and_sorted", "len(ts.t) == len(ts.vals) and all(ts.t[i] < ts.t[i + 1] for i in range(len(ts.t) - 1))"),
        ("C09.a_function_parameter_is_not_evaluated_from_the_first_overwrite_on", "implies(has_function, PAR.skip_function['pop'][0] == Y)"),
        ("C09.a_data_parameter_keeps_no_skip_window", "implies(not has_function, PAR.skip_function['pop'] is None)"),
    ],
    defined_props=["C09"])


def _replay(model, contract):
    """replay on REAL objects: a real parameters.Parameter holding a real TimeSeries with data in 1990 and 2010, the real statements of
    the loop body run for the overwrite point (Y, v) of the model; the years of the grid before Y must hold the baseline interpolation"""
    import ast
    import inspect
    import textwrap

    import numpy as np
    import atomica.parameters as apar
    import atomica.scenarios as asc
    import atomica.utils as au

    def val(t):
        x = model.eval(t, model_completion=True)
        try:
            return float(x.numerator_as_long()) / float(x.denominator_as_long())
        except Exception:
            x = x.approx(12)
            return float(x.numerator_as_long()) / float(x.denominator_as_long())

    Y, v, d0, d1 = val(z3.Real("Y")), val(z3.Real("v")), val(z3.Real("d0")), val(z3.Real("d1"))
    has_function = bool(z3.is_true(model.eval(z3.Bool("has_function"), model_completion=True)))
    variants = [("two data points, default interpolation", [1990.0, 2010.0], [d0, d1], None),
                ("three data points, the parameter's own interpolation method is pchip", [1990.0, 2001.5, 2010.0], [d0, d1 if d1 != d0 else d0 + 4.0, d0 + 1.0], "pchip")]
    results = [_replay_variant(Y, v, has_function, *var) for var in variants]
    worst = [r for r in results if r["verdict"] == "violates"] or results
    return worst[0]


def _replay_variant(Y, v, has_function, what, data_t, data_v, method):
    import ast
    import inspect
    import textwrap

    import numpy as np
    import atomica.parameters as apar
    import atomica.scenarios as asc
    import atomica.utils as au

    ts = au.TimeSeries(t=list(data_t), vals=list(data_v))
    par = apar.Parameter("par", {"pop": ts})
    if method is not None:
        par._interpolation_method = method
    tvec = np.array(GRID)
    baseline = {g: float(par.interpolate(np.array([g]), "pop")[0]) for g in GRID}
    scen = object.__new__(asc.ParameterScenario)
    scen.name, scen.interpolation, scen.scenario_values = "scen", "linear", {"par": {"pop": {"t": [Y], "y": [v]}}}

    class _PS:
        def get_par(self, name, pop=None):
            return par

    src = textwrap.dedent(inspect.getsource(asc.ParameterScenario.get_parset))
    loops = [x for x in ast.walk(ast.parse(src)) if isinstance(x, ast.For) and ast.unparse(x.iter) == "self.scenario_values[par_label].items()"]
    once = ast.For(target=ast.Name(id="_once", ctx=ast.Store()), iter=ast.List(elts=[ast.Constant(0)], ctx=ast.Load()), body=loops[0].body, orelse=[])
    env = dict(vars(asc))
    env.update(self=scen, new_parset=_PS(), par_label="par", pop_specifier="pop", overwrite={"t": [Y], "y": [v]}, tvec=tvec, has_function=has_function)
    pre = dict(variant=what, grid=GRID, data=dict(zip(map(str, data_t), data_v)), interpolation_method=method or "default", overwrite=[Y, v], has_function=has_function)
    try:
        exec(compile(ast.fix_missing_locations(ast.Module(body=[once], type_ignores=[])), "<overwrite loop of ParameterScenario.get_parset>", "exec"), env)
    except Exception as e:
        return dict(verdict="violates", detail="real code raised %s: %s" % (type(e).__name__, e), prestate=pre)
    new_ts = par.ts["pop"]
    got = dict(zip(new_ts.t, new_ts.vals))
    bad = []
    for g in GRID:
        if g < Y and (g not in got or abs(got[g] - baseline[g]) > 1e-9 * max(1.0, abs(baseline[g]))):
            bad.append("year %r (before the overwrite at %r) holds %r, baseline %r" % (g, Y, got.get(g), baseline[g]))
    for t in got:
        if t < Y and t not in [g for g in GRID if g < Y]:
            bad.append("an extra point at %r before the overwrite" % t)
    if Y not in got or abs(got[Y] - v) > 1e-9 * max(1.0, abs(v)):
        bad.append("the overwrite point (%r, %r) is missing (%r)" % (Y, v, got.get(Y)))
    sk = par.skip_function["pop"]
    if has_function and (sk is None or sk[0] != Y):
        bad.append("skip window %r does not start at the overwrite" % (sk,))
    if not has_function and sk is not None:
        bad.append("a data parameter got a skip window %r" % (sk,))
    pre["series_after"] = {str(k): x for k, x in got.items()}
    return dict(verdict="violates" if bad else "holds", detail="; ".join(bad) or "years before the overwrite hold the baseline values", prestate=pre)


for _c in CONTRACTS.values():
    _c["replay_hook"] = _replay


# ---- Parameter.smooth(tvec, method='linear'): the values at the requested years become the series' own interpolation there, points
# outside the requested span are kept -- and an EMPTY list of years (an overwrite that starts after the simulation ends) is a no-op
def _env_smooth(n):
    def make(it):
        from pyvc.interp import PyObjV
        from pyvc.core import LArr
        from pyvc import source

        um, pm = source.load("utils"), source.load("parameters")
        d0, d1 = z3.Real("d0"), z3.Real("d1")
        ts = PyObjV("TimeSeries", um, {"t": [1990.0, 2010.0], "vals": [d0, d1], "units": "u", "assumption": None, "sigma": None, "_sampled": False})
        par = PyObjV("Parameter", pm, {"name": "par", "ts": {"pop": ts}, "skip_function": {"pop": None}, "y_factor": {"pop": 1.0}, "meta_y_factor": 1.0, "_interpolation_method": "linear"})
        years = [2000.0, 2005.0][:n]
        return {"self": par, "tvec": LArr(n, it._list_reader(list(years))), "method": "linear", "pop_names": "pop", "kwargs": {}, "ts": ts, "d0": d0, "d1": d1}

    return make


for _n in (0, 1, 2):
    _years = [2000.0, 2005.0][:_n]
    _ens = [("C09.points_outside_the_requested_years_are_kept", "any(ts.t[i] == 1990.0 and ts.vals[i] == d0 for i in range(len(ts.t))) and any(ts.t[i] == 2010.0 and ts.vals[i] == d1 for i in range(len(ts.t)))"),
            ("C09.series_stays_aligned", "len(ts.t) == len(ts.vals) and len(ts.t) == %d" % (2 + _n))]
    for _y in _years:
        _ens.append(("C09.requested_year_%d_holds_the_interpolated_value" % int(_y), "any(ts.t[i] == %r and ts.vals[i] == d0 + (d1 - d0) * (%r - 1990.0) / 20.0 for i in range(len(ts.t)))" % (_y, _y)))
    CONTRACTS["parameters:Parameter.smooth#linear_%d_years" % _n] = dict(
        schema=schema, make_env=_env_smooth(_n), ensures=_ens, raises={}, raises_props=["C09"], defined_props=["C09"], n_years=_n)


def _replay_smooth(model, contract):
    """replay on a REAL parameters.Parameter with a real TimeSeries: smooth() for the stated list of years"""
    import numpy as np
    import atomica.parameters as apar
    import atomica.utils as au

    def val(name):
        x = model.eval(z3.Real(name), model_completion=True)
        try:
            return float(x.numerator_as_long()) / float(x.denominator_as_long())
        except Exception:
            x = x.approx(12)
            return float(x.numerator_as_long()) / float(x.denominator_as_long())

    d0, d1 = val("d0"), val("d1")
    years = [2000.0, 2005.0][:contract["n_years"]]
    par = apar.Parameter("par", {"pop": au.TimeSeries(t=[1990.0, 2010.0], vals=[d0, d1])})
    pre = dict(data={"1990": d0, "2010": d1}, years=years)
    try:
        par.smooth(np.array(years), method="linear", pop_names="pop")
    except Exception as e:
        return dict(verdict="violates", detail="the real Parameter.smooth(%r, method='linear') raised %s: %s" % (years, type(e).__name__, e), prestate=pre)
    got = dict(zip(par.ts["pop"].t, par.ts["pop"].vals))
    want = {1990.0: d0, 2010.0: d1}
    want.update({y: d0 + (d1 - d0) * (y - 1990.0) / 20.0 for y in years})
    ok = set(got) == set(want) and all(abs(got[k] - want[k]) <= 1e-9 * max(1.0, abs(want[k])) for k in want)
    return dict(verdict="holds" if ok else "violates", detail="series after smooth: %r, expected %r" % (got, want), prestate=pre)


for _k, _c in CONTRACTS.items():
    if "Parameter.smooth" in _k:
        _c["replay_hook"] = _replay_smooth


# ---- Scenario.run (C09): what is simulated is the scenario's OWN transformation of the named parameter set / program set together with the
# scenario's instructions -- nothing else reaches run_sim; a scenario with programs but without instructions is refused
def _env_run(with_progs, with_instr):
    def make(it):
        from pyvc.interp import PyObjV
        from pyvc.core import Opaque
        from pyvc import source

        sm = source.load("scenarios")
        self = PyObjV("Scenario", sm, {"name": "scen", "parsetname": "default", "progsetname": "progs" if with_progs else None})
        ps, pg = Opaque("the project's parameter set 'default'"), Opaque("the project's program set 'progs'")
        project = PyObjV("Project", source.load("project"), {"parsets": {"default": ps}, "progsets": {"progs": pg}})
        return {"self": self, "project": project, "parset": None, "progset": None, "store_results": True, "PS": ps, "PG": pg, "INSTR": Opaque("the scenario's instructions") if with_instr else None, "CALLS": []}

    return make


def _ghost_run_sim(it, **kw):
    it.live_env["CALLS"].append(kw)
    return ("result", kw.get("result_name"))


for _wp, _wi in ((False, False), (True, True), (True, False)):
    CONTRACTS["scenarios:Scenario.run#%s" % ("parameters_only" if not _wp else ("with_programs" if _wi else "programs_without_instructions"))] = dict(
        schema=schema, make_env=_env_run(_wp, _wi),
        call_stubs={"self.get_parset": (lambda it, ps, proj: ("scenario version of", ps)), "self.get_progset": (lambda it, pg, proj: None if pg is None else ("scenario version of", pg)),
                    "self.get_instructions": (lambda it, pg, proj: it.live_env["INSTR"]), "project.run_sim": _ghost_run_sim},
        raises=({"Exception": "True"} if (_wp and not _wi) else {}), raises_props=["C09"],
        ensures=[] if (_wp and not _wi) else [
            ("C09.the_scenarios_own_parameter_set_is_simulated_under_the_scenarios_name", "len(CALLS) == 1 and CALLS[0]['parset'] == ('scenario version of', PS) and CALLS[0]['result_name'] == 'scen' and result == ('result', 'scen')"),
            (("C09.with_the_scenarios_program_set_and_instructions", "CALLS[0]['progset'] == ('scenario version of', PG) and CALLS[0]['progset_instructions'] is INSTR") if _wp else
             ("C09.without_programs_nothing_program_related_is_passed", "'progset' not in CALLS[0] and 'progset_instructions' not in CALLS[0]")),
        ],
        defined_props=["C09"])


# ---- BudgetScenario / CoverageScenario.get_instructions (C09): the instructions carry the scenario's start year and its overwrites
def _env_budget(cls, field):
    def make(it):
        from pyvc.interp import PyObjV
        from pyvc.core import Opaque
        from pyvc import source

        S, Y = z3.Real("S"), z3.Real("Y")
        self = PyObjV(cls, source.load("scenarios"), {"name": "scen", "start_year": Y, field: {"prog": S}})
        return {"self": self, "progset": Opaque("progset"), "project": Opaque("project"), "S": S, "Y": Y}

    return make


for _cls, _field in (("BudgetScenario", "alloc"), ("CoverageScenario", "coverage")):
    CONTRACTS["scenarios:%s.get_instructions" % _cls] = dict(
        schema=schema, make_env=_env_budget(_cls, _field), concrete_new=["ProgramInstructions", "TimeSeries"],
        ensures=[("C09.programs_start_at_the_scenarios_start_year", "result.start_year == Y"),
                 ("C09+C11.the_scenarios_overwrite_is_in_force_from_the_start_year", "len(result.%s['prog'].t) == 1 and result.%s['prog'].t[0] == Y and result.%s['prog'].vals[0] == S" % (_field, _field, _field)),
                 ("C09.no_other_overwrite_is_introduced", " and ".join("len(result.%s) == %d" % (f, 1 if f == _field else 0) for f in ("alloc", "capacity", "coverage")))],
        defined_props=["C09", "C11"])


# ---- ParameterScenario.add (C09: a scenario changes what it names from the years it names): the overwrite is stored under its own (parameter, population), as copies
# of the years and values given; entries for other parameters and populations are left as they are; a second overwrite of the same pair replaces the first
def _env_add(existing):
    def make(it):
        import numpy as np
        from pyvc.interp import PyObjV
        from pyvc import source

        other = {"t": np.array([2010.0]), "y": np.array([1.0])}
        old = {"t": np.array([2000.0]), "y": np.array([9.0])}
        values = {"q": {"children": other}}
        if existing:
            values["p"] = {"adults": old, "children": other}
        T, Y = np.array([2020.0, 2025.0]), np.array([0.5, 0.25])
        return {"self": PyObjV("ParameterScenario", source.load("scenarios"), {"name": "scen", "scenario_values": values}), "par_name": "p", "pop_name": "adults", "t": T, "y": Y, "T": T, "Y": Y, "OTHER": other}

    return make


for _tag, _existing in (("new_entry", False), ("replacing_an_entry", True)):
    CONTRACTS["scenarios:ParameterScenario.add#%s" % _tag] = dict(
        schema=schema, make_env=_env_add(_existing),
        ensures=[("C09.the_overwrite_is_stored_under_its_own_parameter_and_population", "list(self.scenario_values['p']['adults']['t']) == [2020.0, 2025.0] and list(self.scenario_values['p']['adults']['y']) == [0.5, 0.25]"),
                 ("C09+C08.the_stored_years_and_values_are_copies", "self.scenario_values['p']['adults']['t'] is not T and self.scenario_values['p']['adults']['y'] is not Y"),
                 ("C09.other_overwrites_are_left_as_they_are", "self.scenario_values['q']['children'] is OTHER and len(self.scenario_values['q']) == 1 and len(self.scenario_values) == 2 and len(self.scenario_values['p']) == %d%s" % (2 if _existing else 1, " and self.scenario_values['p']['children'] is OTHER" if _existing else ""))],
        defined_props=["C09"])
CONTRACTS["scenarios:ParameterScenario.add#years_and_values_of_different_length"] = dict(
    schema=schema, make_env=lambda it: dict(_env_add(False)(it), y=[0.5]), raises={"AssertionError": "True"}, raises_props=["C09", "C18"], ensures=[], defined_props=["C09"])
