"""
excel.read_tables (properties C16, C18): a sheet is cut into tables at entirely empty rows; a row whose first cell starts with `#ignore` is skipped; a row with
`#ignore` after leading blank cells ends the current table like an empty row.  Every table returned has at least one row (every caller reads `table[0]`), and
its recorded start row is the spreadsheet row (counted from 1) of its first row.  The whole function is executed on sheets of concrete shape.
"""
schema = "covout"
CONTRACTS = {}


def _sheet(rows):
    def make(it):
        from pyvc.interp import PyObjV
        from pyvc import source

        em = source.load("excel")
        cell = lambda v: PyObjV("Cell", em, {"value": v, "data_type": ("s" if isinstance(v, str) else "n")})
        built = [[cell(v) for v in r] for r in rows]
        return {"worksheet": PyObjV("Worksheet", em, {"rows": built}), "ROWS": built}

    return make


_A, _B, _C, _D = ["alpha", 1.0], ["adults", 2.0], ["beta", None, 3.0], ["children", 4.0]
_BLANK, _SKIP, _NOTE = [None, None], ["#ignore this row", 5.0], [None, "#ignore a note"]
for _tag, _rows, _tables, _starts in (
        ("two_tables_separated_by_an_empty_row", [_A, _B, _BLANK, _C, _D], [[0, 1], [3, 4]], [1, 4]),
        ("several_empty_rows_between_and_around_tables", [_BLANK, _A, _BLANK, _BLANK, _C, _BLANK], [[1], [4]], [2, 5]),
        ("a_row_ignored_from_its_first_cell_is_skipped_inside_a_table", [_A, _SKIP, _B], [[0, 2]], [1]),
        ("a_note_after_blank_cells_ends_the_table", [_A, _B, _NOTE, _C], [[0, 1], [3]], [1, 4]),
        ("a_note_after_blank_cells_between_tables_starts_no_table", [_A, _BLANK, _NOTE, _C], [[0], [3]], [1, 4]),
        ("a_note_after_blank_cells_at_the_top_of_the_sheet_starts_no_table", [_NOTE, _A, _B], [[1, 2]], [2]),
        ("an_empty_sheet_has_no_tables", [_BLANK, _BLANK], [], [])):
    CONTRACTS["excel:read_tables#%s" % _tag] = dict(
        schema=schema, make_env=_sheet(_rows),
        ensures=[("C16+C18.every_table_has_at_least_one_row", "all(len(t) >= 1 for t in result[0])"),
                 ("C16+C18.the_tables_are_the_blocks_of_rows_between_empty_rows", "len(result[0]) == %d and " % len(_tables) + " and ".join(
                     "len(result[0][%d]) == %d and %s" % (i, len(t), " and ".join("result[0][%d][%d] is ROWS[%d]" % (i, j, r) for j, r in enumerate(t))) for i, t in enumerate(_tables)) if _tables else "len(result[0]) == 0"),
                 ("C16+C18.each_start_row_is_the_spreadsheet_row_of_the_tables_first_row", "result[1] == %r" % (_starts,))],
        defined_props=["C16", "C18"])
