"""
excel.read_tables (properties C16, C18): a sheet is cut into tables at entirely empty rows; a row whose first cell starts with `#ignore` is skipped; a row with
`#ignore` after leading blank cells ends the current table like an empty row.  Every table returned has at least one row (every caller reads `table[0]`), and
its recorded start row is the spreadsheet row (counted from 1) of its first row.  The whole function is executed on sheets of concrete shape.
"""
schema = "covout"
CONTRACTS = {}


def _sheet(rows):
    def make(it):
        from pyvc.interp import PyObjV
        from pyvc import source

        em = source.load("excel")
        cell = lambda v: PyObjV("Cell", em, {"value": v, "data_type": ("s" if isinstance(v, str) else "n")})
        built = [[cell(v) for v in r] for r in rows]
        return {"worksheet": PyObjV("Worksheet", em, {"rows": built}), "ROWS": built}

    return make


_A, _B, _C, _D = ["alpha", 1.0], ["adults", 2.0], ["beta", None, 3.0], ["children", 4.0]
_BLANK, _SKIP, _NOTE = [None, None], ["#ignore this row", 5.0], [None, "#ignore a note"]
for _tag, _rows, _tables, _starts in (
        ("two_tables_separated_by_an_empty_row", [_A, _B, _BLANK, _C, _D], [[0, 1], [3, 4]], [1, 4]),
        ("several_empty_rows_between_and_around_tables", [_BLANK, _A, _BLANK, _BLANK, _C, _BLANK], [[1], [4]], [2, 5]),
        ("a_row_ignored_from_its_first_cell_is_skipped_inside_a_table", [_A, _SKIP, _B], [[0, 2]], [1]),
        ("a_note_after_blank_cells_ends_the_table", [_A, _B, _NOTE, _C], [[0, 1], [3]], [1, 4]),
        ("a_note_after_blank_cells_between_tables_starts_no_table", [_A, _BLANK, _NOTE, _C], [[0], [3]], [1, 4]),
        ("a_note_after_blank_cells_at_the_top_of_the_sheet_starts_no_table", [_NOTE, _A, _B], [[1, 2]], [2]),
        ("an_empty_sheet_has_no_tables", [_BLANK, _BLANK], [], [])):
    CONTRACTS["excel:read_tables#%s" % _tag] = dict(
        schema=schema, make_env=_sheet(_rows),
        ensures=[("C16+C18.every_table_has_at_least_one_row", "all(len(t) >= 1 for t in result[0])"),
                 ("C16+C18.the_tables_are_the_blocks_of_rows_between_empty_rows", "len(result[0]) == %d and " % len(_tables) + " and ".join(
                     "len(result[0][%d]) == %d and %s" % (i, len(t), " and ".join("result[0][%d][%d] is ROWS[%d]" % (i, j, r) for j, r in enumerate(t))) for i, t in enumerate(_tables)) if _tables else "len(result[0]) == 0"),
                 ("C16+C18.each_start_row_is_the_spreadsheet_row_of_the_tables_first_row", "result[1] == %r" % (_starts,))],
        defined_props=["C16", "C18"])


# ---- excel.cell_get_number / cell_get_string (C16, C18): what a cell means.  A numeric cell is its number; an empty cell, `N.A.` in any case and a cell of dashes
# mean "no value"; any other text where a number is expected is refused.  A text cell is its stripped text; an empty cell is refused unless allowed.
def _cell(value, data_type):
    def make(it):
        import z3
        from pyvc.interp import PyObjV
        from pyvc import source

        V = z3.Real("cell_number")
        return {"cell": PyObjV("Cell", source.load("excel"), {"value": V if value == "number" else value, "data_type": data_type, "coordinate": "B7"}), "V": V}

    return make


for _tag, _value, _dt, _want in (("a_number", "number", "n", "result == V"), ("an_empty_cell", None, "n", "result is None"), ("not_applicable", " N.A. ", "s", "result is None"), ("not_applicable_lower_case", "n.a.", "s", "result is None"),
                                 ("dashes", " -- ", "s", "result is None"), ("blanks_only", "   ", "s", "result is None")):
    CONTRACTS["excel:cell_get_number#%s" % _tag] = dict(schema=schema, make_env=_cell(_value, _dt), call_stubs={"dtype": (lambda it, v: v)},
                                                        ensures=[("C16+C18.a_cell_means_its_number_or_no_value", _want)], defined_props=["C16", "C18"])
for _tag, _value, _dt in (("text_where_a_number_is_expected", "about 5", "s"), ("a_formula_error_or_other_cell_type", "#DIV/0!", "e"), ("a_boolean_cell", True, "b")):
    CONTRACTS["excel:cell_get_number#%s" % _tag] = dict(schema=schema, make_env=_cell(_value, _dt), call_stubs={"dtype": (lambda it, v: v)}, raises={"Exception": "True"}, raises_props=["C18"], ensures=[], defined_props=["C16", "C18"])
_iss = {"sc.isstring": (lambda it, v: isinstance(v, str))}
for _tag, _value, _allow, _want in (("text", "  Adults ", False, "result == 'Adults'"), ("an_empty_cell_where_allowed", None, True, "result is None")):
    CONTRACTS["excel:cell_get_string#%s" % _tag] = dict(schema=schema, make_env=(lambda v, a: (lambda it: dict(_cell(v, "s")(it), allow_empty=a)))(_value, _allow), call_stubs=_iss,
                                                        ensures=[("C16+C18.a_text_cell_means_its_stripped_text", _want)], defined_props=["C16", "C18"])
for _tag, _value, _allow in (("an_empty_cell_where_text_is_required", None, False), ("a_number_where_text_is_required", 5.0, False), ("a_number_where_text_or_nothing_is_allowed", 5.0, True)):
    CONTRACTS["excel:cell_get_string#%s" % _tag] = dict(schema=schema, make_env=(lambda v, a: (lambda it: dict(_cell(v, "n")(it), allow_empty=a)))(_value, _allow), call_stubs=_iss,
                                                        raises={"Exception": "True"}, raises_props=["C18"], ensures=[], defined_props=["C16", "C18"])


# ---- the population sheet of a databook, one row read (body of the row loop of ProjectData._read_pops) and one row written (body of the loop of _write_pops): a
# population is listed under its stripped code name with its stripped label and its population type (none when the cell is blank or the column is absent); a code
# name or label of one character, or a reserved word as code name, is refused; the writer puts code name, label and type into the three columns the reader reads
def _env_pop_row(values):
    def make(it):
        from pyvc.interp import PyObjV
        from pyvc import source

        em = source.load("excel")
        row = [PyObjV("Cell", em, {"value": v, "data_type": ("s" if isinstance(v, str) else "n"), "coordinate": "A2"}) for v in values]
        return {"self": PyObjV("ProjectData", source.load("data"), {"pops": {"old": {"label": "Old", "type": None}}}), "row": row}

    return make


for _tag, _vals, _want in (("with_a_population_type", (" adults ", " Adults 15+ ", " hum "), {"label": "Adults 15+", "type": "hum"}), ("blank_population_type", ("adults", "Adults 15+", None), {"label": "Adults 15+", "type": None}),
                           ("no_population_type_column", ("adults", "Adults 15+"), {"label": "Adults 15+", "type": None})):
    CONTRACTS["data:ProjectData._read_pops#row_%s" % _tag] = dict(
        schema=schema, fragment={"iter": "tables[0][1:]"}, make_env=_env_pop_row(_vals), call_stubs=_iss,
        ensures=[("C16.the_population_is_listed_under_its_stripped_code_name_with_label_and_type", "self.pops['adults'] == %r and len(self.pops) == 2 and self.pops['old'] == {'label': 'Old', 'type': None}" % (_want,))], defined_props=["C16", "C18"])
for _tag, _vals, _exc in (("code_name_of_one_character", ("a", "Adults"), "AssertionError"), ("label_of_one_character", ("adults", "A"), "AssertionError"), ("reserved_code_name", ("All", "Everybody"), "Exception"),
                          ("code_name_missing", (None, "Adults"), "Exception")):
    CONTRACTS["data:ProjectData._read_pops#row_%s" % _tag] = dict(
        schema=schema, fragment={"iter": "tables[0][1:]"}, make_env=_env_pop_row(_vals), call_stubs=_iss, raises={_exc: "True"}, raises_props=["C18"], ensures=[], defined_props=["C16", "C18"])


def _env_pop_write(it):
    from pyvc.interp import PyObjV
    from pyvc.core import Opaque
    from pyvc import source

    dm = source.load("data")
    return {"self": PyObjV("ProjectData", dm, {"pops": {"adults": {"label": "Adults 15+", "type": "hum"}}, "_references": {}, "_formats": Opaque("formats")}), "name": "adults", "content": {"label": "Adults 15+", "type": "hum"},
            "current_row": 0, "widths": {}, "sheet": PyObjV("Worksheet", dm, {"CELLS": {}, "name": "Population Definitions"})}


def _rec(it, row, col, value=None, *a, **k):
    it.stub_receiver.fields["CELLS"][(row, col)] = value


CONTRACTS["data:ProjectData._write_pops#one_population"] = dict(
    schema=schema, fragment={"iter": "self.pops.items()"}, make_env=_env_pop_write, call_stubs={"sheet.write": _rec, "update_widths": (lambda it, *a, **k: None), "xlrc": (lambda it, *a, **k: "$A$2")},
    ensures=[("C16.code_name_label_and_type_go_into_the_three_columns_the_reader_reads", "sheet.CELLS[1, 0] == 'adults' and sheet.CELLS[1, 1] == 'Adults 15+' and sheet.CELLS[1, 2] == 'hum' and len(sheet.CELLS) == 3 and current_row == 1")],
    defined_props=["C16"])


# ---- the transfers / interactions sheet of a databook as a whole (ProjectData._read_transfers / _read_interpops): the tables of the sheet are taken three at a time, in order,
# each triple becomes one transfer / interaction of the right kind; a number of tables that is no multiple of three and a repeated code name are refused
def _env_read_tdcs(n_tables, names):
    def make(it):
        from pyvc.interp import PyObjV
        from pyvc import source

        return {"self": PyObjV("ProjectData", source.load("data"), {"transfers": ["stale"], "interpops": ["stale"]}), "sheet": "SHEET", "TABLES": ["table %d" % i for i in range(n_tables)], "NAMES": list(names), "CALLS": []}

    return make


def _ghost_read_tables(it, sheet):
    return it.live_env["TABLES"], list(range(len(it.live_env["TABLES"])))


def _ghost_from_tables(it, tables, kind):
    from pyvc.interp import PyObjV
    from pyvc import source

    calls = it.live_env["CALLS"]
    calls.append((list(tables), kind))
    return PyObjV("TimeDependentConnections", source.load("excel"), {"code_name": it.live_env["NAMES"][len(calls) - 1], "TABLES": list(tables)})


_tdc_sheet_stubs = {"read_tables": _ghost_read_tables, "TimeDependentConnections.from_tables": _ghost_from_tables}
for _fn, _field, _kind in (("_read_transfers", "transfers", "transfer"), ("_read_interpops", "interpops", "interaction")):
    CONTRACTS["data:ProjectData.%s#two_tables_of_three" % _fn] = dict(
        schema=schema, make_env=_env_read_tdcs(6, ("age", "mig")), call_stubs=_tdc_sheet_stubs,
        ensures=[("C16.each_consecutive_triple_of_tables_becomes_one_%s_in_order" % _kind,
                  "len(self.%s) == 2 and self.%s[0].code_name == 'age' and self.%s[1].code_name == 'mig' and CALLS[0] == (['table 0', 'table 1', 'table 2'], %r) and CALLS[1] == (['table 3', 'table 4', 'table 5'], %r) and len(CALLS) == 2" % (_field, _field, _field, _kind, _kind))],
        defined_props=["C16", "C18"])
    CONTRACTS["data:ProjectData.%s#empty_sheet" % _fn] = dict(
        schema=schema, make_env=_env_read_tdcs(0, ()), call_stubs=_tdc_sheet_stubs, ensures=[("C16.a_sheet_without_tables_gives_none", "self.%s == [] and len(CALLS) == 0" % _field)], defined_props=["C16"])
    CONTRACTS["data:ProjectData.%s#tables_not_in_threes" % _fn] = dict(
        schema=schema, make_env=_env_read_tdcs(5, ("age", "mig")), call_stubs=_tdc_sheet_stubs, raises={"AssertionError": "True"}, raises_props=["C18"], ensures=[], defined_props=["C16", "C18"])
    CONTRACTS["data:ProjectData.%s#repeated_code_name" % _fn] = dict(
        schema=schema, make_env=_env_read_tdcs(6, ("age", "age")), call_stubs=_tdc_sheet_stubs, raises={"Exception": "True"}, raises_props=["C18"], ensures=[], defined_props=["C16", "C18"])
