"""
Contract on the row loop of parameters.ParameterSet.load_calibration (property C16: "Loading a calibration skips entries it does not
know and keeps existing values for entries that are missing"; also C18): the body of

    for (par_name, pop_name), values in df.to_dict(orient="index").items():

for ONE spreadsheet row holding a meta factor M and a population factor V (each possibly blank), executed in a state where `par`
still names the parameter of the PREVIOUS row.  `self.get_par` is a ghost collaborator: it returns the parameter PAR when the
ghost Boolean KNOWN holds and raises KeyError otherwise (that is get_par's documented behaviour; its body is not verified here).

 - unknown entry: no parameter is changed -- in particular not the one left over from the previous row;
 - known entry: a value that is present replaces the existing one, a blank keeps the existing one; the previous row's parameter is
   not touched.
"""
import z3

schema = "covout"
CONTRACTS = {}


def _make_env(it):
    from pyvc.interp import PyObjV
    from pyvc.core import Opaque
    from pyvc import source

    pm = source.load("parameters")
    M, V = z3.Real("M"), z3.Real("V")
    m_prev, y_prev, m_par, y_par = z3.Real("m_prev"), z3.Real("y_prev"), z3.Real("m_par"), z3.Real("y_par")
    prev = PyObjV("Parameter", pm, {"name": "previous", "y_factor": {"pop": y_prev}, "meta_y_factor": m_prev})
    par = PyObjV("Parameter", pm, {"name": "p", "y_factor": {"pop": y_par}, "meta_y_factor": m_par})
    self = PyObjV("ParameterSet", pm, {"name": "parset"})
    return {"self": self, "par": prev, "PREV": prev, "PAR": par, "par_name": "p", "pop_name": "pop", "values": {"meta_y_factor": M, "pop": V},
            "M": M, "V": V, "m_prev": m_prev, "y_prev": y_prev, "m_par": m_par, "y_par": y_par, "excelfile": Opaque("excel file")}


def _ghost_get_par(it, name, pop=None):
    from pyvc.interp import _Raise

    if it.branch(it.ghost_env["KNOWN"]):
        return it.ghost_env["PAR"]
    raise _Raise("KeyError")


def _ghost_isna(it, v):
    return it.ghost_env["M_BLANK"] if v is it.ghost_env["M"] else it.ghost_env["V_BLANK"]


def _replay(model, contract):
    """replay END TO END on the udt demo project: the calibration of a parameter set that has one extra parameter is written to a
    spreadsheet and loaded into a fresh parameter set; every y-factor of the receiving set that the file also holds must read back
    as written, and nothing else may change"""
    import logging
    import warnings

    import sciris as sc
    import atomica as at

    warnings.filterwarnings("ignore")
    at.logger.setLevel(logging.ERROR)
    P = at.demo("udt", do_run=False)
    src = P.parsets[0].copy()
    k = 0
    for par in src.all_pars():
        k += 1
        par.meta_y_factor = 1 - k / 64
        for pop in par.y_factor:
            par.y_factor[pop] = 1 - k / 128
    extra = sc.dcp(list(src.pars.values())[0])
    extra.name = "not_in_the_receiver"
    extra.meta_y_factor = 7.0
    for pop in extra.y_factor:
        extra.y_factor[pop] = 9.0
    new = sc.odict()                                       # the unknown entry goes in the middle of the sheet
    names = list(src.pars.keys())
    for i, n in enumerate(names):
        new[n] = src.pars[n]
        if i == len(names) // 2:
            new[extra.name] = extra
    src.pars = new
    sheet = src.calibration_spreadsheet()                   # an in-memory sc.Spreadsheet
    dst = P.parsets[0].copy()
    raised = None
    try:
        dst.load_calibration(sheet)
    except Exception as e:  # noqa
        raised = "%s: %s" % (type(e).__name__, e)
    bad = []
    if raised is None:
        for par in dst.all_pars():
            want = [q for q in src.all_pars() if q.name == par.name and type(q) is type(par) and getattr(q, "pop", None) == getattr(par, "pop", None)]
            if not want:
                continue
            q = want[0]
            if par.meta_y_factor != q.meta_y_factor:
                bad.append("%s: meta y-factor reads back %r, written %r" % (par.name, par.meta_y_factor, q.meta_y_factor))
            for pop in par.y_factor:
                if pop in q.y_factor and par.y_factor[pop] != q.y_factor[pop]:
                    bad.append("%s/%s: y-factor reads back %r, written %r" % (par.name, pop, par.y_factor[pop], q.y_factor[pop]))
    pre = dict(project="udt", unknown_entry="not_in_the_receiver (meta 7.0, population factors 9.0), placed in the middle of the Y-factors sheet")
    return dict(verdict="violates" if (bad or raised) else "holds", raised=raised,
                detail=("raised " + raised) if raised else ("; ".join(bad[:3]) if bad else "every known entry reads back as written, the unknown entry is skipped"), prestate=pre)


CONTRACTS["parameters:ParameterSet.load_calibration#one_row"] = dict(
    schema=schema, fragment={"iter": "df.to_dict(orient='index').items()"}, make_env=_make_env, replay_hook=_replay,
    ghost_params={"KNOWN": "bool", "M_BLANK": "bool", "V_BLANK": "bool"},
    call_stubs={"self.get_par": _ghost_get_par, "pd.isna": _ghost_isna, "logger.debug": (lambda it, *a, **k: None)},
    ensures=[
        ("C16+C18.an_unknown_entry_changes_no_parameter", "implies(not KNOWN, PREV.meta_y_factor == m_prev and PREV.y_factor['pop'] == y_prev and PAR.meta_y_factor == m_par and PAR.y_factor['pop'] == y_par)"),
        ("C16.a_known_entry_takes_the_values_that_are_present", "implies(KNOWN, PAR.meta_y_factor == (m_par if M_BLANK else M) and PAR.y_factor['pop'] == (y_par if V_BLANK else V))"),
        ("C16.a_known_entry_leaves_the_previous_row_alone", "implies(KNOWN, PREV.meta_y_factor == m_prev and PREV.y_factor['pop'] == y_prev)"),
    ],
    defined_props=["C16", "C18"])


# ---- ParameterSet.get_par (the collaborator load_calibration relies on; C16 / C18): an ordinary parameter by name, a transfer / interaction
# by name and source population; a name or source population the set does not have is reported with KeyError (what load_calibration
# catches), a population given for an ordinary parameter or omitted for a transfer with AssertionError
def _env_get_par(name, pop):
    def make(it):
        from pyvc.interp import PyObjV
        from pyvc import source

        pm = source.load("parameters")
        mk = lambda n: PyObjV("Parameter", pm, {"name": n})
        p, tr, ia = mk("p"), mk("age from children"), mk("w from adults")
        self = PyObjV("ParameterSet", pm, {"name": "ps", "pars": {"p": p}, "transfers": {"age": {"children": tr}}, "interactions": {"w": {"adults": ia}}})
        return {"self": self, "name": name, "pop": pop, "P": p, "TR": tr, "IA": ia}

    return make


for _tag, _name, _pop, _res, _exc in (
        ("ordinary_parameter", "p", None, "P", None), ("ordinary_parameter_with_a_population", "p", "adults", None, "AssertionError"),
        ("transfer", "age", "children", "TR", None), ("transfer_from_an_unknown_population", "age", "adults", None, "KeyError"), ("transfer_without_population", "age", None, None, "AssertionError"),
        ("interaction", "w", "adults", "IA", None), ("interaction_from_an_unknown_population", "w", "children", None, "KeyError"), ("unknown_name", "q", None, None, "KeyError")):
    CONTRACTS["parameters:ParameterSet.get_par#%s" % _tag] = dict(
        schema=schema, make_env=_env_get_par(_name, _pop), call_stubs={"pd.isna": (lambda it, v: v is None)},
        raises=({_exc: "True"} if _exc else {}), raises_props=["C16", "C18"],
        ensures=[] if _exc else [("C16.the_entry_of_that_name_and_source_population", "result is %s" % _res)],
        defined_props=["C16", "C18"])


# ---- parameters.Parameter.__init__ (C06 / C16): a new parameter starts with calibration factor 1 for every population it has data for and for all
# populations, no skip window, and linear interpolation
def _env_par_init(it):
    from pyvc.interp import PyObjV
    from pyvc.core import Opaque
    from pyvc import source

    ts = {"adults": Opaque("series adults"), "children": Opaque("series children")}
    return {"self": PyObjV("Parameter", source.load("parameters"), {}), "name": "p", "ts": ts, "TS": ts}


CONTRACTS["parameters:Parameter.__init__"] = dict(
    schema=schema, make_env=_env_par_init, call_stubs={"NamedItem.__init__": (lambda it, obj, name: obj.fields.__setitem__("name", name))},
    ensures=[("C06+C16.a_new_parameter_is_uncalibrated", "self.y_factor == {'adults': 1.0, 'children': 1.0} and self.meta_y_factor == 1.0 and self.skip_function == {'adults': None, 'children': None}"),
             ("C06.it_interpolates_linearly_and_holds_the_series_given", "self._interpolation_method == 'linear' and self.ts is TS and self.name == 'p'")],
    defined_props=["C06", "C16"])


# ---- ParameterSet.__init__, which databook row a population gets (C06 "the databook series", C16): its own row, else the row entered for `all` (or
# `All`), else nothing -- always as a COPY of the databook's series
def _env_parset_row(rows):
    def make(it):
        from pyvc.interp import PyObjV
        from pyvc import source

        um, pm = source.load("utils"), source.load("parameters")
        mk = lambda n: PyObjV("TimeSeries", um, {"t": [], "vals": [], "units": "u", "assumption": z3.Real("value_" + n), "sigma": None, "_sampled": False})
        ts_rows = {r: mk(r) for r in rows}
        tdve = PyObjV("TimeDependentValuesEntry", source.load("excel"), {"name": "q", "ts": ts_rows})
        return {"self": PyObjV("ParameterSet", pm, {"name": "ps", "pop_names": ["adults"]}), "k": "adults", "tdve": tdve, "ts": {}, "ROWS": ts_rows}

    return make


for _tag, _rows, _src in (("own_row", ("adults", "all"), "adults"), ("all_row", ("children", "all"), "all"), ("capitalised_all_row", ("children", "All"), "All"), ("no_row", ("children",), None)):
    CONTRACTS["parameters:ParameterSet.__init__#series_of_one_population_%s" % _tag] = dict(
        schema=schema, fragment={"iter": "self.pop_names", "body_contains": "tdve.ts[k].copy()"}, make_env=_env_parset_row(_rows),
        ensures=[("C06+C16.a_population_gets_a_copy_of_its_own_row_else_of_the_all_row",
                  ("'adults' in ts and ts['adults'] is not ROWS[%r] and ts['adults'].assumption == ROWS[%r].assumption and len(ts) == 1" % (_src, _src)) if _src else "len(ts) == 0")],
        defined_props=["C06", "C16"])
import z3  # noqa: E402


# ---- ParameterSet.__init__, quantities that are not in the databook but have a default value (C16: "same content ... unit"): the series built for them
# carry the default value and the units OF THAT QUANTITY, one per population of the quantity's population type
def _env_default_value(it):
    from pyvc.interp import PyObjV
    from pyvc.core import Opaque
    from pyvc import source

    pm = source.load("parameters")
    self = PyObjV("ParameterSet", pm, {"name": "ps", "pop_names": ["adults", "mosquitoes"], "pars": {"last_databook_quantity": Opaque("a parameter read from the databook")}})
    data = PyObjV("ProjectData", source.load("data"), {"pops": {"adults": {"label": "Adults", "type": "hum"}, "mosquitoes": {"label": "Mosquitoes", "type": "mos"}}})
    # `name` is the variable of the PREVIOUS loop of the constructor (the last quantity read from the databook)
    return {"self": self, "data": data, "framework": PyObjV("ProjectFramework", source.load("framework"), {"name": "fw"}), "spec": Opaque("framework row"), "name": "last_databook_quantity", "_": 0, "ASKED": [], "BUILT": []}


def _ghost_units(it, code_name):
    it.live_env["ASKED"].append(code_name)
    return "Units Of " + code_name + " "


def _ghost_ts(it, units=None, assumption=None, **k):
    it.live_env["BUILT"].append((units, assumption))
    return ("series", units, assumption)


def _ghost_parameter(it, name, ts):
    return ("parameter", name, dict(ts))


def _replay_default_value(model, contract):
    """replay on the tb_simple framework with one characteristic taken out of the databook and given the default value 0: the series the parameter
    set builds for it must carry the compartment's own databook units"""
    import logging
    import warnings

    import atomica as at

    warnings.filterwarnings("ignore")
    at.logger.setLevel(logging.ERROR)
    P = at.demo("tb_simple", do_run=False)
    F, D = P.framework, P.data
    comp = [c for c in F.characs.index if c in D.tdve][-1]     # (a characteristic: the udt databook holds no compartment table)
    F.characs.at[comp, "databook page"] = None
    F.characs.at[comp, "default value"] = 0.0
    F.characs.at[comp, "setup weight"] = 0.0
    del D.tdve[comp]
    for page in D.tdve_pages.values():
        if comp in page:
            page.remove(comp)
    want = F.get_databook_units(comp).strip().lower()
    other = [k for k in D.tdve.keys() if F.get_databook_units(k).strip().lower() != want]
    if other:                                           # a table with other units is read last from the databook
        tdve = D.tdve.pop(other[0])
        D.tdve[other[0]] = tdve
    pre = dict(framework="tb_simple", quantity=comp, default_value=0.0, its_units=want, last_databook_quantity=list(D.tdve.keys())[-1])
    try:
        ps = at.ParameterSet(F, D, "x")
    except Exception as e:  # noqa
        return dict(verdict="violates", raised=type(e).__name__, detail="building the parameter set raised %s: %s" % (type(e).__name__, e), prestate=pre)
    got = {pop: ts.units for pop, ts in ps.pars[comp].ts.items()}
    bad = {pop: u for pop, u in got.items() if u != want}
    return dict(verdict="violates" if bad else "holds", detail=("the default-valued quantity %r gets units %r, its own units are %r" % (comp, sorted(set(bad.values())), want)) if bad else "the series carry the quantity's own units", prestate=pre)


CONTRACTS["parameters:ParameterSet.__init__#default_valued_quantity"] = dict(
    schema=schema, fragment={"iter": "itertools.chain(framework.comps.iterrows(), framework.characs.iterrows())"}, make_env=_env_default_value, replay_hook=_replay_default_value,
    ghost_params={"DEFAULT": "real"},
    stubs={"pd.isna(spec['databook page'])": "TRUE", "pd.isna(spec['default value'])": "FALSE", "spec.name": "CODE", "spec['default value']": "DEFAULT", "spec['population type']": "TYPE"},
    call_stubs={"framework.get_databook_units": _ghost_units, "TimeSeries": _ghost_ts, "Parameter": _ghost_parameter},
    ensures=[("C16.the_series_carry_the_units_of_that_quantity", "ASKED == ['q'] and all(b[0] == 'units of q' for b in BUILT)"),
             ("C16+C06.one_series_with_the_default_value_per_population_of_the_quantitys_type", "self.pars['q'] == ('parameter', 'q', {'adults': ('series', BUILT[0][0], DEFAULT)}) and len(BUILT) == 1")],
    defined_props=["C16", "C06"])
CONTRACTS["parameters:ParameterSet.__init__#default_valued_quantity"]["ghost_params"].update({"TRUE": "const:True", "FALSE": "const:False", "CODE": "const:'q'", "TYPE": "const:'hum'"})


# ---- parameters.Parameter.has_values / interpolate (C06: what the model is built from): a population has values exactly when it has a series with data; interpolation is that
# population's series interpolated at the requested times with the parameter's own interpolation method (linear unless changed)
def _env_hv(pop, with_data):
    def make(it):
        from pyvc.interp import PyObjV
        from pyvc import source

        um = source.load("utils")
        ts = PyObjV("TimeSeries", um, {"t": [2020.0] if with_data else [], "vals": [1.0] if with_data else [], "assumption": None, "sigma": None, "units": "x", "_sampled": False, "CALLS": []})
        return {"self": PyObjV("Parameter", source.load("parameters"), {"name": "par", "ts": {"adults": ts}, "_interpolation_method": "linear"}), "pop_name": pop, "tvec": "TIMES", "TS": ts}

    return make


for _tag, _pop, _data, _want in (("series_with_data", "adults", True, True), ("series_without_data", "adults", False, False), ("no_series_for_the_population", "children", True, False)):
    CONTRACTS["parameters:Parameter.has_values#%s" % _tag] = dict(
        schema=schema, make_env=_env_hv(_pop, _data), ensures=[("C06.a_population_has_values_exactly_when_it_has_a_series_with_data", "result is %r" % _want)], defined_props=["C06"])


def _ghost_interp(it, t2, method="linear", **k):
    it.stub_receiver.fields["CALLS"].append((t2, method))
    return "VALUES"


CONTRACTS["parameters:Parameter.interpolate"] = dict(
    schema=schema, make_env=_env_hv("adults", True), call_stubs={"self.ts[pop_name].interpolate": _ghost_interp},
    ensures=[("C06.the_populations_own_series_is_interpolated_at_the_requested_times_with_the_parameters_method", "result == 'VALUES' and TS.CALLS == [('TIMES', 'linear')]")], defined_props=["C06"])


# ---- ParameterSet.y_factors (C16: the calibration sheet is this view written out; C15): one entry per quantity, keyed (name, None), holding the all-population factor and every
# population's factor; one entry per (transfer / interaction, population pair) holding the same for its parameter
def _env_yf(it):
    import z3
    from pyvc.interp import PyObjV
    from pyvc import source

    pm = source.load("parameters")
    m, a, c, tm, ta = (z3.Real(n) for n in ("meta", "f_adults", "f_children", "t_meta", "t_adults"))
    par = PyObjV("Parameter", pm, {"name": "q", "meta_y_factor": m, "y_factor": {"adults": a, "children": c}})
    tpar = PyObjV("Parameter", pm, {"name": "age_from_adults", "meta_y_factor": tm, "y_factor": {"children": ta}})
    self = PyObjV("ParameterSet", pm, {"name": "ps", "pars": {"q": par}, "interactions": {}, "transfers": {"age": {"adults": tpar}}})
    return {"self": self, "meta": m, "f_adults": a, "f_children": c, "t_meta": tm, "t_adults": ta, "TDC_ITEMS": [("age", {"adults": tpar})]}


CONTRACTS["parameters:ParameterSet.y_factors"] = dict(
    schema=schema, make_env=_env_yf, call_stubs={"sc.mergedicts": (lambda it, *ds: {k: v for d in ds for k, v in d.items()})},
    stubs={"self.interactions.items() + self.transfers.items()": "TDC_ITEMS"}, ghost_params={},
    ensures=[("C16+C15.every_quantity_has_one_entry_with_its_all_population_factor_and_each_populations_factor", "result['q', None] == {'meta_y_factor': meta, 'adults': f_adults, 'children': f_children}"),
             ("C16+C15.every_transfer_parameter_has_one_entry_keyed_by_transfer_and_population", "result['age', 'adults'] == {'meta_y_factor': t_meta, 'children': t_adults} and len(result) == 2")],
    defined_props=["C16", "C15"])
