"""
Contract on the objective of automatic calibration (property C15): the body of the loop over the requested output quantities in
calibration._calculate_objective, for one quantity with two data points, for each documented fit metric
("fractional", "wape", "meansquare" -- Project.calibrate's docstring).  The data series, the model output interpolated onto the data
times and the weight are symbolic; project / result lookups are external and replaced by ghost values.
"""
import z3

schema = "covout"
CONTRACTS = {}
N = 2


def _make_env(metric):
    def make(it):
        from pyvc.interp import PyObjV, FuncV
        from pyvc.core import LArr, Opaque
        from pyvc import source

        cm = source.load("calibration")
        y = [z3.Real("data_%d" % i) for i in range(N)]
        y2 = [z3.Real("model_%d" % i) for i in range(N)]
        w, obj0 = z3.Real("weight"), z3.Real("objective0")
        target = PyObjV("TimeSeries", source.load("utils"), {"t": [2000.0, 2001.0], "vals": list(y), "assumption": None, "sigma": None, "units": "u", "_sampled": False})
        return {"var_label": "x", "pop_name": "adults", "weight": w, "metric": metric, "objective": obj0, "objective0": obj0, "TARGET": target,
                "ARRAYS": (LArr(N, lambda i: 2000.0 + i), LArr(N, it._list_reader(y))), "VAR": [Opaque("model variable")], "Y2": LArr(N, it._list_reader(y2)), "DATA": LArr(N, it._list_reader(y)),
                "y_": y, "m_": y2, "w_": w, "project": Opaque("project"), "result": Opaque("result"), "parset": Opaque("parset"),
                "y_factors": Opaque("y_factors"), "pars_to_adjust": Opaque("pars"), "output_quantities": Opaque("oq"),
                "FITFUNC": FuncV(cm.functions["_calc_%s" % metric])}

    return make


_terms = {
    "fractional": " + ".join("abs(m_[%d] - y_[%d]) / max(y_[%d], 1)" % (i, i, i) for i in range(N)),
    "wape": " + ".join("abs(m_[%d] - y_[%d]) / ((%s) / %d + 1e-06)" % (i, i, " + ".join("y_[%d]" % j for j in range(N)), N) for i in range(N)),
}
class _NS:
    pass


def _prepare(env):
    """replay: stand-in project / result objects that hand the real loop body a real TimeSeries with the model's data values and a
    model variable equal to the model's output at the data times (so the real np.interp returns exactly those values)"""
    import numpy as np
    import atomica.utils as au

    data = [float(x) for x in env.get("DATA", [1.0] * N)]
    model = [float(x) for x in env.get("Y2", [1.0] * N)]
    ts = au.TimeSeries(t=[2000.0 + i for i in range(N)], vals=data)
    project = _NS()
    project.data = _NS()
    project.data.get_ts = lambda name, pop: ts
    var = _NS()
    var.t, var.vals = np.array([2000.0 + i for i in range(N)]), np.array(model)
    pop = _NS()
    pop.get_variable = lambda name: [var]
    result = _NS()
    result.model = _NS()
    result.model.get_pop = lambda name: pop
    env.update(project=project, result=result, var_label="x", pop_name="adults", y_=data, m_=model, w_=env.get("weight", 1.0), objective0=env.get("objective", 0.0))


for _metric in ("fractional", "wape", "meansquare"):
    if _metric == "meansquare":
        # root of the mean squared error: stated through its square (no square root in the clause)
        _ens = [("C15.meansquare_objective_is_weight_times_the_rms_error",
                 "(objective - objective0) * (objective - objective0) * %d == w_ * w_ * (%s) and (objective - objective0) * w_ >= 0" % (N, " + ".join("(m_[%d] - y_[%d]) * (m_[%d] - y_[%d])" % (i, i, i, i) for i in range(N))))]
    else:
        _ens = [("C15.%s_objective_is_weight_times_the_summed_error" % _metric, "objective == objective0 + w_ * (%s)" % _terms[_metric])]
    CONTRACTS["calibration:_calculate_objective#%s" % _metric] = dict(
        schema=schema, fragment={"iter": "output_quantities"}, make_env=_make_env(_metric),
        stubs={"project.data.get_ts(var_label, pop_name)": "TARGET", "target.get_arrays()": "ARRAYS",
               "result.model.get_pop(pop_name).get_variable(var_label)": "VAR", "np.interp(data_t, var[0].t, var[0].vals, left=np.nan, right=np.nan)": "Y2"},
        call_stubs={"_get_fitscore_func": (lambda it, metric: it.ghost_env["FITFUNC"])},
        requires=(["all(y_[i] >= 0 for i in range(%d))" % N] if _metric == "wape" else []),
        ensures=_ens, raises={}, raises_props=["C15"], defined_props=["C15"], metric=_metric, replay_prepare=_prepare)


# ---- calibration._update_parset (C15: "adjusted values ..."; the proposal of the calibration optimiser reaches exactly the factor it names):
# the body of the loop over the adjustables, for one adjustable (name, population) and a parameter set with two ordinary parameters
# and one transfer.  'all' sets the all-population factor, a population name sets that population's factor, a transfer name
# `<transfer>_from_<population>` sets the factor of the transfer out of that population; nothing else is touched.
def _env_update_parset(kind):
    def make(it):
        from pyvc.interp import PyObjV
        from pyvc.core import LArr
        from pyvc import source

        pm = source.load("parameters")
        mk = lambda n: PyObjV("Parameter", pm, {"name": n, "meta_y_factor": z3.Real("meta_" + n), "y_factor": {"adults": z3.Real("y_%s_adults" % n), "children": z3.Real("y_%s_children" % n)}})
        p, q, tr = mk("p"), mk("q"), mk("age")
        parset = PyObjV("ParameterSet", pm, {"name": "ps", "pars": {"p": p, "q": q}, "transfers": {"age": {"children": tr}}})
        ys = [z3.Real("proposal_%d" % k) for k in range(2)]
        x = {"meta": ("p", "all"), "meta_upper": ("p", "ALL"), "population": ("p", "adults"), "transfer": ("age_from_children", "adults")}[kind]
        return {"parset": parset, "y_factors": LArr(2, it._list_reader(ys)), "pars_to_adjust": [("q", "children"), x], "i": 1, "x": x, "P": p, "Q": q, "TR": tr, "ys": ys,
                "OLD": {n: (o.fields["meta_y_factor"], o.fields["y_factor"]["adults"], o.fields["y_factor"]["children"]) for n, o in (("p", p), ("q", q), ("age", tr))}}

    return make


def _same(n, obj, skip=None):
    parts = []
    if skip != "meta":
        parts.append("%s.meta_y_factor == OLD['%s'][0]" % (obj, n))
    if skip != "adults":
        parts.append("%s.y_factor['adults'] == OLD['%s'][1]" % (obj, n))
    parts.append("%s.y_factor['children'] == OLD['%s'][2]" % (obj, n))
    return " and ".join(parts)


for _kind, _target, _clause in (
        ("meta", "the_all_population_factor", "P.meta_y_factor == ys[1] and " + _same("p", "P", "meta") + " and " + _same("q", "Q") + " and " + _same("age", "TR")),
        ("meta_upper", "the_all_population_factor_whatever_the_case_of_all", "P.meta_y_factor == ys[1] and " + _same("p", "P", "meta") + " and " + _same("q", "Q") + " and " + _same("age", "TR")),
        ("population", "that_populations_factor", "P.y_factor['adults'] == ys[1] and " + _same("p", "P", "adults") + " and " + _same("q", "Q") + " and " + _same("age", "TR")),
        ("transfer", "the_factor_of_the_transfer_out_of_the_named_population", "TR.y_factor['adults'] == ys[1] and " + _same("age", "TR", "adults") + " and " + _same("p", "P") + " and " + _same("q", "Q"))):
    CONTRACTS["calibration:_update_parset#%s" % _kind] = dict(
        schema=schema, fragment={"iter": "enumerate(pars_to_adjust)"}, make_env=_env_update_parset(_kind),
        ensures=[("C15.the_proposed_value_reaches_%s_and_nothing_else" % _target, _clause)],
        defined_props=["C15"])


# ---- the starting point and the bounds of calibrate(): body of the loop that fills x0 / xmin / xmax for one adjustable -- the starting
# value is read from the SAME factor _update_parset writes for that adjustable, and its bounds are appended at the same position
def _env_bounds(kind):
    inner = _env_update_parset(kind)

    def make(it):
        env = inner(it)
        lo, hi = z3.Real("scale_min"), z3.Real("scale_max")
        x = env["x"] + (lo, hi)
        env.update({"x": x, "pars_to_adjust": [("q", "children", 0.1, 10.0), x], "x0": [z3.Real("x0_0")], "xmin": [0.1], "xmax": [10.0], "lo": lo, "hi": hi})
        return env

    return make


for _kind, _read in (("meta", "OLD['p'][0]"), ("meta_upper", "OLD['p'][0]"), ("population", "OLD['p'][1]"), ("transfer", "OLD['age'][1]")):
    CONTRACTS["calibration:calibrate#start_and_bounds_%s" % _kind] = dict(
        schema=schema, fragment={"iter": "enumerate(pars_to_adjust)", "body_contains": "xmin.append"}, make_env=_env_bounds(_kind),
        ensures=[("C15.the_starting_value_is_the_factor_the_adjustable_names", "len(x0) == 2 and x0[1] == %s" % _read),
                 ("C15.its_bounds_sit_at_the_same_position", "len(xmin) == 2 and len(xmax) == 2 and xmin[1] == lo and xmax[1] == hi")],
        defined_props=["C15"])
