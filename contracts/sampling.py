"""
Contracts for property C17 (sampling): definedness and frame of Covout.sample, Program.sample and TimeSeries.sample.

np.random.randn is external (call stub: an arbitrary real draw); Covout.update_outcomes is stubbed (its own contract is C12/C16).
"""
import z3

SCHEMA = {"__families__": []}
schema = "sampling"
CONTRACTS = {}


def _covout_env(with_interactions, sigma_none=False):
    def make(it):
        from pyvc.interp import PyObjV
        from pyvc.core import LArr
        from pyvc import source

        draw = z3.Real("draw")
        fields = {
            "sigma": None if sigma_none else z3.Real("sigma"), "progs": {"p0": z3.Real("out_p0"), "p1": z3.Real("out_p1")}, "baseline": z3.Real("baseline"),
            "_interactions": ({frozenset(["p0", "p1"]): z3.Real("inter_p0p1")} if with_interactions else {}), "imp_interaction": "p0+p1=1.0" if with_interactions else None,
        }
        return {"self": PyObjV("Covout", source.load("programs"), fields), "DRAW": LArr(1, lambda i: draw), "NONE": None, "draw": draw, "REFRESHED": False,
                "p0_before": fields["progs"]["p0"], "inter_before": fields["_interactions"].get(frozenset(["p0", "p1"]))}

    return make


def _mark_refreshed(it, *a, **k):
    """ghost: Covout.update_outcomes() was called (its own contract -- contracts/covout_cache.py -- says what it establishes)"""
    it.ghost_env["REFRESHED"] = True
    it.live_env["REFRESHED"] = True
    return None


for _name, _wi, _sn in (("no_interactions", False, False), ("explicit_interactions", True, False), ("no_uncertainty", True, True)):
    CONTRACTS["programs:Covout.sample#%s" % _name] = dict(
        schema=schema, make_env=_covout_env(_wi, _sn), call_stubs={"np.random.randn": "DRAW", "self.update_outcomes": _mark_refreshed},
        ensures=[("C17.every_valid_covout_can_be_sampled", "True")] + ([("C17.no_uncertainty_leaves_outcomes_unchanged", "self.progs['p0'] == p0_before")] if _sn else [("C17.outcome_is_perturbed_by_sigma_times_draw", "self.progs['p0'] == p0_before + self.sigma * draw"),
                                                      # the model reads the CACHED outcomes (get_outcome): a perturbed value that is not followed by a refresh is never used
                                                      ("C17.outcome_cache_is_refreshed_after_the_perturbation", "REFRESHED")]),
        raises={}, defined_props=["C17"], raises_props=["C17"], with_interactions=_wi, sigma_none=_sn)


def _replay_covout(model, contract):
    """replay on a REAL Covout built like a program book row (with or without an explicit interaction outcome, with or without
    uncertainty): sample() runs with a fixed draw, then the perturbed outcomes must be the ones the outcome cache holds"""
    import numpy as np
    import atomica.programs as ap

    wi, sn = contract["with_interactions"], contract["sigma_none"]
    cv = ap.Covout(par="par", pop="pop", progs={"p0": 0.5, "p1": 0.7}, cov_interaction="additive", imp_interaction=("p0+p1=0.9" if wi else None), uncertainty=(None if sn else 0.1), baseline=0.2)
    before = dict(cv.progs)
    pre = dict(progs=before, imp_interaction=("p0+p1=0.9" if wi else None), uncertainty=(None if sn else 0.1), draw=0.5)
    real_randn = np.random.randn
    np.random.randn = lambda *shape: np.full(shape if shape else (1,), 0.5)
    try:
        cv.sample()
    except Exception as e:
        return dict(verdict="violates", detail="Covout.sample() raised %s: %s" % (type(e).__name__, e), prestate=pre)
    finally:
        np.random.randn = real_randn
    bad = []
    shift = 0.0 if sn else 0.1 * 0.5
    for k in before:
        if abs(cv.progs[k] - (before[k] + shift)) > 1e-12:
            bad.append("outcome of %s is %r, expected %r" % (k, cv.progs[k], before[k] + shift))
    cached = dict(cv._cached_progs)
    if any(abs(cached[k] - cv.progs[k]) > 1e-12 for k in cv.progs):
        bad.append("the outcome cache still holds %r while the sampled outcomes are %r: the simulation would use the unperturbed values" % (cached, dict(cv.progs)))
    return dict(verdict="violates" if bad else "holds", detail="; ".join(bad) or "sampled outcomes %r are the cached ones" % dict(cv.progs), prestate=pre)


for _c in CONTRACTS.values():
    _c["replay_hook"] = _replay_covout


# ---- worker initialisation: a pool worker must not inherit the parent's generator state (fork copies it verbatim)
def _replay_workers(model, contract):
    """replay: a real fork pool with the REAL initializer (in a fresh interpreter: pool workers cannot have children)"""
    import json, os, subprocess, sys

    code = (
        "import sys, json, multiprocessing as mp, numpy as np\n"
        "sys.path.insert(0, %r); sys.path.insert(0, %r)\n"
        "import atomica.utils as au\n"
        "from contracts.sampling import _draw\n"
        "np.random.seed(12345)\n"
        "ctx = mp.get_context('fork')\n"
        "pool = ctx.Pool(2, initializer=au._worker_init)\n"
        "draws = pool.map(_draw, range(8), chunksize=1); pool.close(); pool.join()\n"
        "print('DRAWS ' + json.dumps(draws))\n"
    ) % ("/verif", os.environ.get("ATOMICA_REPO", "/repo"))
    out = subprocess.run([sys.executable, "-c", code], capture_output=True, text=True, timeout=120)
    line = [l for l in out.stdout.splitlines() if l.startswith("DRAWS ")]
    if not line:
        return dict(verdict="error", detail="replay subprocess failed: %s" % out.stderr[-400:])
    draws = json.loads(line[0][6:])
    by_pid = {}
    for pid, x in draws:
        by_pid.setdefault(pid, []).append(x)
    firsts = sorted(v[0] for v in by_pid.values())
    dup = len(by_pid) > 1 and len(set(firsts)) < len(firsts)
    return dict(verdict="violates" if dup else "holds", detail=("two pool workers produced the same first draw %r: they share the inherited generator state" % firsts[0]) if dup else "workers draw different numbers (%d workers)" % len(by_pid),
                prestate=dict(workers=2, draws=draws))


def _draw(_):
    import os, time
    import numpy as np

    time.sleep(0.05)
    return os.getpid(), float(np.random.rand())


CONTRACTS["utils:_worker_init"] = dict(
    schema=schema, params={}, ghost_params={},
    ensures=[("C17.worker_generator_is_reseeded", "rng_reseeded_from_entropy")],
    make_env=lambda it: (it.ghost.__setitem__("rng_reseeded_from_entropy", False) or {}),
    replay_hook=_replay_workers, defined_props=["C17"], raises={}, raises_props=["C17"])
