"""
Contracts for property C17 (sampling): definedness and frame of Covout.sample, Program.sample and TimeSeries.sample.

np.random.randn is external (call stub: an arbitrary real draw); Covout.update_outcomes is stubbed (its own contract is C12/C16).
"""
import z3

SCHEMA = {"__families__": []}
schema = "sampling"
CONTRACTS = {}


def _covout_env(with_interactions, sigma_none=False):
    def make(it):
        from pyvc.interp import PyObjV
        from pyvc.core import LArr
        from pyvc import source

        draw = z3.Real("draw")
        fields = {
            "sigma": None if sigma_none else z3.Real("sigma"), "progs": {"p0": z3.Real("out_p0"), "p1": z3.Real("out_p1")}, "baseline": z3.Real("baseline"),
            "_interactions": ({frozenset(["p0", "p1"]): z3.Real("inter_p0p1")} if with_interactions else {}), "imp_interaction": "p0+p1=1.0" if with_interactions else None,
        }
        return {"self": PyObjV("Covout", source.load("programs"), fields), "DRAW": LArr(1, lambda i: draw), "NONE": None, "draw": draw, "REFRESHED": False,
                "p0_before": fields["progs"]["p0"], "inter_before": fields["_interactions"].get(frozenset(["p0", "p1"]))}

    return make


def _mark_refreshed(it, *a, **k):
    """ghost: Covout.update_outcomes() was called (its own contract -- contracts/covout_cache.py -- says what it establishes)"""
    it.ghost_env["REFRESHED"] = True
    it.live_env["REFRESHED"] = True
    return None


for _name, _wi, _sn in (("no_interactions", False, False), ("explicit_interactions", True, False), ("no_uncertainty", True, True)):
    CONTRACTS["programs:Covout.sample#%s" % _name] = dict(
        schema=schema, make_env=_covout_env(_wi, _sn), call_stubs={"np.random.randn": "DRAW", "self.update_outcomes": _mark_refreshed},
        ensures=[("C17.every_valid_covout_can_be_sampled", "True")] + ([("C17.no_uncertainty_leaves_outcomes_unchanged", "self.progs['p0'] == p0_before")] if _sn else [("C17.outcome_is_perturbed_by_sigma_times_draw", "self.progs['p0'] == p0_before + self.sigma * draw"),
                                                      # the model reads the CACHED outcomes (get_outcome): a perturbed value that is not followed by a refresh is never used
                                                      ("C17+C12.outcome_cache_is_refreshed_after_the_perturbation", "REFRESHED")]),
        raises={}, defined_props=["C17", "C12"], raises_props=["C17"], with_interactions=_wi, sigma_none=_sn)


def _replay_covout(model, contract):
    """replay on a REAL Covout built like a program book row (with or without an explicit interaction outcome, with or without
    uncertainty): sample() runs with a fixed draw, then the perturbed outcomes must be the ones the outcome cache holds"""
    import numpy as np
    import atomica.programs as ap

    wi, sn = contract["with_interactions"], contract["sigma_none"]
    cv = ap.Covout(par="par", pop="pop", progs={"p0": 0.5, "p1": 0.7}, cov_interaction="additive", imp_interaction=("p0+p1=0.9" if wi else None), uncertainty=(None if sn else 0.1), baseline=0.2)
    before = dict(cv.progs)
    pre = dict(progs=before, imp_interaction=("p0+p1=0.9" if wi else None), uncertainty=(None if sn else 0.1), draw=0.5)
    real_randn = np.random.randn
    np.random.randn = lambda *shape: np.full(shape if shape else (1,), 0.5)
    try:
        cv.sample()
    except Exception as e:
        return dict(verdict="violates", detail="Covout.sample() raised %s: %s" % (type(e).__name__, e), prestate=pre)
    finally:
        np.random.randn = real_randn
    bad = []
    shift = 0.0 if sn else 0.1 * 0.5
    for k in before:
        if abs(cv.progs[k] - (before[k] + shift)) > 1e-12:
            bad.append("outcome of %s is %r, expected %r" % (k, cv.progs[k], before[k] + shift))
    cached = dict(cv._cached_progs)
    if any(abs(cached[k] - cv.progs[k]) > 1e-12 for k in cv.progs):
        bad.append("the outcome cache still holds %r while the sampled outcomes are %r: the simulation would use the unperturbed values" % (cached, dict(cv.progs)))
    return dict(verdict="violates" if bad else "holds", detail="; ".join(bad) or "sampled outcomes %r are the cached ones" % dict(cv.progs), prestate=pre)


for _c in CONTRACTS.values():
    _c["replay_hook"] = _replay_covout


# ---- worker initialisation: a pool worker must not inherit the parent's generator state (fork copies it verbatim)
def _replay_workers(model, contract):
    """replay: a real fork pool with the REAL initializer (in a fresh interpreter: pool workers cannot have children)"""
    import json, os, subprocess, sys

    code = (
        "import sys, json, multiprocessing as mp, numpy as np\n"
        "sys.path.insert(0, %r); sys.path.insert(0, %r)\n"
        "import atomica.utils as au\n"
        "from contracts.sampling import _draw\n"
        "np.random.seed(12345)\n"
        "ctx = mp.get_context('fork')\n"
        "pool = ctx.Pool(2, initializer=au._worker_init)\n"
        "draws = pool.map(_draw, range(8), chunksize=1); pool.close(); pool.join()\n"
        "print('DRAWS ' + json.dumps(draws))\n"
    ) % ("/verif", os.environ.get("ATOMICA_REPO", "/repo"))
    out = subprocess.run([sys.executable, "-c", code], capture_output=True, text=True, timeout=120)
    line = [l for l in out.stdout.splitlines() if l.startswith("DRAWS ")]
    if not line:
        return dict(verdict="error", detail="replay subprocess failed: %s" % out.stderr[-400:])
    draws = json.loads(line[0][6:])
    by_pid = {}
    for pid, x in draws:
        by_pid.setdefault(pid, []).append(x)
    firsts = sorted(v[0] for v in by_pid.values())
    dup = len(by_pid) > 1 and len(set(firsts)) < len(firsts)
    return dict(verdict="violates" if dup else "holds", detail=("two pool workers produced the same first draw %r: they share the inherited generator state" % firsts[0]) if dup else "workers draw different numbers (%d workers)" % len(by_pid),
                prestate=dict(workers=2, draws=draws))


def _draw(_):
    import os, time
    import numpy as np

    time.sleep(0.05)
    return os.getpid(), float(np.random.rand())


CONTRACTS["utils:_worker_init"] = dict(
    schema=schema, params={}, ghost_params={},
    ensures=[("C17.worker_generator_is_reseeded", "rng_reseeded_from_entropy")],
    make_env=lambda it: (it.ghost.__setitem__("rng_reseeded_from_entropy", False) or {}),
    replay_hook=_replay_workers, defined_props=["C17"], raises={}, raises_props=["C17"])


# ---- project._run_sampled_sim (C17): one sampled simulation = a FRESH draw of the parameter set (and program set) followed by runs that
# use exactly that draw; a refused initialisation (BadInitialization) leads to a NEW draw, not to a re-run of the old one; the source
# sets are only read (they are never handed to run_sim).  parset.sample / progset.sample / proj.run_sim are ghosts: sample() returns
# a new object on every call (numbered), run_sim records what it was given and fails on the attempts the ghost Booleans say.
def _env_sampled(with_progset):
    def make(it):
        from pyvc.interp import PyObjV
        from pyvc import source

        pm = source.load("project")
        return {"proj": PyObjV("Project", pm, {"name": "proj"}), "parset": PyObjV("ParameterSet", source.load("parameters"), {"name": "source parset"}),
                "progset": PyObjV("ProgramSet", source.load("programs"), {"name": "source progset"}) if with_progset else None,
                "progset_instructions": ["instr_a", "instr_b"] if with_progset else [None], "result_names": ["a", "b"] if with_progset else ["default"], "max_attempts": 2,
                "PAR_DRAWS": [], "PROG_DRAWS": [], "RUNS": [], "ATTEMPT_FAILS": None}

    return make


def _ghost_sample(kind):
    def f(it, *a, **k):
        from pyvc.interp import PyObjV
        from pyvc import source

        draws = it.live_env[kind]
        o = PyObjV("ParameterSet" if kind == "PAR_DRAWS" else "ProgramSet", source.load("parameters" if kind == "PAR_DRAWS" else "programs"), {"name": "draw %d" % len(draws)})
        draws.append(o)
        return o

    return f


def _ghost_run_sim(it, parset=None, progset=None, progset_instructions=None, result_name=None):
    from pyvc.interp import _Raise

    env = it.live_env
    attempt = len(env["PAR_DRAWS"]) - 1
    env["RUNS"].append({"parset": parset, "progset": progset, "instructions": progset_instructions, "name": result_name, "attempt": attempt})
    fails = it.ghost_env["FAIL_%d" % attempt]
    if it.branch(fails):
        raise _Raise("BadInitialization")
    return ("result", attempt, result_name)


for _wp in (False, True):
    _n = 2 if _wp else 1
    CONTRACTS["project:_run_sampled_sim#%s" % ("with_programs" if _wp else "parameters_only")] = dict(
        schema=schema, make_env=_env_sampled(_wp),
        ghost_params={"FAIL_0": "bool", "FAIL_1": "bool"},
        call_stubs={"parset.sample": _ghost_sample("PAR_DRAWS"), "progset.sample": _ghost_sample("PROG_DRAWS"), "proj.run_sim": _ghost_run_sim},
        raises={"Exception": "FAIL_0 and FAIL_1"}, raises_props=["C17"],
        ensures=[
            ("C17.every_attempt_draws_afresh", "len(PAR_DRAWS) == (1 if not FAIL_0 else 2)" + (" and len(PROG_DRAWS) == len(PAR_DRAWS)" if _wp else "")),
            ("C17.runs_use_the_draw_of_their_own_attempt_never_the_source",
             "all(r['parset'] is PAR_DRAWS[r['attempt']] and r['parset'] is not parset for r in RUNS)" + (" and all(r['progset'] is PROG_DRAWS[r['attempt']] and r['progset'] is not progset for r in RUNS)" if _wp else "")),
            ("C17.the_results_returned_come_from_one_draw", "len(result) == %d and all(result[i][1] == len(PAR_DRAWS) - 1 for i in range(%d))" % (_n, _n)),
        ] + ([("C17.each_instruction_is_run_under_its_own_result_name", "result[0][2] == 'a' and result[1][2] == 'b' and RUNS[-2]['instructions'] == 'instr_a' and RUNS[-1]['instructions'] == 'instr_b'")] if _wp else []),
        defined_props=["C17"])


def _replay_sampled(model, contract):
    """replay on the udt demo project with uncertainty entered on one parameter: the real _run_sampled_sim is called twice with a spy
    around Project.run_sim; the parameter set it hands over must be a draw (not the source) and the two draws must differ"""
    import logging
    import warnings

    import numpy as np
    import atomica as at
    from atomica.project import _run_sampled_sim

    warnings.filterwarnings("ignore")
    at.logger.setLevel(logging.ERROR)
    P = at.demo("udt", do_run=False)
    ps = P.parsets[0]
    par = [p for p in ps.all_pars() if any(ts.has_data for ts in p.ts.values())][0]
    pop = [k for k, ts in par.ts.items() if ts.has_data][0]
    par.ts[pop].sigma = 0.1 * abs(float(np.ravel(par.ts[pop].vals if par.ts[pop].has_time_data else [par.ts[pop].assumption])[0]) or 1.0)
    seen = []
    orig = P.run_sim

    def spy(parset=None, **kw):
        seen.append(parset)
        return orig(parset=parset, **kw)

    P.run_sim = spy
    for _ in range(2):
        _run_sampled_sim(P, ps, None, [None], ["default"])
    bad = []
    # with programs: the program set handed to run_sim must be a draw too
    seen_progsets = []
    pg = P.progsets[0]
    for c in pg.covouts.values():
        c.sigma = 0.01

    def spy2(parset=None, progset=None, **kw):
        seen_progsets.append(progset)
        return orig(parset=parset, progset=progset, **kw)

    P.run_sim = spy2
    _run_sampled_sim(P, ps, pg, [at.ProgramInstructions(start_year=2018)], ["with programs"])
    if any(x is pg for x in seen_progsets):
        bad.append("the source program set itself was simulated although it has outcome uncertainty (no draw)")
    if any(s is ps for s in seen):
        bad.append("the source parameter set itself was simulated (no draw)")
    else:
        def value(s):
            ts = s.get_par(par.name).ts[pop]
            return float(np.ravel(ts.vals if ts.has_time_data else [ts.assumption])[0])

        if len(seen) == 2 and value(seen[0]) == value(seen[1]):
            bad.append("two sampled simulations used the same value %r of %s/%s although its uncertainty is not zero" % (value(seen[0]), par.name, pop))
    return dict(verdict="violates" if bad else "holds", detail="; ".join(bad) or "each sampled simulation ran on its own draw", prestate=dict(project="udt", uncertain_parameter=par.name, population=pop))


for _k in list(CONTRACTS):
    if _k.startswith("project:_run_sampled_sim"):
        CONTRACTS[_k]["replay_hook"] = _replay_sampled


# ---- ParameterSet.sample / Parameter.sample (C17): sampling works on a deep copy -- every parameter OF THE COPY is perturbed exactly once,
# with the caller's `constant` flag, and the copy is returned; the source and its parameters are not perturbed.  Parameter.sample
# replaces every population's series by that series' own sample.  (TimeSeries.sample is under contract in timeseries.py; here it is
# a ghost that returns a tagged new series.)
def _env_parset_sample(it):
    from pyvc.interp import PyObjV
    from pyvc import source

    pm = source.load("parameters")
    mk = lambda n: PyObjV("Parameter", pm, {"name": n, "ts": {}, "SAMPLED": []})
    p, tr, ia = mk("p"), mk("transfer"), mk("interaction")
    self = PyObjV("ParameterSet", pm, {"name": "source", "pars": {"p": p}, "transfers": {"age": {"pop": tr}}, "interactions": {"w": {"pop": ia}}})
    return {"self": self, "SRC": [p, tr, ia]}


def _ghost_all_pars(it):
    ps = it.stub_receiver
    return list(ps.fields["pars"].values()) + [q for d in list(ps.fields["transfers"].values()) + list(ps.fields["interactions"].values()) for q in d.values()]


def _ghost_par_sample(it, constant):
    it.stub_receiver.fields["SAMPLED"].append(constant)


CONTRACTS["parameters:ParameterSet.sample"] = dict(
    schema=schema, make_env=_env_parset_sample, params={"constant": "bool"},
    call_stubs={"new.all_pars": _ghost_all_pars, "par.sample": _ghost_par_sample},
    ensures=[
        ("C17.sampling_returns_a_copy", "result is not self and result.pars['p'] is not SRC[0] and result.transfers['age']['pop'] is not SRC[1] and result.interactions['w']['pop'] is not SRC[2]"),
        ("C17.every_parameter_of_the_copy_is_perturbed_exactly_once_with_the_callers_flag",
         "result.pars['p'].SAMPLED == [constant] and result.transfers['age']['pop'].SAMPLED == [constant] and result.interactions['w']['pop'].SAMPLED == [constant]"),
        ("C17+C08.the_source_is_not_perturbed", "len(SRC[0].SAMPLED) == 0 and len(SRC[1].SAMPLED) == 0 and len(SRC[2].SAMPLED) == 0 and self.pars['p'] is SRC[0]"),
    ],
    defined_props=["C17", "C08"])


def _env_par_sample(it):
    from pyvc.interp import PyObjV
    from pyvc import source

    um = source.load("utils")
    ts = lambda n: PyObjV("TimeSeries", um, {"t": [], "vals": [], "units": n, "assumption": None, "sigma": None, "_sampled": False})
    a, b = ts("a"), ts("b")
    return {"self": PyObjV("Parameter", source.load("parameters"), {"name": "p", "ts": {"adults": a, "children": b}}), "A": a, "B": b}


def _ghost_ts_sample(it, constant):
    from pyvc.interp import PyObjV

    src = it.stub_receiver
    return PyObjV("TimeSeries", src.module, {"units": src.fields["units"], "SAMPLE_OF": src, "CONSTANT": constant, "_sampled": True})


CONTRACTS["parameters:Parameter.sample"] = dict(
    schema=schema, make_env=_env_par_sample, params={"constant": "bool"},
    call_stubs={"ts.sample": _ghost_ts_sample},
    ensures=[("C17.each_population_gets_the_sample_of_its_own_series", "len(self.ts) == 2 and self.ts['adults'].SAMPLE_OF is A and self.ts['children'].SAMPLE_OF is B and self.ts['adults'].CONSTANT == constant and self.ts['children'].CONSTANT == constant")],
    defined_props=["C17"])


def _env_progset_sample(it):
    from pyvc.interp import PyObjV
    from pyvc import source

    pm = source.load("programs")
    prog = PyObjV("Program", pm, {"name": "prog", "SAMPLED": []})
    cov = PyObjV("Covout", pm, {"par": "p", "pop": "adults", "SAMPLED": []})
    self = PyObjV("ProgramSet", pm, {"name": "source", "programs": {"prog": prog}, "covouts": {("p", "adults"): cov}})
    return {"self": self, "PROG": prog, "COV": cov}


def _ghost_mark_sample(it, *a):
    it.stub_receiver.fields["SAMPLED"].append(a[0] if a else "outcomes")


CONTRACTS["programs:ProgramSet.sample"] = dict(
    schema=schema, make_env=_env_progset_sample, params={"constant": "bool"},
    call_stubs={"prog.sample": _ghost_mark_sample, "covout.sample": _ghost_mark_sample},
    ensures=[
        ("C17.sampling_returns_a_copy", "result is not self and result.programs['prog'] is not PROG and result.covouts['p', 'adults'] is not COV"),
        ("C17.every_program_and_every_outcome_entry_of_the_copy_is_perturbed_exactly_once", "result.programs['prog'].SAMPLED == [constant] and result.covouts['p', 'adults'].SAMPLED == ['outcomes']"),
        ("C17+C08.the_source_is_not_perturbed", "len(PROG.SAMPLED) == 0 and len(COV.SAMPLED) == 0 and self.programs['prog'] is PROG and self.covouts['p', 'adults'] is COV"),
    ],
    defined_props=["C17", "C08"])


_PROG_SERIES = ["spend_data", "unit_cost", "capacity_constraint", "saturation", "coverage"]


def _env_prog_sample(it):
    from pyvc.interp import PyObjV
    from pyvc import source

    um = source.load("utils")
    series = {n: PyObjV("TimeSeries", um, {"t": [], "vals": [], "units": n, "assumption": None, "sigma": None, "_sampled": False}) for n in _PROG_SERIES}
    fields = dict(series)
    fields["name"] = "prog"
    env = {"self": PyObjV("Program", source.load("programs"), fields)}
    env.update({"OLD_" + n: s for n, s in series.items()})
    return env


def _ghost_series_sample(it, constant):
    from pyvc.interp import PyObjV

    src = it.stub_receiver
    return PyObjV("TimeSeries", src.module, {"units": src.fields["units"], "SAMPLE_OF": src, "CONSTANT": constant, "_sampled": True})


CONTRACTS["programs:Program.sample"] = dict(
    schema=schema, make_env=_env_prog_sample, params={"constant": "bool"},
    call_stubs={"self.%s.sample" % n: _ghost_series_sample for n in _PROG_SERIES},
    ensures=[("C17.each_series_of_the_program_becomes_its_own_sample", " and ".join("self.%s.SAMPLE_OF is OLD_%s and self.%s.CONSTANT == constant" % (n, n, n) for n in _PROG_SERIES))],
    defined_props=["C17"])


# ---- Project.run_sampled_sims (C17): the wiring around _run_sampled_sim.  n samples are n calls of _run_sampled_sim (serially), or one job per sample handed to
# parallel_progress (in parallel), each given the SOURCE parameter set and program set (the draw happens inside, see above) and the same instructions and names
def _env_rss(parallel, with_programs):
    def make(it):
        from pyvc.interp import PyObjV
        from pyvc.core import Opaque
        from pyvc import source

        ps, pg = PyObjV("ParameterSet", source.load("parameters"), {"name": "source parset"}), (PyObjV("ProgramSet", source.load("programs"), {"name": "source progset"}) if with_programs else None)
        ins = PyObjV("ProgramInstructions", source.load("programs"), {"start_year": 2020.0}) if with_programs else None
        return {"self": PyObjV("Project", source.load("project"), {"name": "proj", "CALLS": [], "JOBS": []}), "n_samples": 3, "parset": "default", "progset": ("progs" if with_programs else None), "progset_instructions": ins,
                "result_names": None, "parallel": parallel, "max_attempts": None, "num_workers": 2, "PS": ps, "PG": pg, "INS": ins, "INFO_LEVEL": 20, "LEVEL": 30}

    return make


def _ghost_run(it, proj, parset, progset, progset_instructions, result_names, max_attempts=None):
    proj.fields["CALLS"].append((parset, progset, progset_instructions, result_names, max_attempts))
    return "result %d" % len(proj.fields["CALLS"])


def _ghost_partial(it, fn, **kw):
    return ("partial", kw)


def _ghost_parallel(it, fcn, inputs, show_progress=True, num_workers=None):
    it.live_env["self"].fields["JOBS"].append((fcn, inputs, num_workers))
    return ["job result"] * inputs


_rss_stubs = {"self.parset": (lambda it, name: it.live_env["PS"]), "self.progset": (lambda it, name: it.live_env["PG"]), "sc.promotetolist": (lambda it, x, keepnone=False: x if isinstance(x, list) else [x]),
              "logger.getEffectiveLevel": (lambda it: 30), "_run_sampled_sim": _ghost_run, "functools.partial": _ghost_partial, "parallel_progress": _ghost_parallel}
for _par in (False, True):
    for _wp in (False, True):
        _each = "c[0] is PS and c[1] is PG and len(c[2]) == 1 and c[2][0] is INS and c[3] == ['default'] and c[4] is None"
        CONTRACTS["project:Project.run_sampled_sims#%s_%s" % ("parallel" if _par else "serial", "with_programs" if _wp else "parameters_only")] = dict(
            schema=schema, make_env=_env_rss(_par, _wp), call_stubs=_rss_stubs, stubs={"logging.INFO": "INFO_LEVEL", "logger.getEffectiveLevel()": "LEVEL"},
            ensures=[("C17.one_sampled_run_per_sample_each_given_the_source_sets",
                      ("len(self.JOBS) == 1 and self.JOBS[0][1] == 3 and self.JOBS[0][2] == 2 and len(self.CALLS) == 0 and len(result) == 3 and self.JOBS[0][0][1]['proj'] is self and self.JOBS[0][0][1]['parset'] is PS and self.JOBS[0][0][1]['progset'] is PG "
                       "and self.JOBS[0][0][1]['progset_instructions'][0] is INS and self.JOBS[0][0][1]['result_names'] == ['default']") if _par else
                      ("len(self.CALLS) == 3 and len(self.JOBS) == 0 and all(%s for c in self.CALLS) and result == ['result 1', 'result 2', 'result 3']" % _each))],
            defined_props=["C17"])


# ---- Ensemble.run_sims in parallel and results._sample_and_map (C17; F28 lived here): pool workers inherit the parent's generator state, so in the parallel branch every
# sample is handed its OWN seed -- n pairwise different integers -- and the worker function seeds the generator with it before it draws; serially (no seed) the generator is
# left alone, so a seeded serial run stays reproducible.  The seed is not passed on to the mapping function.
def _env_sam(seed):
    def make(it):
        from pyvc.interp import PyObjV
        from pyvc import source

        return {"proj": PyObjV("Project", source.load("project"), {"name": "proj"}), "parset": "PS", "progset": None, "progset_instructions": None, "result_names": None, "mapping_function": "MAP", "max_attempts": None,
                "seed": seed, "kwargs": {"extra": 1}, "EVENTS": []}

    return make


def _ghost_seed(it, s=None):
    it.live_env["EVENTS"].append(("seed", s))


def _ghost_rss(it, **kw):
    it.live_env["EVENTS"].append(("run", kw.get("n_samples"), kw.get("parset")))
    return ["RESULT"]


def _ghost_map(it, res, **kw):
    it.live_env["EVENTS"].append(("map", res, tuple(sorted(kw))))
    return "PLOTDATA"


_sam_stubs = {"np.random.seed": _ghost_seed, "proj.run_sampled_sims": _ghost_rss, "mapping_function": _ghost_map}
CONTRACTS["results:_sample_and_map#with_a_seed"] = dict(
    schema=schema, make_env=_env_sam(4711), call_stubs=_sam_stubs,
    ensures=[("C17.the_generator_is_seeded_with_the_samples_own_seed_before_the_draw", "len(EVENTS) == 3 and EVENTS[0] == ('seed', 4711) and EVENTS[1] == ('run', 1, 'PS')"),
             ("C17.the_result_is_mapped_and_the_seed_is_not_passed_on", "EVENTS[2] == ('map', 'RESULT', ('extra',)) and result == 'PLOTDATA'")], defined_props=["C17"])
CONTRACTS["results:_sample_and_map#serially_without_a_seed"] = dict(
    schema=schema, make_env=_env_sam(None), call_stubs=_sam_stubs,
    ensures=[("C17.without_a_seed_the_generator_is_left_alone", "len(EVENTS) == 2 and EVENTS[0] == ('run', 1, 'PS') and EVENTS[1] == ('map', 'RESULT', ('extra',)) and result == 'PLOTDATA'")], defined_props=["C17"])


def _env_run_sims(it):
    import z3
    from pyvc.interp import PyObjV
    from pyvc import source

    return {"self": PyObjV("Ensemble", source.load("results"), {"name": "ens", "mapping_function": "MAP", "samples": ["stale"]}), "proj": "PROJ", "parset": "PS", "progset": None, "progset_instructions": None, "result_names": None,
            "parallel": True, "max_attempts": None, "n_samples": 4, "JOBS": [], "BASE": z3.Int("base_seed")}


def _ghost_parallelize(it, func, iterarg=None, iterkwargs=None, kwargs=None, **kw):
    from pyvc.interp import PyObjV, FuncV
    from pyvc import source

    it.live_env["JOBS"].append((getattr(getattr(func, "info", None), "qualname", None) or str(func), iterarg, iterkwargs, kwargs))
    n = len(iterkwargs["seed"]) if iterkwargs else iterarg
    return [PyObjV("PlotData", source.load("plotting"), {"pops": ["adults"], "outputs": ["x"]}) for _ in range(n)]


CONTRACTS["results:Ensemble.run_sims#in_parallel"] = dict(
    schema=schema, make_env=_env_run_sims,
    call_stubs={"sc.parallelize": _ghost_parallelize, "np.random.randint": (lambda it, lo, hi=None, **k: it.live_env["BASE"]), "self.samples[0].set_colors": (lambda it, *a, **k: None), "int": (lambda it, v: v)},
    ensures=[("C17.every_sample_of_a_parallel_call_gets_its_own_seed", "len(JOBS) == 1 and JOBS[0][1] is None and len(JOBS[0][2]['seed']) == 4 and all(JOBS[0][2]['seed'][i] != JOBS[0][2]['seed'][j] for i in range(4) for j in range(4) if i != j)"),
             ("C17.each_job_is_given_the_source_sets_and_the_mapping_function", "JOBS[0][3]['proj'] == 'PROJ' and JOBS[0][3]['parset'] == 'PS' and JOBS[0][3]['progset'] is None and JOBS[0][3]['mapping_function'] == 'MAP' and 'seed' not in JOBS[0][3]"),
             ("C17.the_old_samples_are_replaced_by_one_sample_per_job", "len(self.samples) == 4")],
    defined_props=["C17"])


def _replay_ensemble_parallel(model, contract):
    """replay on the REAL Ensemble.run_sims(parallel=True) in a fresh interpreter: the udt demo with uncertainty on three parameters, 6 samples; no two samples may be equal"""
    import json
    import os
    import subprocess
    import sys

    code = (
        "import warnings, logging, json, sys\nwarnings.filterwarnings('ignore')\nsys.path.insert(0, %r)\nimport numpy as np\nimport atomica as at\nat.logger.setLevel(logging.ERROR)\n"
        "def mapping(results):\n    return at.PlotData(results, outputs=['dx'], pops='adults')\n"
        "if __name__ == '__main__':\n"
        "    P = at.demo('udt', do_run=False)\n    ps = P.parsets[0]\n"
        "    for name in ('num_diag', 'num_initiate', 'num_loss'):\n        for ts in ps.pars[name].ts.values():\n            ts.sigma = 0.2 * (ts.assumption if ts.assumption is not None else (ts.vals[0] if ts.vals else 1.0))\n"
        "    np.random.seed(1)\n    ens = at.Ensemble(mapping_function=mapping)\n    ens.run_sims(P, ps, n_samples=6, parallel=True)\n"
        "    print('FINALS ' + json.dumps([float(s.series[0].vals[-1]) for s in ens.samples]))\n") % os.environ.get("ATOMICA_REPO", "/repo")
    out = subprocess.run([sys.executable, "-c", code], capture_output=True, text=True, timeout=600)
    line = [l for l in out.stdout.splitlines() if l.startswith("FINALS ")]
    if not line:
        return dict(verdict="error", detail="replay subprocess failed: %s" % out.stderr[-400:])
    finals = json.loads(line[0][7:])
    pre = dict(project="udt", uncertainty="20% on num_diag, num_initiate, num_loss", n_samples=6, parallel=True, final_values=finals)
    if len(set(finals)) < len(finals):
        return dict(verdict="violates", detail="%d of the 6 samples of one parallel call are identical (final values %r)" % (len(finals) - len(set(finals)) + 1, finals), prestate=pre)
    return dict(verdict="holds", detail="the 6 samples of the parallel call are pairwise different", prestate=pre)


CONTRACTS["results:Ensemble.run_sims#in_parallel"]["replay_hook"] = _replay_ensemble_parallel


# ---- Covout.sample, the visible interaction text (C16: "objects behave as their visible data"; C17): after sampling, the text of the explicit interaction outcomes -- what a
# written program book carries -- is the perturbed outcome, i.e. the cached value PLUS the baseline (the cache is relative to the baseline), to four decimals
def _covout_env_concrete(it):
    import numpy as np
    from pyvc.interp import PyObjV
    from pyvc import source

    fields = {"sigma": 0.5, "progs": {"p0": 0.5, "p1": 0.625}, "baseline": 0.25, "_interactions": {frozenset(["p0", "p1"]): 0.5}, "imp_interaction": "p0+p1=0.75"}
    return {"self": PyObjV("Covout", source.load("programs"), fields), "DRAW": np.array([0.25]), "REFRESHED": False}


CONTRACTS["programs:Covout.sample#visible_interaction_text"] = dict(
    schema=schema, make_env=_covout_env_concrete, call_stubs={"np.random.randn": "DRAW", "self.update_outcomes": _mark_refreshed},
    ensures=[("C16+C17.the_interaction_text_is_the_perturbed_outcome_cached_value_plus_baseline", "self._interactions[frozenset(['p0', 'p1'])] == 0.625 and self.imp_interaction in ('p0+p1=0.8750', 'p1+p0=0.8750')")],
    raises={}, defined_props=["C16", "C17"], raises_props=["C17"])
