"""
Contracts on documented framework rules (property C18: "never by silently accepting a file that breaks a documented rule (... wrong units
for junction or source outflows ...)"): the body of the loop over the source compartments of a transition parameter in
ProjectFramework._validate_parameters, for one source compartment.  The compartment row is a ghost (sink / source / junction flags); the
parameter's format is one of the six standard units (one contract per unit).

  rejected with InvalidFramework  <=>   the compartment is a sink, or it is a source and the format is not 'number', or it is a
                                        junction and the format is not 'proportion', or the format is 'proportion' and it is not a junction
and the count of source outflows grows exactly for a source compartment.
"""
CONTRACTS = {}
schema = "covout"
UNITS = ["probability", "duration", "number", "fraction", "proportion", "rate"]


def _make_env(fmt):
    def make(it):
        from pyvc.interp import PyObjV
        from pyvc.core import Opaque
        from pyvc import source

        return {"self": PyObjV("ProjectFramework", source.load("framework"), {"name": "fw"}), "comp": "c", "par_name": "p", "par": {"format": fmt}, "n_source_outflow": 0, "FMT": fmt}

    return make


for _u in UNITS:
    _bad = "IS_SINK or (not IS_SINK and IS_SOURCE and %r) or (not IS_SINK and not IS_SOURCE and IS_JUNCTION and %r) or (%r and not IS_JUNCTION)" % (_u != "number", _u != "proportion", _u == "proportion")
    CONTRACTS["framework:ProjectFramework._validate_parameters#outflow_units_%s" % _u] = dict(
        schema=schema, fragment={"iter": "from_comps"}, make_env=_make_env(_u),
        ghost_params={"IS_SINK": "bool", "IS_SOURCE": "bool", "IS_JUNCTION": "bool"},
        stubs={"self.comps.at[comp, 'is sink'] == 'y'": "IS_SINK", "self.comps.at[comp, 'is source'] == 'y'": "IS_SOURCE", "self.comps.at[comp, 'is junction'] == 'y'": "IS_JUNCTION",
               "self.comps.at[comp, 'is junction'] != 'y'": "NOT_JUNCTION"},
        requires=["NOT_JUNCTION == (not IS_JUNCTION)"],
        raises={"InvalidFramework": _bad}, raises_props=["C18"],
        ensures=[("C18.an_accepted_outflow_obeys_the_unit_rules", "not (%s)" % _bad),
                 ("C18.source_outflows_are_counted", "n_source_outflow == (1 if IS_SOURCE else 0)")],
        defined_props=["C18"])
    CONTRACTS["framework:ProjectFramework._validate_parameters#outflow_units_%s" % _u]["ghost_params"]["NOT_JUNCTION"] = "bool"


def _replay(model, contract):
    """replay on the REAL tb library framework: a junction outflow parameter set to 'probability', a source outflow parameter set to
    'probability', an ordinary outflow parameter set to 'proportion' must each be refused with InvalidFramework; the unmodified
    framework must be accepted"""
    import logging
    import warnings

    import atomica as at

    warnings.filterwarnings("ignore")
    at.logger.setLevel(logging.ERROR)
    path = at.LIBRARY_PATH / "tb_framework.xlsx"
    try:
        F = at.ProjectFramework(path)
    except Exception as e:  # noqa
        return dict(verdict="violates", raised="%s: %s" % (type(e).__name__, str(e)[:120]), detail="the valid library framework tb_framework.xlsx is refused: %s: %s" % (type(e).__name__, str(e)[:160]), prestate=dict(framework="tb_framework.xlsx"))
    junc = [c for c in F.comps.index if F.comps.at[c, "is junction"] == "y"]
    src = [c for c in F.comps.index if F.comps.at[c, "is source"] == "y"]
    plain = [c for c in F.comps.index if F.comps.at[c, "is junction"] != "y" and F.comps.at[c, "is source"] != "y" and F.comps.at[c, "is sink"] != "y"]
    first = lambda comps: [p for p, pairs in F.transitions.items() if p != ">" and pairs and all(a in comps for a, b in pairs)][0]
    cases = [("junction outflow in probability units", first(junc), "probability", False), ("source outflow in probability units", first(src), "probability", False),
             ("ordinary outflow in proportion units", first(plain), "proportion", False), ("unchanged framework", None, None, True)]
    bad, tried = [], []
    for what, name, fmt, ok in cases:
        G = at.ProjectFramework(path)
        if name is not None:
            G.pars.at[name, "format"] = fmt
        try:
            G._validate_parameters()
            outcome = "accepted"
        except at.InvalidFramework:
            outcome = "refused"
        except Exception as e:  # noqa
            outcome = "internal error %s: %s" % (type(e).__name__, str(e)[:80])
        tried.append(dict(case=what, parameter=name, format=fmt, outcome=outcome))
        if outcome != ("accepted" if ok else "refused"):
            bad.append("%s (parameter %s): %s" % (what, name, outcome))
    return dict(verdict="violates" if bad else "holds", detail="; ".join(bad) or "the three rule-breaking frameworks are refused with InvalidFramework, the library framework is accepted", prestate=dict(framework="tb_framework.xlsx", cases=tried))


for _c in CONTRACTS.values():
    _c["replay_hook"] = _replay


# ---- duplicate / reserved names (C18: "undefined or duplicate names"): bodies of the two loops of ProjectFramework._validate_names, for a
# name that was or was not seen before; the reserved-symbol and keyword tests are ghost Booleans
def _env_names(seen):
    def make(it):
        from pyvc.interp import PyObjV
        from pyvc import source

        return {"self": PyObjV("ProjectFramework", source.load("framework"), {"name": "fw"}), "name": "x" if seen else "y", "tmp": {"x"}}

    return make


for _seen in (True, False):
    _tag = "seen_before" if _seen else "new"
    CONTRACTS["framework:ProjectFramework._validate_names#code_name_%s" % _tag] = dict(
        schema=schema, fragment={"iter": "code_names"}, make_env=_env_names(_seen),
        ghost_params={"HAS_RESERVED_SYMBOL": "bool", "IS_KEYWORD": "bool"},
        stubs={"FS.RESERVED_SYMBOLS.intersection(name)": "HAS_RESERVED_SYMBOL", "name in FS.RESERVED_KEYWORDS": "IS_KEYWORD"},
        raises={"InvalidFramework": "True" if _seen else "HAS_RESERVED_SYMBOL or IS_KEYWORD"}, raises_props=["C18"],
        ensures=[("C18.an_accepted_code_name_is_new_unreserved_and_now_recorded", "not HAS_RESERVED_SYMBOL and not IS_KEYWORD and %s and 'y' in tmp and 'x' in tmp and len(tmp) == 2" % ("False" if _seen else "True"))],
        defined_props=["C18"])
    CONTRACTS["framework:ProjectFramework._validate_names#display_name_%s" % _tag] = dict(
        schema=schema, fragment={"iter": "display_names"}, make_env=_env_names(_seen),
        raises={"InvalidFramework": "True" if _seen else "False"}, raises_props=["C18"],
        ensures=[("C18.an_accepted_display_name_is_new_and_now_recorded", "%s and 'y' in tmp and len(tmp) == 2" % ("False" if _seen else "True"))],
        defined_props=["C18"])


# ---- the denominator rules of a characteristic (C18: "missing required data"; C07 needs the denominator's own databook value to initialise a
# fraction): the statement `if not pd.isna(row["denominator"]): ...` of the loop over characteristics in _validate_characteristics.
# A characteristic with a denominator is refused exactly when the denominator is unknown, of another population type, itself has a
# denominator (characteristics), or -- if the characteristic is used for initialization (setup weight > 0) -- the DENOMINATOR has no
# databook page.  The framework sheets are ghosts.
def _env_denominator(it):
    from pyvc.interp import PyObjV
    from pyvc import source

    import z3

    w = z3.Real("setup_weight")
    return {"self": PyObjV("ProjectFramework", source.load("framework"), {"name": "fw"}), "charac_name": "frac", "row": {"denominator": "den", "population type": "default", "setup weight": w, "databook page": "sheet"}, "W": w}


_den_stubs = {
    "pd.isna(row['denominator'])": "NO_DENOMINATOR",
    "row['denominator'] in self.comps.index": "DEN_IS_COMP", "row['denominator'] in self.characs.index": "DEN_IS_CHARAC",
    "row['population type'] != self.comps.at[row['denominator'], 'population type']": "COMP_TYPE_DIFFERS",
    "row['population type'] != self.characs.at[row['denominator'], 'population type']": "CHARAC_TYPE_DIFFERS",
    "pd.isna(self.comps.at[row['denominator'], 'databook page'])": "COMP_DEN_NOT_IN_DATABOOK",
    "pd.isna(self.characs.at[row['denominator'], 'databook page'])": "CHARAC_DEN_NOT_IN_DATABOOK",
    "pd.isna(self.characs.loc[row['denominator']]['denominator'])": "CHARAC_DEN_IS_PLAIN",
    "pd.isna(row['databook page'])": "OWN_PAGE_MISSING",
}
_refused = ("(DEN_IS_COMP and (COMP_TYPE_DIFFERS or (W > 0 and COMP_DEN_NOT_IN_DATABOOK))) or "
            "(not DEN_IS_COMP and DEN_IS_CHARAC and (CHARAC_TYPE_DIFFERS or not CHARAC_DEN_IS_PLAIN or (W > 0 and CHARAC_DEN_NOT_IN_DATABOOK))) or "
            "(not DEN_IS_COMP and not DEN_IS_CHARAC)")
CONTRACTS["framework:ProjectFramework._validate_characteristics#denominator_rules"] = dict(
    schema=schema, fragment={"iter": "zip(self.characs.index, self.characs.to_dict(orient='records'))", "stmt": "if not pd.isna(row['denominator'])"}, make_env=_env_denominator,
    ghost_params=dict({v: "bool" for v in _den_stubs.values() if v != "NO_DENOMINATOR"}, NO_DENOMINATOR="const:False"),
    stubs=_den_stubs,
    raises={"InvalidFramework": _refused}, raises_props=["C18", "C07"],
    ensures=[("C18+C07.an_accepted_denominator_is_known_of_the_same_type_plain_and_in_the_databook_when_used_for_initialization", "not (%s)" % _refused)],
    defined_props=["C18", "C07"])


def _replay_denominator(model, contract):
    """replay on the REAL udt library framework: the characteristic `all_tx` is given the compartment `dx` as denominator and a setup weight,
    and `dx` is taken out of the databook -- the rule "denominators used in initialization must appear in the databook" must refuse it"""
    import logging
    import warnings

    import numpy as np
    import atomica as at

    warnings.filterwarnings("ignore")
    at.logger.setLevel(logging.ERROR)
    F = at.demo("udt", do_run=False).framework
    comp = [c for c in F.comps.index if F.comps.at[c, "is source"] != "y" and F.comps.at[c, "is sink"] != "y" and F.comps.at[c, "is junction"] != "y"][0]
    charac = [c for c in F.characs.index if not (isinstance(F.characs.at[c, "denominator"], str))][0]
    F.characs.at[charac, "denominator"] = comp
    F.characs.at[charac, "setup weight"] = 1.0
    F.comps.at[comp, "databook page"] = None
    F.comps.at[comp, "setup weight"] = 0.0
    pre = dict(framework="udt", characteristic=charac, denominator=comp, denominator_databook_page=None, characteristic_databook_page=str(F.characs.at[charac, "databook page"]))
    try:
        F._validate_characteristics()
    except at.InvalidFramework as e:
        return dict(verdict="holds", detail="refused with InvalidFramework: %s" % str(e)[:140], prestate=pre)
    except Exception as e:  # noqa
        return dict(verdict="violates", detail="internal error %s: %s" % (type(e).__name__, e), prestate=pre)
    return dict(verdict="violates", detail="a characteristic used for initialization whose denominator compartment has no databook page was accepted", prestate=pre)


CONTRACTS["framework:ProjectFramework._validate_characteristics#denominator_rules"]["replay_hook"] = _replay_denominator


# ---- ProjectFramework.get_databook_units (C16 / C18; F21 lived here): the units a quantity is entered in.  Compartments and characteristics: Number, or Fraction with
# a denominator.  Parameters with a timescale: `Duration (<timescale, plural>)`, `<Number|Probability|Rate> (per <timescale>)`, and a refusal for missing or other units;
# without a timescale: the stated units, or N.A. when there are none.  The framework lookup, the row of the quantity and format_duration are ghosts.
def _env_units(item_type, denominator=None, fmt=None, timescale=float("nan")):
    def make(it):
        from pyvc.core import Opaque
        from pyvc.interp import PyObjV
        from pyvc import source

        return {"self": PyObjV("ProjectFramework", source.load("framework"), {"name": "fw"}), "code_name": "q", "SPEC": Opaque("row of the quantity"), "TYPE": item_type, "HAS_DENOM_COLUMN": item_type != "par",
                "DENOM": denominator, "FORMAT": fmt, "TIMESCALE": timescale}

    return make


_units_stubs = {"item_spec['denominator']": "DENOM", "item_spec['format']": "FORMAT", "item_spec['timescale']": "TIMESCALE", "'denominator' in item_spec.index": "HAS_DENOM_COLUMN"}
_units_calls = {"self.get_variable": (lambda it, name: (it.live_env["SPEC"], it.live_env["TYPE"])), "pd.isna": (lambda it, v: v is None or (isinstance(v, float) and v != v)),
                "format_duration": (lambda it, t, pluralize=False: "years" if pluralize else "year")}
for _tag, _kw, _want in (("compartment", dict(item_type="comp"), "Number"), ("characteristic_with_a_denominator", dict(item_type="charac", denominator="alive"), "Fraction"), ("characteristic_without_a_denominator", dict(item_type="charac"), "Number"),
                         ("duration_with_a_timescale", dict(item_type="par", fmt=" Duration ", timescale=1.0), "Duration (years)"), ("probability_with_a_timescale", dict(item_type="par", fmt="probability", timescale=1.0), "Probability (per year)"),
                         ("number_with_a_timescale", dict(item_type="par", fmt="Number", timescale=1.0), "Number (per year)"), ("rate_with_a_timescale", dict(item_type="par", fmt="rate", timescale=1.0), "Rate (per year)"),
                         ("units_without_a_timescale", dict(item_type="par", fmt=" proportion "), "proportion"), ("no_units_and_no_timescale", dict(item_type="par"), "N.A.")):
    CONTRACTS["framework:ProjectFramework.get_databook_units#%s" % _tag] = dict(
        schema=schema, make_env=_env_units(**_kw), stubs=_units_stubs, call_stubs=_units_calls,
        ensures=[("C16+C18.the_databook_units_of_the_quantity", "result == %r" % _want)], defined_props=["C16", "C18"])
for _tag, _kw in (("a_timescale_without_units", dict(item_type="par", timescale=1.0)), ("a_timescale_with_units_that_cannot_be_converted", dict(item_type="par", fmt="proportion", timescale=1.0))):
    CONTRACTS["framework:ProjectFramework.get_databook_units#%s" % _tag] = dict(
        schema=schema, make_env=_env_units(**_kw), stubs=_units_stubs, call_stubs=_units_calls, raises={"InvalidFramework": "True"}, raises_props=["C18"], ensures=[], defined_props=["C16", "C18"])


# ---- ProjectFramework._validate_names as a whole (C18: "undefined or duplicate names"): the code names of compartments, characteristics, parameters, interactions and population
# types are pairwise different, contain no reserved symbol and are no reserved keyword; the DISPLAY names of compartments, characteristics, parameters and interactions are pairwise
# different too.  A code name may equal a display name.  The four tables of the framework are ghosts (their index and their display-name column).
def _env_names(comps, characs, pars, inters, pop_types=("default",)):
    def make(it):
        from pyvc.interp import PyObjV
        from pyvc import source

        return {"self": PyObjV("ProjectFramework", source.load("framework"), {"name": "fw"}), "CI": [c for c, _ in comps], "CD": [d for _, d in comps], "HI": [c for c, _ in characs], "HD": [d for _, d in characs],
                "PI": [c for c, _ in pars], "PD": [d for _, d in pars], "II": [c for c, _ in inters], "ID": [d for _, d in inters], "PT": list(pop_types)}

    return make


_names_stubs = {"self.comps.index": "CI", "self.comps['display name']": "CD", "self.characs.index": "HI", "self.characs['display name']": "HD", "self.pars.index": "PI", "self.pars['display name']": "PD",
                "self.interactions.index": "II", "self.interactions['display name']": "ID", "self.pop_types.keys()": "PT"}
_ok = dict(comps=[("sus", "Susceptible"), ("inf", "Infected")], characs=[("alive", "Everybody")], pars=[("foi", "Force of infection"), ("rec", "Recovery rate")], inters=[("w", "Mixing")])
for _tag, _kw in (("all_names_distinct", _ok),
                  ("a_code_name_equal_to_a_display_name_is_allowed", dict(_ok, pars=[("foi", "Force of infection"), ("Susceptible", "Recovery rate")], characs=[("alive", "rec2")]))):
    CONTRACTS["framework:ProjectFramework._validate_names#%s" % _tag] = dict(
        schema=schema, make_env=_env_names(**_kw), stubs=_names_stubs, ensures=[("C18.distinct_valid_names_are_accepted", "result is None")], defined_props=["C18"], raises_props=["C18"])
for _tag, _kw in (("parameter_display_name_used_by_a_characteristic", dict(_ok, pars=[("foi", "Everybody"), ("rec", "Recovery rate")])),
                  ("two_parameters_with_the_same_display_name", dict(_ok, pars=[("foi", "Rate"), ("rec", "Rate")])),
                  ("compartment_display_name_used_by_an_interaction", dict(_ok, inters=[("w", "Infected")])),
                  ("parameter_code_name_used_by_a_compartment", dict(_ok, pars=[("sus", "Force of infection")])),
                  ("code_name_equal_to_a_population_type", dict(_ok, pars=[("default", "Force of infection")])),
                  ("code_name_with_a_reserved_symbol", dict(_ok, comps=[("s:us", "Susceptible")])),
                  ("reserved_keyword_as_code_name", dict(_ok, characs=[("all", "Everybody")]))):
    CONTRACTS["framework:ProjectFramework._validate_names#%s" % _tag] = dict(
        schema=schema, make_env=_env_names(**_kw), stubs=_names_stubs, raises={"InvalidFramework": "True"}, raises_props=["C18"], ensures=[], defined_props=["C18"])


def _replay_duplicate_display_name(model, contract):
    """replay on the REAL ProjectFramework._validate_names: the udt framework with a parameter given the display name of a characteristic"""
    import logging
    import warnings

    warnings.filterwarnings("ignore")
    import atomica as at

    at.logger.setLevel(logging.ERROR)
    F = at.ProjectFramework(at.LIBRARY_PATH / "udt_framework.xlsx")
    par, charac = F.pars.index[0], F.characs.index[0]
    taken = F.characs.at[charac, "display name"]
    F.pars.at[par, "display name"] = taken
    pre = dict(framework="udt", parameter=par, display_name_taken_from_characteristic=charac, display_name=taken)
    try:
        F._validate_names()
    except at.InvalidFramework as e:
        return dict(verdict="holds", detail="refused: %s" % str(e)[:120], prestate=pre)
    return dict(verdict="violates", detail="parameter %r and characteristic %r both have the display name %r and the framework is accepted" % (par, charac, taken), prestate=pre)


for _t in ("parameter_display_name_used_by_a_characteristic", "two_parameters_with_the_same_display_name", "a_code_name_equal_to_a_display_name_is_allowed"):
    CONTRACTS["framework:ProjectFramework._validate_names#%s" % _t]["replay_hook"] = _replay_duplicate_display_name
