"""
Contracts on Covout.get_outcome (property C12), for 1..N_MAX programs and the three coverage interactions.

The object under test has a concrete shape (n programs, the 2^n x n 0/1 `combinations` table exactly as update_outcomes builds
it) and symbolic contents: baseline, the deltas and the 2^n combination outcomes are arbitrary reals, the coverages are
arbitrary reals in [0,1].  The loops of get_outcome run over the concrete shape and are unrolled -- complete for each n.
Weights are read off the result as coefficients of the (symbolic) combination outcomes: the result is linear in them.
"""
import itertools
import os

import numpy as np
import z3

SCHEMA = {"__families__": []}
schema = "covout"
CONTRACTS = {}
N_QUICK = int(os.environ.get("C12_N_QUICK", "4"))
N_MAX = 5


def _make_env(n, mode):
    def make(it):
        from pyvc.interp import PyObjV
        from pyvc.core import LArr
        from pyvc import source

        names = ["p%d" % i for i in range(n)]
        combination_strings = [bin(x)[2:].rjust(n, "0") for x in range(2 ** n)]            # as in Covout.update_outcomes
        combinations = np.array([list(int(y) for y in x) for x in combination_strings])
        O = [z3.RealVal(0)] + [z3.Real("O_%s" % combination_strings[c]) for c in range(1, 2 ** n)]   # outcome of the empty combination is 0.0
        # cache invariant of update_outcomes for single programs: the outcome of the combination {i} is the delta of program i
        # ('best' of one; an explicit interaction outcome given for a single program is outside this contract)
        D = [O[2 ** (n - 1 - i)] for i in range(n)]
        cov = [z3.Real("cov_%d" % i) for i in range(n)]
        baseline = z3.Real("baseline")
        for c in cov:
            it.pc.append(z3.And(c >= 0, c <= 1))
        fields = {
            "baseline": baseline, "cov_interaction": mode, "_cached_progs": {nm: None for nm in names}, "progs": {nm: None for nm in names},
            "combinations": combinations, "_deltas": LArr(n, it._list_reader(D)), "_combination_outcomes": LArr(2 ** n, it._list_reader(O)),
        }
        self = PyObjV("Covout", source.load("programs"), fields)
        prop_covered = {nm: LArr(1, (lambda i, c=c: c)) for nm, c in zip(names, cov)}
        return {"self": self, "prop_covered": prop_covered, "cov": cov, "O": O, "D": D, "n": n, "combos": combination_strings}

    return make


def _clauses(n, mode):
    combos = [bin(x)[2:].rjust(n, "0") for x in range(2 ** n)]
    W = lambda c: "coef(result, O[%d])" % c
    ens = []
    if n == 1:
        # the code's shortcut: baseline + cov * delta
        ens.append(("C12+C13.single_program_formula", "result == self.baseline + cov[0] * D[0]"))
        return ens
    if n <= 2:
        ens.append(("C12+C13.weights_nonneg", " and ".join("%s >= 0" % W(c) for c in range(1, 2 ** n))))
    else:
        # one clause per weight: the conjunction over all 2^n - 1 weights is one large nonlinear query (tens of seconds), the
        # individual sign conditions are decided in well under a second each
        for c in range(1, 2 ** n):
            ens.append(("C12+C13.weight_of_combination_%s_is_nonneg" % combos[c], "%s >= 0" % W(c)))
    ens.append(("C12+C13.weights_total_at_most_one", " + ".join(W(c) for c in range(1, 2 ** n)) + " <= 1"))
    for i in range(n):
        members = [c for c in range(1, 2 ** n) if combos[c][i] == "1"]
        ens.append(("C12+C13.marginal_of_program_%d_is_its_coverage" % i, " + ".join(W(c) for c in members) + " == cov[%d]" % i))
    ens.append(("C12+C13.result_is_baseline_plus_weighted_outcomes", "result == self.baseline + " + " + ".join("%s * O[%d]" % (W(c), c) for c in range(1, 2 ** n))))
    ens.append(("C12+C13.baseline_at_zero_coverage", "implies(%s, result == self.baseline)" % " and ".join("cov[%d] == 0" % i for i in range(n))))
    return ens


for _n in range(1, N_MAX + 1):
    for _mode in ("additive", "nested", "random"):
        CONTRACTS["programs:Covout.get_outcome#%s_n%d" % (_mode, _n)] = dict(
            schema=schema, make_env=_make_env(_n, _mode), ensures=_clauses(_n, _mode), defined_props=["C12"], n=_n, mode=_mode,
            tiers=(["quick", "thorough"] if _n <= N_QUICK else ["thorough"]),
        )


def _replay(model, contract):
    """replay of a refuting model on the REAL Covout.get_outcome: the cache fields are set to the model's values (any
    values are reachable: deltas and explicit interaction outcomes are free inputs of a program book), the weights are
    measured with indicator outcomes, and every C12 clause is re-evaluated numerically"""
    import atomica.programs as ap
    import sciris as sc

    n, mode = contract["n"], contract["mode"]

    def val(name, default=0.0):
        v = model.eval(z3.Real(name), model_completion=True)
        try:
            return float(v.numerator_as_long()) / float(v.denominator_as_long())
        except Exception:
            return float(v.approx(12).numerator_as_long()) / float(v.approx(12).denominator_as_long())

    names = ["p%d" % i for i in range(n)]
    combos = [bin(x)[2:].rjust(n, "0") for x in range(2 ** n)]
    cov = [min(1.0, max(0.0, val("cov_%d" % i))) for i in range(n)]
    O = [0.0] + [val("O_%s" % combos[c]) for c in range(1, 2 ** n)]
    baseline = val("baseline")
    cv = ap.Covout(par="par", pop="pop", progs={nm: 1.0 for nm in names}, cov_interaction=mode, baseline=0.0)
    cv._cached_progs = sc.odict((nm, 1.0) for nm in names)
    cv.combinations = np.array([list(int(y) for y in x) for x in combos])

    def run(outcomes, base):
        cv.baseline = base
        cv._combination_outcomes = np.array(outcomes, dtype=float)
        cv._deltas = np.array([outcomes[2 ** (n - 1 - i)] for i in range(n)], dtype=float)
        return float(cv.get_outcome({nm: np.array([c]) for nm, c in zip(names, cov)}))

    pre = dict(n=n, mode=mode, coverage=cov, combination_outcomes=O, baseline=baseline)
    try:
        result = run(O, baseline)
        if n == 1:
            ok = abs(result - (baseline + cov[0] * O[1])) <= 1e-9 * max(1, abs(result))
            return dict(verdict="holds" if ok else "violates", detail="single program: result %r" % result, prestate=pre)
        W = [0.0] + [run([1.0 if d == c else 0.0 for d in range(2 ** n)], 0.0) for c in range(1, 2 ** n)]
    except Exception as e:
        return dict(verdict="violates", detail="real code raised %s: %s" % (type(e).__name__, e), prestate=pre)
    bad = []
    tol = 1e-9
    if any(w < -tol for w in W):
        bad.append("negative weight %r" % min(W))
    if sum(W) > 1 + tol:
        bad.append("weights sum to %r > 1" % sum(W))
    for i in range(n):
        m = sum(W[c] for c in range(1, 2 ** n) if combos[c][i] == "1")
        if abs(m - cov[i]) > tol:
            bad.append("marginal of program %d is %r, coverage %r" % (i, m, cov[i]))
    lin = baseline + sum(W[c] * O[c] for c in range(1, 2 ** n))
    if abs(result - lin) > tol * max(1, abs(result)):
        bad.append("result %r is not baseline + weighted outcomes %r" % (result, lin))
    if all(c == 0 for c in cov) and abs(result - baseline) > tol:
        bad.append("result %r differs from baseline at zero coverage" % result)
    pre["weights"] = W
    return dict(verdict="violates" if bad else "holds", detail="; ".join(bad) or "all C12 clauses hold on the real code for this input", prestate=pre)


for _c in CONTRACTS.values():
    _c["replay_hook"] = _replay
