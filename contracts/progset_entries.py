"""
Representation invariant of the look-up tables of a ProgramSet (properties C16 "a program set behaves as a function of its visible data ...
after any sequence of library operations", C18 "never with an internal error"): every entry of `comps` carries a label, a population type
and the `non_targetable` flag (the program-book writer reads all three), every entry of `pars` and `pops` a label and a type -- this
is what ProgramSet.__init__ builds.  The public operations that ADD entries must keep it:

    add_comp / add_par / add_pop:   the new entry has exactly the keys of the entries the constructor builds, with the label and type given
                                    (the first population type when none is given); the other entries are untouched.
"""
CONTRACTS = {}
schema = "covout"
_KEYS = {"comps": ["label", "type", "non_targetable"], "pars": ["label", "type"], "pops": ["label", "type"]}


def _make_env(table, with_type):
    def make(it):
        from pyvc.interp import PyObjV
        from pyvc import source

        old = {k: ("Old entry" if k == "label" else ("default" if k == "type" else False)) for k in _KEYS[table]}
        fields = {"name": "ps", "comps": {}, "pars": {}, "pops": {}, "_pop_types": ["default", "environment"]}
        fields[table] = {"old": dict(old)}
        return {"self": PyObjV("ProgramSet", source.load("programs"), fields), "code_name": "new", "full_name": "A new entry", "pop_type": "environment" if with_type else None,
                "TABLE": fields[table], "OLD": dict(old)}

    return make


def _replay(table):
    def replay(model, contract):
        """replay on the udt demo program set: add the entry, then write the program book and read it back"""
        import logging
        import warnings

        import atomica as at

        warnings.filterwarnings("ignore")
        at.logger.setLevel(logging.ERROR)
        P = at.demo("udt", do_run=False)
        ps = P.progsets[0].copy()
        pre = dict(project="udt", operation={"comps": "add_comp", "pars": "add_par", "pops": "add_pop"}[table], code_name="newentry")
        try:
            getattr(ps, pre["operation"])("newentry", "A new entry")
            ss = ps.to_spreadsheet()
        except Exception as e:  # noqa
            return dict(verdict="violates", raised="%s: %s" % (type(e).__name__, e), detail="after %s('newentry', ...) writing the program book raised %s: %s" % (pre["operation"], type(e).__name__, e), prestate=pre)
        return dict(verdict="holds", detail="the program book is written after the entry was added", prestate=pre)

    return replay


for _table, _fn in (("comps", "add_comp"), ("pars", "add_par"), ("pops", "add_pop")):
    for _wt in (False, True):
        _keys = _KEYS[_table]
        CONTRACTS["programs:ProgramSet.%s#%s" % (_fn, "with_type" if _wt else "default_type")] = dict(
            schema=schema, make_env=_make_env(_table, _wt), replay_hook=_replay(_table),
            ensures=[
                ("C16+C18.every_entry_keeps_the_keys_the_constructor_builds", "all(sorted(v.keys()) == %r for v in TABLE.values())" % sorted(_keys)),
                ("C16.the_new_entry_has_the_label_and_type_given", "TABLE['new']['label'] == 'A new entry' and TABLE['new']['type'] == %r" % ("environment" if _wt else "default")),
                ("C16.other_entries_are_untouched", "len(TABLE) == 2 and TABLE['old'] == OLD"),
            ] + ([("C16.a_compartment_added_by_hand_can_be_targeted", "TABLE['new']['non_targetable'] == False")] if _table == "comps" else []),
            defined_props=["C16", "C18"])


# ---- the constructor's own loops (they ESTABLISH the invariant): one framework row each
def _env_init(it):
    from pyvc.interp import PyObjV
    from pyvc.core import Opaque
    from pyvc import source

    return {"self": PyObjV("ProgramSet", source.load("programs"), {"name": "ps", "comps": {}, "pars": {}}), "spec": Opaque("framework row"), "framework": Opaque("framework"), "_": 0}


_row = {"spec.name": "CODE", "spec['display name']": "LABEL", "spec['population type']": "TYPE"}
CONTRACTS["programs:ProgramSet.__init__#one_compartment_row"] = dict(
    schema=schema, fragment={"iter": "framework.comps.iterrows()"}, make_env=_env_init,
    ghost_params={"CODE": "const:'c'", "LABEL": "const:'Compartment c'", "TYPE": "const:'default'", "IS_SOURCE": "bool", "IS_SINK": "bool", "IS_JUNCTION": "bool"},
    stubs=dict(_row, **{"spec['is source'] == 'y'": "IS_SOURCE", "spec['is sink'] == 'y'": "IS_SINK", "spec['is junction'] == 'y'": "IS_JUNCTION"}),
    ensures=[("C16+C18.a_compartment_entry_has_label_type_and_the_flag", "sorted(self.comps['c'].keys()) == ['label', 'non_targetable', 'type'] and self.comps['c']['label'] == 'Compartment c' and self.comps['c']['type'] == 'default'"),
             ("C16.sources_sinks_and_junctions_cannot_be_targeted", "self.comps['c']['non_targetable'] == (IS_SOURCE or IS_SINK or IS_JUNCTION)")],
    defined_props=["C16", "C18"])
CONTRACTS["programs:ProgramSet.__init__#one_parameter_row"] = dict(
    schema=schema, fragment={"iter": "framework.pars.iterrows()"}, make_env=_env_init,
    ghost_params={"CODE": "const:'p'", "LABEL": "const:'Parameter p'", "TYPE": "const:'default'", "TARGETABLE": "bool"},
    stubs=dict(_row, **{"spec['targetable'] == 'y'": "TARGETABLE"}),
    ensures=[("C16.exactly_the_targetable_parameters_are_listed_with_label_and_type", "('p' in self.pars) == TARGETABLE and implies(TARGETABLE, self.pars['p'] == {'label': 'Parameter p', 'type': 'default'})")],
    defined_props=["C16", "C18"])


# ---- ProgramSet._get_code_name (what remove_pop / remove_comp / remove_par / remove_program resolve their argument with): a code name is
# returned as it is, a label is mapped to the code name of the population / compartment / parameter / program carrying it, anything else is refused
def _env_code_name(name):
    def make(it):
        from pyvc.interp import PyObjV
        from pyvc import source

        pm = source.load("programs")
        self = PyObjV("ProgramSet", pm, {"name": "ps", "pops": {"adults": {"label": "Adults", "type": "default"}}, "comps": {"sus": {"label": "Susceptible", "type": "default", "non_targetable": False}},
                                         "pars": {"rate": {"label": "Some rate", "type": "default"}}, "programs": {"prog": PyObjV("Program", pm, {"name": "prog", "label": "A program"})}})
        return {"self": self, "name": name}

    return make


for _tag, _name, _want in (("code_name_of_a_population", "adults", "adults"), ("code_name_of_a_program", "prog", "prog"), ("label_of_a_population", "Adults", "adults"), ("label_of_a_compartment", "Susceptible", "sus"),
                           ("label_of_a_parameter", "Some rate", "rate"), ("label_of_a_program", "A program", "prog"), ("unknown", "Nothing", None)):
    CONTRACTS["programs:ProgramSet._get_code_name#%s" % _tag] = dict(
        schema=schema, make_env=_env_code_name(_name),
        raises=({} if _want else {"Exception": "True"}), raises_props=["C16", "C18"],
        ensures=([("C16.a_code_name_or_label_resolves_to_the_code_name", "result == %r" % _want)] if _want else []),
        defined_props=["C16", "C18"])


# ---- ProgramSet.validate (C18 "missing required data"): one program of the loop -- a program that targets no population, or no compartment while the
# program set lists compartments, is refused; any other program is accepted
def _env_validate(pops, comps, has_comps):
    def make(it):
        from pyvc.interp import PyObjV
        from pyvc import source

        pm = source.load("programs")
        return {"self": PyObjV("ProgramSet", pm, {"name": "ps", "comps": ({"sus": {"label": "S"}} if has_comps else {})}), "prog": PyObjV("Program", pm, {"name": "prog", "target_pops": list(pops), "target_comps": list(comps)})}

    return make


for _tag, _pops, _comps, _has, _refused in (("targets_both", ["adults"], ["sus"], True, False), ("no_compartment_targeted", ["adults"], [], True, True), ("no_population_targeted", [], ["sus"], True, True),
                                            ("parameters_only_program_set", ["adults"], [], False, False)):
    CONTRACTS["programs:ProgramSet.validate#%s" % _tag] = dict(
        schema=schema, fragment={"iter": "self.programs.values()"}, make_env=_env_validate(_pops, _comps, _has),
        raises=({"Exception": "True"} if _refused else {}), raises_props=["C18"],
        ensures=([] if _refused else [("C18.a_program_with_targets_is_accepted", "True")]), defined_props=["C18"])


# ---- ProgramSet._normalize_inputs (C16 / C18: what a program book is read against): an explicit framework / databook wins over the project's, a missing one is taken from the
# project, and a combination that leaves one of them unknown is refused
def _env_norm(framework, data, project):
    def make(it):
        from pyvc.interp import PyObjV
        from pyvc import source

        pm = source.load("project")
        proj = {"full": PyObjV("Project", pm, {"framework": "PROJECT FRAMEWORK", "data": "PROJECT DATA"}), "no_data": PyObjV("Project", pm, {"framework": "PROJECT FRAMEWORK", "data": None}),
                "no_framework": PyObjV("Project", pm, {"framework": None, "data": "PROJECT DATA"}), None: None}[project]
        return {"framework": framework, "data": data, "project": proj}

    return make


for _tag, _f, _d, _p, _want in (("explicit_inputs", "F", "D", None, ("F", "D")), ("from_the_project", None, None, "full", ("PROJECT FRAMEWORK", "PROJECT DATA")),
                                ("explicit_data_with_a_project", None, "D", "full", ("PROJECT FRAMEWORK", "D")), ("explicit_framework_with_a_project", "F", None, "full", ("F", "PROJECT DATA"))):
    CONTRACTS["programs:ProgramSet._normalize_inputs#%s" % _tag] = dict(
        schema=schema, make_env=_env_norm(_f, _d, _p), ensures=[("C16+C18.explicit_inputs_win_and_missing_ones_come_from_the_project", "result[0] == %r and result[1] == %r" % _want)], defined_props=["C16", "C18"])
for _tag, _f, _d, _p in (("nothing_given", None, None, None), ("framework_only", "F", None, None), ("data_only", None, "D", None), ("project_without_data", None, None, "no_data"), ("project_without_framework", None, None, "no_framework")):
    CONTRACTS["programs:ProgramSet._normalize_inputs#%s" % _tag] = dict(
        schema=schema, make_env=_env_norm(_f, _d, _p), raises={"Exception": "True"}, raises_props=["C18"], ensures=[], defined_props=["C16", "C18"])


# ---- Program.__init__ and ProgramSet.add_program (C16 / C11): a new program has no targets, spending and unit cost in the program set's currency (the unit cost per person, i.e.
# one-off, until stated otherwise), a baseline spending of 0 and empty series for capacity constraint, saturation and coverage; adding a program under a used code name is refused
def _env_prog_init(it):
    from pyvc.interp import PyObjV
    from pyvc import source

    return {"self": PyObjV("Program", source.load("programs"), {}), "name": "prog", "label": None, "target_pops": None, "target_comps": None, "currency": "EUR"}


CONTRACTS["programs:Program.__init__"] = dict(
    schema=schema, make_env=_env_prog_init, concrete_new=["TimeSeries"], call_stubs={"NamedItem.__init__": (lambda it, *a, **k: None), "sc.now": (lambda it, *a, **k: "now")},
    ensures=[("C16.a_new_program_is_named_and_targets_nothing", "self.name == 'prog' and self.label == 'prog' and self.target_pops == [] and self.target_comps == []"),
             ("C16+C11.its_series_are_empty_in_the_program_sets_currency_with_a_baseline_of_zero",
              "self.spend_data.units == 'EUR/year' and self.unit_cost.units == 'EUR/person (one-off)' and self.baseline_spend.units == 'EUR/year' and self.baseline_spend.assumption == 0.0 and self.capacity_constraint.units == 'people/year' "
              "and self.coverage.units == 'people/year' and self.saturation.units == 'N.A.' and len(self.spend_data.t) == 0 and self.spend_data.assumption is None and len(self.unit_cost.t) == 0 and self.unit_cost.assumption is None")],
    defined_props=["C16", "C11"])


def _env_add_prog(code):
    def make(it):
        from pyvc.interp import PyObjV
        from pyvc import source

        pm = source.load("programs")
        old = PyObjV("Program", pm, {"name": "old", "label": "Old"})
        return {"self": PyObjV("ProgramSet", pm, {"name": "ps", "currency": "EUR", "programs": {"old": old}}), "code_name": code, "full_name": "A new program", "OLD": old}

    return make


def _ghost_program(it, name=None, label=None, currency=None, **k):
    from pyvc.interp import PyObjV
    from pyvc import source

    return PyObjV("Program", source.load("programs"), {"name": name, "label": label, "CURRENCY": currency})


CONTRACTS["programs:ProgramSet.add_program#new_code_name"] = dict(
    schema=schema, make_env=_env_add_prog("new"), call_stubs={"Program": _ghost_program},
    ensures=[("C16.the_program_is_added_last_in_the_program_sets_currency_and_the_others_are_kept", "list(self.programs.keys()) == ['old', 'new'] and self.programs['old'] is OLD and self.programs['new'].label == 'A new program' and self.programs['new'].CURRENCY == 'EUR'")],
    defined_props=["C16"])
CONTRACTS["programs:ProgramSet.add_program#code_name_already_used"] = dict(
    schema=schema, make_env=_env_add_prog("old"), call_stubs={"Program": _ghost_program}, raises={"Exception": "True"}, raises_props=["C16", "C18"], ensures=[], defined_props=["C16"])
