"""
Cross-population aggregation of parameters in Model.update_pars (property C06: a parameter "replaced by its function of the same-step
values of its dependencies" -- the special functions SRC_POP_AVG / SRC_POP_SUM / TGT_POP_AVG / TGT_POP_SUM): the statement

    if pars[0].pop_aggregation: ...

of the loop over dynamic parameters, for two populations.  v_j is the same-step value of the aggregated quantity in population j,
w[i][j] the interaction weight from population i to population j at this step, c_j the same-step value of the optional weighting
quantity.  For the parameter of population k the result is scale_factor x
    TGT_POP_SUM:  sum_j  w[k][j] c_j v_j              TGT_POP_AVG:  that sum divided by sum_j w[k][j] c_j (by 1 when that is 0)
    SRC_POP_SUM:  sum_j  w[j][k] c_j v_j              SRC_POP_AVG:  likewise with the transposed weights
(c_j = 1 without a weighting quantity, w = 1 without an interaction).
"""
import z3

schema = "covout"
CONTRACTS = {}


def _make_env(fn, with_interaction, with_weight):
    def make(it):
        from pyvc.interp import PyObjV
        from pyvc.core import LArr, LArr2
        from pyvc import source

        mm = source.load("model")
        n = z3.Int("n_times")
        ti = z3.Int("ti")
        it.facts.append(n >= 1)
        it.facts.append(ti >= 0)
        it.facts.append(ti < n)

        def series(name):
            f = z3.Function(name, z3.IntSort(), z3.RealSort())
            return LArr(n, lambda i: f(i if z3.is_expr(i) else z3.IntVal(i)))

        agg = (fn, "v") + (("w",) if with_interaction or with_weight else ()) + (("c",) if with_weight else ())
        sf = [z3.Real("scale_%d" % k) for k in range(2)]
        pars = [PyObjV("Parameter", mm, {"id": ("pop%d" % k, "p"), "vals": series("p%d" % k), "pop_aggregation": agg, "scale_factor": sf[k], "skip_function": None, "derivative": False, "limits": None}) for k in range(2)]
        V = [PyObjV("Parameter", mm, {"id": ("pop%d" % k, "v"), "vals": series("v%d" % k)}) for k in range(2)]
        C = [PyObjV("Compartment", mm, {"id": ("pop%d" % k, "c"), "vals": series("c%d" % k)}) for k in range(2)]
        w = [[z3.Real("w_%d_%d" % (i, j)) for j in range(2)] for i in range(2)]
        self = PyObjV("Model", mm, {"_vars_by_pop": {"p": pars, "v": V, "c": C}, "t": series("t"), "interactions": None})
        # W is the MODEL's own slice of the interaction array (a view: updating it in place changes the model)
        W = LArr2(2, 2, lambda i, j: w[i][j]) if with_interaction else LArr2(2, 2, lambda i, j: z3.RealVal(1))
        return {"self": self, "pars": pars, "ti": ti, "W": W, "w": w if with_interaction else [[1, 1], [1, 1]], "sf": sf, "V": V, "C": C, "P": pars}

    return make


def _spec(fn, with_weight):
    src = fn.startswith("SRC")
    avg = fn.endswith("AVG")
    clauses = []
    for k in range(2):
        wk = ["w[%d][%d]" % ((j, k) if src else (k, j)) for j in range(2)]
        cj = ["C[%d].vals[ti]" % j if with_weight else "1" for j in range(2)]
        num = " + ".join("%s * %s * V[%d].vals[ti]" % (wk[j], cj[j], j) for j in range(2))
        den = " + ".join("%s * %s" % (wk[j], cj[j]) for j in range(2))
        if avg:
            clauses.append("P[%d].vals[ti] * ((%s) if (%s) != 0 else 1) == sf[%d] * (%s)" % (k, den, den, k, num))
        else:
            clauses.append("P[%d].vals[ti] == sf[%d] * (%s)" % (k, k, num))
    return " and ".join(clauses)


for _fn in ("SRC_POP_AVG", "SRC_POP_SUM", "TGT_POP_AVG", "TGT_POP_SUM"):
    for _wi, _ww, _tag in ((False, False, "plain"), (True, False, "interaction"), (True, True, "interaction_and_weight")):
        CONTRACTS["model:Model.update_pars#%s_%s" % (_fn.lower(), _tag)] = dict(
            schema=schema, fragment={"iter": "self._exec_order['dynamic_pars']", "stmt": "if pars[0].pop_aggregation"}, make_env=_make_env(_fn, _wi, _ww), class_module="model",
            stubs={"self.interactions[pars[0].pop_aggregation[2]][:, :, ti]": "W"},
            ensures=[
                ("C06.cross_population_aggregate_is_the_stated_function_of_same_step_values", _spec(_fn, _ww)),
                ("C06+C10+C08.the_models_interaction_weights_are_not_modified", "all(W[i][j] == w[i][j] for i in range(2) for j in range(2))"),
                ("C06.only_the_current_step_of_the_aggregating_parameter_is_written", "all(implies(i != ti, P[0].vals[i] == old(P[0].vals[i]) and P[1].vals[i] == old(P[1].vals[i])) for i in range(len(P[0].vals)))"),
            ],
            defined_props=["C06", "C10", "C08"])


def _replay(model, contract):
    """replay END TO END on the tb demo project, whose force of infection is `SRC_POP_AVG(foi_out, w_ctc, alive)` over five populations:
    after a run, at every step the parameter of population k must equal scale x sum_j w[j][k] alive_j foi_out_j / sum_j w[j][k] alive_j"""
    import logging
    import warnings

    import numpy as np
    import atomica as at

    warnings.filterwarnings("ignore")
    at.logger.setLevel(logging.ERROR)
    P = at.demo("tb", do_run=False)
    res = P.run_sim(P.parsets[0])
    m = res.model
    bad, checked = [], 0
    for par_name, pars in m._vars_by_pop.items():
        agg = getattr(pars[0], "pop_aggregation", None)
        if not agg:
            continue
        fn, var = agg[0], agg[1]
        src = m._vars_by_pop[var]
        for ti in range(0, len(m.t), max(1, len(m.t) // 12)):
            v = np.array([float(np.ravel(x[ti])[0]) for x in src])
            w = m.interactions[agg[2]][:, :, ti].copy() if len(agg) >= 3 else np.ones((len(src), len(pars)))
            if fn.startswith("SRC"):
                w = w.T
            c = np.array([float(np.ravel(x[ti])[0]) for x in m._vars_by_pop[agg[3]]]) if len(agg) == 4 else np.ones(len(src))
            for k, par in enumerate(pars):
                num = float(np.sum(w[k, :] * c * v))
                den = float(np.sum(w[k, :] * c))
                want = par.scale_factor * (num / (den if den != 0 else 1.0) if fn.endswith("AVG") else num)
                if par.limits is not None:
                    want = float(np.clip(want, par.limits[0], par.limits[1]))
                checked += 1
                if abs(par.vals[ti] - want) > 1e-9 * max(1.0, abs(want)):
                    bad.append("%s in %s at %s: %r, the %s of the same-step values gives %r" % (par_name, par.pop.name, float(m.t[ti]), float(par.vals[ti]), fn, want))
    if not checked:
        return dict(verdict="error", detail="the tb project has no cross-population aggregate")
    return dict(verdict="violates" if bad else "holds", detail="; ".join(bad[:3]) or "%d (parameter, population, step) values equal the aggregate of their same-step inputs" % checked, prestate=dict(project="tb"))


for _c in CONTRACTS.values():
    _c["replay_hook"] = _replay


# ---- Parameter.set_fcn (C06): how a function cell becomes (a) the aggregation record the contracts above read -- [function, quantity,
# interaction, weighting quantity] with blanks stripped -- or (b) for an ordinary function, the list of same-population dependencies: one entry
# per name the parser reports, except the time variables `t` and `dt`.  parse_function is a ghost (under contract in function_parser.py).
def _env_set_fcn(fcn, deps):
    def make(it):
        from pyvc.interp import PyObjV
        from pyvc import source

        mm = source.load("model")
        pop = PyObjV("Population", mm, {"name": "pop"})
        self = PyObjV("Parameter", mm, {"id": ("pop", "p"), "pop": pop, "fcn_str": None, "_fcn": None, "deps": {}, "pop_aggregation": None})
        return {"self": self, "fcn_str": fcn, "DEPS": list(deps), "ASKED": []}

    return make


def _ghost_parse(it, s):
    return ("compiled", s), list(it.live_env["DEPS"])


def _ghost_get_variable(it, name):
    it.live_env["ASKED"].append(name)
    return ["object named " + name]


for _tag, _fcn, _deps, _clause in (
        ("weighted_aggregation", "SRC_POP_AVG(foi_out, w_ctc , alive)", ["foi_out", "w_ctc", "alive"], "self.pop_aggregation == ['SRC_POP_AVG', 'foi_out', 'w_ctc', 'alive'] and len(self.deps) == 0 and ASKED == []"),
        ("plain_aggregation", "TGT_POP_SUM(x)", ["x"], "self.pop_aggregation == ['TGT_POP_SUM', 'x'] and len(self.deps) == 0 and ASKED == []"),
        ("ordinary_function", "a + b * t / dt", ["a", "b", "t", "dt"], "self.pop_aggregation is None and sorted(self.deps.keys()) == ['a', 'b'] and self.deps['a'] == ['object named a'] and self.deps['b'] == ['object named b'] and ASKED == ['a', 'b']")):
    CONTRACTS["model:Parameter.set_fcn#%s" % _tag] = dict(
        schema=schema, make_env=_env_set_fcn(_fcn, _deps), class_module="model",
        call_stubs={"parse_function": _ghost_parse, "self.pop.get_variable": _ghost_get_variable, "sc.isstring": (lambda it, x: isinstance(x, str))},
        ensures=[("C06.the_function_cell_is_recorded_and_compiled", "self.fcn_str == %r and self._fcn == ('compiled', %r)" % (_fcn, _fcn)),
                 ("C06.aggregation_record_or_same_population_dependencies", _clause)],
        defined_props=["C06"])
