"""
Contracts on the population operations of data.ProjectData (property C16: a databook object behaves as its visible data after library
operations such as removing or renaming a population; property C18: no internal error).  A databook of concrete shape: two populations
of DIFFERENT population types ('hum', 'mos'), one interaction from 'mos' to 'hum' (so each population appears on one side only), one
data table per type -- the shape the library's own malaria framework produces.
"""
schema = "covout"      # no heap objects
CONTRACTS = {}


def _make_env(it):
    from pyvc.interp import PyObjV
    from pyvc.core import Opaque
    from pyvc import source

    dm, em = source.load("data"), source.load("excel")
    inter = PyObjV("TimeDependentConnections", em, {"code_name": "bites", "from_pop_type": "mos", "to_pop_type": "hum", "from_pops": ["m1"], "to_pops": ["h1"],
                                                    "ts": {("m1", "h1"): "series m1->h1"}})
    tr = PyObjV("TimeDependentConnections", em, {"code_name": "age", "from_pop_type": "hum", "to_pop_type": "hum", "from_pops": ["h1"], "to_pops": ["h1"], "ts": {}})
    t_h = PyObjV("TimeDependentValuesEntry", em, {"name": "prev", "pop_type": "hum", "ts": {"h1": "series prev h1"}, "allowed_units": ["u"]})
    t_m = PyObjV("TimeDependentValuesEntry", em, {"name": "dens", "pop_type": "mos", "ts": {"m1": "series dens m1"}, "allowed_units": ["u"]})
    self = PyObjV("ProjectData", dm, {"pops": {"h1": {"label": "Humans", "type": "hum"}, "m1": {"label": "Mosquitoes", "type": "mos"}}, "transfers": [tr], "interpops": [inter],
                                      "tdve": {"prev": t_h, "dens": t_m}, "_pop_types": ["hum", "mos"]})
    return {"self": self, "inter": inter, "tr": tr, "t_h": t_h, "t_m": t_m}


CONTRACTS["data:ProjectData.remove_pop#mosquito_of_a_two_type_databook"] = dict(
    schema=schema, make_env=_make_env, ghost_params={"pop_name": "const:'m1'"},
    raises={}, raises_props=["C16", "C18"],
    ensures=[
        ("C16.population_is_gone_everywhere", "'m1' not in self.pops and 'm1' not in inter.from_pops and 'm1' not in inter.to_pops and 'm1' not in tr.from_pops and 'm1' not in tr.to_pops "
                                              "and all(k[0] != 'm1' and k[1] != 'm1' for k in inter.ts.keys()) and 'm1' not in t_m.ts"),
        ("C16.other_population_is_untouched", "'h1' in self.pops and inter.to_pops == ['h1'] and tr.from_pops == ['h1'] and tr.to_pops == ['h1'] and t_h.ts == {'h1': 'series prev h1'}"),
    ],
    defined_props=["C16", "C18"], op="remove")

CONTRACTS["data:ProjectData.rename_pop#mosquito_of_a_two_type_databook"] = dict(
    schema=schema, make_env=_make_env, ghost_params={"existing_code_name": "const:'m1'", "new_code_name": "const:'m2'", "new_full_name": "const:'Mosquitoes 2'"},
    raises={}, raises_props=["C16", "C18"],
    ensures=[
        ("C16.population_carries_its_new_name_everywhere", "'m1' not in self.pops and self.pops['m2'] == {'label': 'Mosquitoes 2', 'type': 'mos'} and inter.from_pops == ['m2'] "
                                                            "and list(inter.ts.keys()) == [('m2', 'h1')] and inter.ts[('m2', 'h1')] == 'series m1->h1' and t_m.ts == {'m2': 'series dens m1'}"),
        ("C16.other_population_is_untouched", "'h1' in self.pops and inter.to_pops == ['h1'] and tr.from_pops == ['h1'] and tr.to_pops == ['h1'] and t_h.ts == {'h1': 'series prev h1'}"),
    ],
    defined_props=["C16", "C18"], op="rename")


def _replay(model, contract):
    """replay on a REAL databook: ProjectData.new() for the library's malaria framework (population types hum / mos / env) with one
    population per type; the operation is applied to the mosquito population and the visible data are compared with the expectation"""
    import logging
    import os
    import warnings

    import atomica as at

    warnings.filterwarnings("ignore")
    at.logger.setLevel(logging.ERROR)
    fw = os.path.join(os.path.dirname(at.__file__), "library", "malaria_framework.xlsx")
    F = at.ProjectFramework(fw)
    D = at.ProjectData.new(F, [2000, 2001], pops={"h1": {"label": "Humans", "type": "hum"}, "m1": {"label": "Mosquitoes", "type": "mos"}, "e1": {"label": "Environment", "type": "env"}}, transfers=1)
    pre = dict(framework="library/malaria_framework.xlsx", pops={k: v["type"] for k, v in D.pops.items()},
               interactions=[[t.code_name, list(t.from_pops), list(t.to_pops)] for t in D.transfers + D.interpops], operation=contract["op"], population="m1")
    try:
        if contract["op"] == "remove":
            D.remove_pop("m1")
            gone, there = "m1", None
        else:
            D.rename_pop("m1", "m2", "Mosquitoes 2")
            gone, there = "m1", "m2"
    except Exception as e:
        return dict(verdict="violates", detail="the real %s_pop('m1') raised %s: %s" % (contract["op"], type(e).__name__, e), prestate=pre)
    bad = []
    if gone in D.pops or any(gone in t.from_pops or gone in t.to_pops or any(gone in k for k in t.ts.keys()) for t in D.transfers + D.interpops) or any(gone in t.ts for t in D.tdve.values()):
        bad.append("'%s' is still referenced" % gone)
    if there is not None and (there not in D.pops or not any(there in t.from_pops or there in t.to_pops for t in D.interpops) or not any(there in t.ts for t in D.tdve.values())):
        bad.append("'%s' does not appear where 'm1' was" % there)
    if "h1" not in D.pops or "e1" not in D.pops:
        bad.append("another population was lost")
    return dict(verdict="violates" if bad else "holds", detail="; ".join(bad) or "the databook's visible data follow the operation", prestate=pre)


for _c in CONTRACTS.values():
    _c["replay_hook"] = _replay


# ---- add_pop on the same databook: a second mosquito population appears on exactly the sides / tables of its own population type, with an
# empty series in the table's units; everything that belongs to the human type is untouched
def _ghost_timeseries(it, *a, **k):
    return ("empty series", k.get("units"))


CONTRACTS["data:ProjectData.add_pop#second_mosquito_population"] = dict(
    schema=schema, make_env=_make_env, ghost_params={"code_name": "const:' m2 '", "full_name": "const:'Mosquitoes 2'", "pop_type": "const:'mos'"},
    call_stubs={"TimeSeries": _ghost_timeseries},
    raises={}, raises_props=["C16", "C18"],
    ensures=[
        ("C16.the_population_is_listed_with_its_label_and_type_under_the_stripped_name", "self.pops['m2'] == {'label': 'Mosquitoes 2', 'type': 'mos'} and len(self.pops) == 3"),
        ("C16.it_joins_the_sides_of_its_own_type_only", "inter.from_pops == ['m1', 'm2'] and inter.to_pops == ['h1'] and tr.from_pops == ['h1'] and tr.to_pops == ['h1']"),
        ("C16.it_gets_an_empty_series_in_the_tables_of_its_own_type_only", "t_m.ts == {'m1': 'series dens m1', 'm2': ('empty series', 'u')} and t_h.ts == {'h1': 'series prev h1'}"),
    ],
    defined_props=["C16", "C18"], op="add")
CONTRACTS["data:ProjectData.add_pop#name_already_used"] = dict(
    schema=schema, make_env=_make_env, ghost_params={"code_name": "const:'m1'", "full_name": "const:'Again'", "pop_type": "const:'mos'"},
    call_stubs={"TimeSeries": _ghost_timeseries},
    raises={"AssertionError": "True"}, raises_props=["C16", "C18"],
    ensures=[], defined_props=["C16", "C18"], op="add")
CONTRACTS["data:ProjectData.add_pop#unknown_population_type"] = dict(
    schema=schema, make_env=_make_env, ghost_params={"code_name": "const:'x1'", "full_name": "const:'X'", "pop_type": "const:'env'"},
    call_stubs={"TimeSeries": _ghost_timeseries},
    raises={"AssertionError": "True"}, raises_props=["C16", "C18"],
    ensures=[], defined_props=["C16", "C18"], op="add")
