"""
Contracts on the population operations of data.ProjectData (property C16: a databook object behaves as its visible data after library
operations such as removing or renaming a population; property C18: no internal error).  A databook of concrete shape: two populations
of DIFFERENT population types ('hum', 'mos'), one interaction from 'mos' to 'hum' (so each population appears on one side only), one
data table per type -- the shape the library's own malaria framework produces.
"""
schema = "covout"      # no heap objects
CONTRACTS = {}


def _make_env(it):
    from pyvc.interp import PyObjV
    from pyvc.core import Opaque
    from pyvc import source

    dm, em = source.load("data"), source.load("excel")
    inter = PyObjV("TimeDependentConnections", em, {"code_name": "bites", "from_pop_type": "mos", "to_pop_type": "hum", "from_pops": ["m1"], "to_pops": ["h1"],
                                                    "ts": {("m1", "h1"): "series m1->h1"}})
    tr = PyObjV("TimeDependentConnections", em, {"code_name": "age", "from_pop_type": "hum", "to_pop_type": "hum", "from_pops": ["h1"], "to_pops": ["h1"], "ts": {}})
    t_h = PyObjV("TimeDependentValuesEntry", em, {"name": "prev", "pop_type": "hum", "ts": {"h1": "series prev h1"}, "allowed_units": ["u"]})
    t_m = PyObjV("TimeDependentValuesEntry", em, {"name": "dens", "pop_type": "mos", "ts": {"m1": "series dens m1"}, "allowed_units": ["u"]})
    self = PyObjV("ProjectData", dm, {"pops": {"h1": {"label": "Humans", "type": "hum"}, "m1": {"label": "Mosquitoes", "type": "mos"}}, "transfers": [tr], "interpops": [inter],
                                      "tdve": {"prev": t_h, "dens": t_m}, "_pop_types": ["hum", "mos"]})
    return {"self": self, "inter": inter, "tr": tr, "t_h": t_h, "t_m": t_m}


CONTRACTS["data:ProjectData.remove_pop#mosquito_of_a_two_type_databook"] = dict(
    schema=schema, make_env=_make_env, ghost_params={"pop_name": "const:'m1'"},
    raises={}, raises_props=["C16", "C18"],
    ensures=[
        ("C16.population_is_gone_everywhere", "'m1' not in self.pops and 'm1' not in inter.from_pops and 'm1' not in inter.to_pops and 'm1' not in tr.from_pops and 'm1' not in tr.to_pops "
                                              "and all(k[0] != 'm1' and k[1] != 'm1' for k in inter.ts.keys()) and 'm1' not in t_m.ts"),
        ("C16.other_population_is_untouched", "'h1' in self.pops and inter.to_pops == ['h1'] and tr.from_pops == ['h1'] and tr.to_pops == ['h1'] and t_h.ts == {'h1': 'series prev h1'}"),
    ],
    defined_props=["C16", "C18"], op="remove")

CONTRACTS["data:ProjectData.rename_pop#mosquito_of_a_two_type_databook"] = dict(
    schema=schema, make_env=_make_env, ghost_params={"existing_code_name": "const:'m1'", "new_code_name": "const:'m2'", "new_full_name": "const:'Mosquitoes 2'"},
    raises={}, raises_props=["C16", "C18"],
    ensures=[
        ("C16.population_carries_its_new_name_everywhere", "'m1' not in self.pops and self.pops['m2'] == {'label': 'Mosquitoes 2', 'type': 'mos'} and inter.from_pops == ['m2'] "
                                                            "and list(inter.ts.keys()) == [('m2', 'h1')] and inter.ts[('m2', 'h1')] == 'series m1->h1' and t_m.ts == {'m2': 'series dens m1'}"),
        ("C16.other_population_is_untouched", "'h1' in self.pops and inter.to_pops == ['h1'] and tr.from_pops == ['h1'] and tr.to_pops == ['h1'] and t_h.ts == {'h1': 'series prev h1'}"),
    ],
    defined_props=["C16", "C18"], op="rename")


def _replay(model, contract):
    """replay on a REAL databook: ProjectData.new() for the library's malaria framework (population types hum / mos / env) with one
    population per type; the operation is applied to the mosquito population and the visible data are compared with the expectation"""
    import logging
    import os
    import warnings

    import atomica as at

    warnings.filterwarnings("ignore")
    at.logger.setLevel(logging.ERROR)
    fw = os.path.join(os.path.dirname(at.__file__), "library", "malaria_framework.xlsx")
    F = at.ProjectFramework(fw)
    D = at.ProjectData.new(F, [2000, 2001], pops={"h1": {"label": "Humans", "type": "hum"}, "m1": {"label": "Mosquitoes", "type": "mos"}, "e1": {"label": "Environment", "type": "env"}}, transfers=1)
    pre = dict(framework="library/malaria_framework.xlsx", pops={k: v["type"] for k, v in D.pops.items()},
               interactions=[[t.code_name, list(t.from_pops), list(t.to_pops)] for t in D.transfers + D.interpops], operation=contract["op"], population="m1")
    try:
        if contract["op"] == "remove":
            D.remove_pop("m1")
            gone, there = "m1", None
        else:
            D.rename_pop("m1", "m2", "Mosquitoes 2")
            gone, there = "m1", "m2"
    except Exception as e:
        return dict(verdict="violates", detail="the real %s_pop('m1') raised %s: %s" % (contract["op"], type(e).__name__, e), prestate=pre)
    bad = []
    if gone in D.pops or any(gone in t.from_pops or gone in t.to_pops or any(gone in k for k in t.ts.keys()) for t in D.transfers + D.interpops) or any(gone in t.ts for t in D.tdve.values()):
        bad.append("'%s' is still referenced" % gone)
    if there is not None and (there not in D.pops or not any(there in t.from_pops or there in t.to_pops for t in D.interpops) or not any(there in t.ts for t in D.tdve.values())):
        bad.append("'%s' does not appear where 'm1' was" % there)
    if "h1" not in D.pops or "e1" not in D.pops:
        bad.append("another population was lost")
    return dict(verdict="violates" if bad else "holds", detail="; ".join(bad) or "the databook's visible data follow the operation", prestate=pre)


for _c in CONTRACTS.values():
    _c["replay_hook"] = _replay


# ---- add_pop on the same databook: a second mosquito population appears on exactly the sides / tables of its own population type, with an
# empty series in the table's units; everything that belongs to the human type is untouched
def _ghost_timeseries(it, *a, **k):
    return ("empty series", k.get("units"))


CONTRACTS["data:ProjectData.add_pop#second_mosquito_population"] = dict(
    schema=schema, make_env=_make_env, ghost_params={"code_name": "const:' m2 '", "full_name": "const:'Mosquitoes 2'", "pop_type": "const:'mos'"},
    call_stubs={"TimeSeries": _ghost_timeseries},
    raises={}, raises_props=["C16", "C18"],
    ensures=[
        ("C16.the_population_is_listed_with_its_label_and_type_under_the_stripped_name", "self.pops['m2'] == {'label': 'Mosquitoes 2', 'type': 'mos'} and len(self.pops) == 3"),
        ("C16.it_joins_the_sides_of_its_own_type_only", "inter.from_pops == ['m1', 'm2'] and inter.to_pops == ['h1'] and tr.from_pops == ['h1'] and tr.to_pops == ['h1']"),
        ("C16.it_gets_an_empty_series_in_the_tables_of_its_own_type_only", "t_m.ts == {'m1': 'series dens m1', 'm2': ('empty series', 'u')} and t_h.ts == {'h1': 'series prev h1'}"),
    ],
    defined_props=["C16", "C18"], op="add")
CONTRACTS["data:ProjectData.add_pop#name_already_used"] = dict(
    schema=schema, make_env=_make_env, ghost_params={"code_name": "const:'m1'", "full_name": "const:'Again'", "pop_type": "const:'mos'"},
    call_stubs={"TimeSeries": _ghost_timeseries},
    raises={"AssertionError": "True"}, raises_props=["C16", "C18"],
    ensures=[], defined_props=["C16", "C18"], op="add")
CONTRACTS["data:ProjectData.add_pop#unknown_population_type"] = dict(
    schema=schema, make_env=_make_env, ghost_params={"code_name": "const:'x1'", "full_name": "const:'X'", "pop_type": "const:'env'"},
    call_stubs={"TimeSeries": _ghost_timeseries},
    raises={"AssertionError": "True"}, raises_props=["C16", "C18"],
    ensures=[], defined_props=["C16", "C18"], op="add")


# ---- transfers and interactions as library operations (C16: "library operations ... behave as their visible data"): add_transfer / add_interaction list a NEW empty table
# over exactly the populations of the stated type(s), with its units / uncertainty / assumption columns switched on, under a code name no other transfer or interaction
# has; rename_transfer renames that one table (to a free name); remove_transfer / remove_interaction remove that one table and leave the others
def _env_tdc(it):
    import numpy as np
    from pyvc.interp import PyObjV
    from pyvc import source

    dm, em = source.load("data"), source.load("excel")
    tdc = lambda name, typ: PyObjV("TimeDependentConnections", em, {"code_name": name, "full_name": name.title(), "type": typ, "ts": {}, "TAG": name})
    age, mig, mix = tdc("age", "transfer"), tdc("mig", "transfer"), tdc("mix", "interaction")
    self = PyObjV("ProjectData", dm, {"pops": {"adults": {"label": "Adults", "type": "hum"}, "mosquitoes": {"label": "Mosquitoes", "type": "vec"}, "children": {"label": "Children", "type": "hum"}},
                                      "_pop_types": ["hum", "vec"], "tvec": np.array([2020.0, 2021.0]), "transfers": [age, mig], "interpops": [mix]})
    return {"self": self, "AGE": age, "MIG": mig, "MIX": mix}


_tdc_stubs = {"format_duration": (lambda it, *a, **k: "per year")}
_flags = "result.write_units is True and result.write_assumption is True and result.write_uncertainty is True and len(result.ts) == 0"
for _tag, _pt, _pops in (("default_population_type", None, ["adults", "children"]), ("stated_population_type", "vec", ["mosquitoes"])):
    CONTRACTS["data:ProjectData.add_transfer#%s" % _tag] = dict(
        schema=schema, make_env=lambda it, pt=_pt: dict(_env_tdc(it), code_name="new", full_name="New transfer", pop_type=pt), call_stubs=_tdc_stubs, concrete_new=["TimeDependentConnections"],
        ensures=[("C16.the_new_transfer_is_listed_last_and_the_others_are_kept", "len(self.transfers) == 3 and self.transfers[0] is AGE and self.transfers[1] is MIG and self.transfers[2] is result and len(self.interpops) == 1"),
                 ("C16.it_connects_exactly_the_populations_of_its_type_in_both_directions", "result.from_pops == %r and result.to_pops == %r and result.from_pop_type == %r and result.to_pop_type == %r and result.type == 'transfer'" % (_pops, _pops, _pt or "hum", _pt or "hum")),
                 ("C16.it_is_empty_named_as_asked_and_writes_all_its_columns", "result.code_name == 'new' and result.full_name == 'New transfer' and " + _flags)],
        defined_props=["C16"])
for _tag, _name, _pt, _exc in (("name_of_another_transfer", "mig", None, "Exception"), ("name_of_an_interaction", "mix", None, "Exception"), ("unknown_population_type", "new", "fish", "AssertionError")):
    CONTRACTS["data:ProjectData.add_transfer#%s" % _tag] = dict(
        schema=schema, make_env=lambda it, n=_name, pt=_pt: dict(_env_tdc(it), code_name=n, full_name="New transfer", pop_type=pt), call_stubs=_tdc_stubs, concrete_new=["TimeDependentConnections"],
        raises={_exc: "True"}, raises_props=["C16", "C18"], ensures=[], defined_props=["C16"])
CONTRACTS["data:ProjectData.add_interaction#across_population_types"] = dict(
    schema=schema, make_env=lambda it: dict(_env_tdc(it), code_name="bites", full_name="Bites", from_pop_type="vec", to_pop_type=None), call_stubs=_tdc_stubs, concrete_new=["TimeDependentConnections"],
    ensures=[("C16.the_new_interaction_is_listed_last_and_the_others_are_kept", "len(self.interpops) == 2 and self.interpops[0] is MIX and self.interpops[1] is result and len(self.transfers) == 2"),
             ("C16.it_connects_the_populations_of_the_from_type_to_those_of_the_to_type", "result.from_pops == ['mosquitoes'] and result.to_pops == ['adults', 'children'] and result.from_pop_type == 'vec' and result.to_pop_type == 'hum' and result.type == 'interaction'"),
             ("C16.it_is_empty_named_as_asked_and_writes_all_its_columns", "result.code_name == 'bites' and result.full_name == 'Bites' and " + _flags)],
    defined_props=["C16"])
CONTRACTS["data:ProjectData.add_interaction#name_already_used"] = dict(
    schema=schema, make_env=lambda it: dict(_env_tdc(it), code_name="age", full_name="Bites", from_pop_type=None, to_pop_type=None), call_stubs=_tdc_stubs, concrete_new=["TimeDependentConnections"],
    raises={"Exception": "True"}, raises_props=["C16", "C18"], ensures=[], defined_props=["C16"])
CONTRACTS["data:ProjectData.rename_transfer#to_a_free_name"] = dict(
    schema=schema, make_env=lambda it: dict(_env_tdc(it), existing_code_name="mig", new_code_name="move", new_full_name="Movement"),
    ensures=[("C16.that_transfer_carries_the_new_names_and_the_others_are_untouched", "MIG.code_name == 'move' and MIG.full_name == 'Movement' and AGE.code_name == 'age' and AGE.full_name == 'Age' and MIX.code_name == 'mix' and len(self.transfers) == 2 and self.transfers[1] is MIG")],
    defined_props=["C16"])
for _tag, _old, _new, _exc in (("to_a_name_already_used", "mig", "mix", "Exception"), ("of_an_unknown_transfer", "nothing", "move", "NotFoundError")):
    CONTRACTS["data:ProjectData.rename_transfer#%s" % _tag] = dict(
        schema=schema, make_env=lambda it, o=_old, n=_new: dict(_env_tdc(it), existing_code_name=o, new_code_name=n, new_full_name="Movement"),
        raises={_exc: "True"}, raises_props=["C16", "C18"], ensures=[], defined_props=["C16"])
CONTRACTS["data:ProjectData.remove_transfer#first_of_two"] = dict(
    schema=schema, make_env=lambda it: dict(_env_tdc(it), code_name="age"),
    ensures=[("C16.that_transfer_is_gone_and_the_others_are_kept", "len(self.transfers) == 1 and self.transfers[0] is MIG and len(self.interpops) == 1 and self.interpops[0] is MIX")], defined_props=["C16"])
CONTRACTS["data:ProjectData.remove_interaction#only_one"] = dict(
    schema=schema, make_env=lambda it: dict(_env_tdc(it), code_name="mix"),
    ensures=[("C16.that_interaction_is_gone_and_the_transfers_are_kept", "len(self.interpops) == 0 and len(self.transfers) == 2 and self.transfers[0] is AGE and self.transfers[1] is MIG")], defined_props=["C16"])
