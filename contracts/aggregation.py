"""
Contract on the population aggregation of PlotData.__init__ (property C20: "summed aggregates equal the sum of their parts, averages
lie between the smallest and largest part, the total of a number quantity equals the sum over populations"): the body of the inner
loop `for output_name in aggregated_outputs[...].keys():` for an aggregate of two populations 'a' and 'b' of one output 'x', with
values of arbitrary (symbolic) length.  Variants: pop_aggregation in {None, 'sum', 'average', 'weighted'}.

`Series(...)` (the record appended to self.series) is replaced by a ghost constructor that keeps its arguments; whether the unit
of the output is dimensionless (the test against the framework constants) is a ghost Boolean.
"""
import z3

schema = "covout"      # no heap objects: any schema without families
CONTRACTS = {}

_ITER = "aggregated_outputs[list(aggregated_outputs.keys())[0]].keys()"
_DIMLESS = "aggregated_units[output_name] in ['', FS.QUANTITY_TYPE_FRACTION, FS.QUANTITY_TYPE_PROPORTION, FS.QUANTITY_TYPE_PROBABILITY, FS.QUANTITY_TYPE_RATE]"


def _make_env(method):
    def make(it):
        from pyvc.interp import PyObjV
        from pyvc.core import LArr
        from pyvc import source

        n = z3.Int("n_times")
        it.facts.append(n >= 0)
        fa, fb = z3.Function("vals_a", z3.IntSort(), z3.RealSort()), z3.Function("vals_b", z3.IntSort(), z3.RealSort())
        a = LArr(n, lambda i: fa(i if z3.is_expr(i) else z3.IntVal(i)), fresh_alloc=False)
        b = LArr(n, lambda i: fb(i if z3.is_expr(i) else z3.IntVal(i)), fresh_alloc=False)
        pa, pb = z3.Real("popsize_a"), z3.Real("popsize_b")
        self = PyObjV("PlotData", source.load("plotting"), {"series": []})
        return {"self": self, "pop": {"total": ["a", "b"]}, "output_name": "x", "pop_aggregation": method,
                "aggregated_outputs": {"a": {"x": a}, "b": {"x": b}}, "aggregated_units": {"x": "u"}, "aggregated_timescales": {"x": None},
                "popsize": {"a": LArr(n, lambda i: pa, fresh_alloc=False), "b": LArr(n, lambda i: pb, fresh_alloc=False)},
                "tvecs": {"r": None}, "result_label": "r", "pops_required": ["a", "b", "c"], "outputs_required": ["x", "y"],
                # whatever a previous iteration of the enclosing loops left behind (the body must choose its own method)
                "this_pop_aggregation": "sum", "this_output_aggregation": "sum", "data_label": {"x": None}, "A": a, "B": b, "PA": pa, "PB": pb, "n": n}

    return make


def _series(it, *a, **k):
    return ("series", a, k)


_sum = "all(vals[i] == A[i] + B[i] for i in range(n))"
_avg = "all(vals[i] == (A[i] + B[i]) / 2 for i in range(n))"
_between = "all(min(A[i], B[i]) <= vals[i] and vals[i] <= max(A[i], B[i]) for i in range(n))"
for _m, _tag in ((None, "default"), ("sum", "sum"), ("average", "average"), ("weighted", "weighted")):
    if _m is None:
        _ens = [("C20.default_for_a_number_quantity_is_the_sum_over_populations", "implies(not DIMLESS, %s)" % _sum),
                ("C20.default_for_a_dimensionless_quantity_is_the_average", "implies(DIMLESS, %s)" % _avg)]
    elif _m == "sum":
        _ens = [("C20.summed_aggregate_is_the_sum_of_its_parts", _sum)]
    elif _m == "average":
        _ens = [("C20.average_is_the_mean_of_its_parts", _avg), ("C20.average_lies_between_the_smallest_and_largest_part", _between)]
    else:
        _ens = [("C20.weighted_average_uses_the_population_sizes", "all(implies(A[i] * PA + B[i] * PB != 0, vals[i] * (PA + PB) == A[i] * PA + B[i] * PB) for i in range(n))"),
                ("C20.weighted_average_lies_between_the_smallest_and_largest_part", "all(implies(A[i] * PA + B[i] * PB != 0, min(A[i], B[i]) <= vals[i] and vals[i] <= max(A[i], B[i])) for i in range(n))")]
    _ens.append(("C20.one_series_is_reported_for_the_aggregate", "len(self.series) == 1"))
    CONTRACTS["plotting:PlotData.__init__#population_aggregate_%s" % _tag] = dict(
        schema=schema, fragment={"iter": _ITER}, make_env=_make_env(_m),
        ghost_params={"DIMLESS": "bool"}, stubs={_DIMLESS: "DIMLESS"}, call_stubs={"Series": _series},
        requires=(["PA > 0", "PB > 0"] if _m == "weighted" else []),
        ensures=_ens, defined_props=["C20"], method=_m)


def _replay(model, contract):
    """replay on real numpy arrays: the real statements of the loop body run once inside the real module namespace (Series is the
    real class), and the reported series is compared with the documented aggregate"""
    import ast
    import inspect
    import textwrap

    import numpy as np
    import atomica.plotting as apl

    def num(t):
        v = model.eval(t, model_completion=True)
        if z3.is_int_value(v):
            return v.as_long()
        try:
            return float(v.numerator_as_long()) / float(v.denominator_as_long())
        except Exception:
            v = v.approx(12)
            return float(v.numerator_as_long()) / float(v.denominator_as_long())

    n = max(1, min(4, int(num(z3.Int("n_times")))))
    fa, fb = z3.Function("vals_a", z3.IntSort(), z3.RealSort()), z3.Function("vals_b", z3.IntSort(), z3.RealSort())
    a = np.array([num(fa(z3.IntVal(i))) for i in range(n)], dtype=float)
    b = np.array([num(fb(z3.IntVal(i))) for i in range(n)], dtype=float)
    pa, pb = num(z3.Real("popsize_a")), num(z3.Real("popsize_b"))
    dimless = bool(z3.is_true(model.eval(z3.Bool("DIMLESS"), model_completion=True)))
    method = contract["method"]
    src = textwrap.dedent(inspect.getsource(apl.PlotData.__init__))
    loops = [x for x in ast.walk(ast.parse(src)) if isinstance(x, ast.For) and ast.unparse(x.iter) == _ITER]
    once = ast.For(target=ast.Name(id="_once", ctx=ast.Store()), iter=ast.List(elts=[ast.Constant(0)], ctx=ast.Load()), body=loops[0].body, orelse=[])

    class _PD:
        pass

    pd = _PD()
    pd.series = []
    env = dict(vars(apl))
    env.update(self=pd, pop={"total": ["a", "b"]}, output_name="x", pop_aggregation=method, aggregated_outputs={"a": {"x": a.copy()}, "b": {"x": b.copy()}},
               aggregated_units={"x": apl.FS.QUANTITY_TYPE_PROBABILITY if dimless else apl.FS.QUANTITY_TYPE_NUMBER}, aggregated_timescales={"x": None},
               popsize={"a": np.full(n, pa), "b": np.full(n, pb)}, tvecs={"r": np.arange(n, dtype=float)}, result_label="r", pops_required=["a", "b", "c"], outputs_required=["x", "y"], this_pop_aggregation="sum", this_output_aggregation="sum", data_label={"x": None})
    pre = dict(method=method, dimensionless=dimless, a=a.tolist(), b=b.tolist(), popsize=[pa, pb])
    try:
        with np.errstate(all="ignore"):
            exec(compile(ast.fix_missing_locations(ast.Module(body=[once], type_ignores=[])), "<population aggregation of PlotData.__init__>", "exec"), env)
    except Exception as e:
        return dict(verdict="violates", detail="real code raised %s: %s" % (type(e).__name__, e), prestate=pre)
    if len(pd.series) != 1:
        return dict(verdict="violates", detail="%d series reported" % len(pd.series), prestate=pre)
    got = np.asarray(pd.series[0].vals, dtype=float)
    eff = method or ("average" if dimless else "sum")
    if eff == "sum":
        want = a + b
    elif eff == "average":
        want = (a + b) / 2
    else:
        want = np.where(a * pa + b * pb != 0, (a * pa + b * pb) / (pa + pb), got)
    ok = got.shape == want.shape and np.allclose(got, want, rtol=1e-9, atol=1e-12)
    return dict(verdict="holds" if ok else "violates", detail="aggregate '%s' of a=%r, b=%r reported as %r, documented value %r" % (eff, a.tolist(), b.tolist(), got.tolist(), want.tolist()), prestate=pre)


for _c in CONTRACTS.values():
    _c["replay_hook"] = _replay


# ---- the output aggregation (third pass of PlotData.__init__): an aggregate of two outputs 'x' and 'y' of one population
_DIMLESS_OUT = "units[0] in ['', FS.QUANTITY_TYPE_FRACTION, FS.QUANTITY_TYPE_PROPORTION, FS.QUANTITY_TYPE_PROBABILITY, FS.QUANTITY_TYPE_RATE]"


def _make_env_out(method):
    def make(it):
        from pyvc.core import LArr

        n = z3.Int("n_times")
        it.facts.append(n >= 0)
        f = {k: z3.Function(k, z3.IntSort(), z3.RealSort()) for k in ("vals_x", "vals_y", "size_x", "size_y")}
        arr = lambda k: LArr(n, lambda i, g=f[k]: g(i if z3.is_expr(i) else z3.IntVal(i)), fresh_alloc=False)
        X, Y, SX, SY = arr("vals_x"), arr("vals_y"), arr("size_x"), arr("size_y")
        return {"self": None, "output": {"agg": ["x", "y"]}, "pop_label": "p", "output_aggregation": method, # a third output 'z' is present in the same call but is not part of the aggregate
                "data_dict": {"x": X, "y": Y, "z": arr("size_x")}, "compsize": {"x": SX, "y": SY, "z": SX},
                "output_units": {"x": "u", "y": "u", "z": "other"}, "output_timescales": {"x": None, "y": None, "z": 1.0}, "aggregated_outputs": {"p": {}}, "aggregated_units": {}, "aggregated_timescales": {}, "this_output_aggregation": "sum",
                "X": X, "Y": Y, "SX": SX, "SY": SY, "n": n}

    return make


_agg = "aggregated_outputs['p']['agg']"
_osum = "all(%s[i] == X[i] + Y[i] for i in range(n))" % _agg
_oavg = "all(%s[i] == (X[i] + Y[i]) / 2 for i in range(n))" % _agg
for _m, _tag in ((None, "default"), ("sum", "sum"), ("average", "average"), ("weighted", "weighted")):
    if _m is None:
        _ens = [("C20.default_output_aggregate_of_a_number_quantity_is_the_sum", "implies(not DIMLESS, %s)" % _osum),
                ("C20.default_output_aggregate_of_a_dimensionless_quantity_is_the_average", "implies(DIMLESS, %s)" % _oavg)]
    elif _m == "sum":
        _ens = [("C20.summed_output_aggregate_is_the_sum_of_its_parts", _osum)]
    elif _m == "average":
        _ens = [("C20.averaged_output_aggregate_is_the_mean_of_its_parts", _oavg),
                ("C20.averaged_output_aggregate_lies_between_its_parts", "all(min(X[i], Y[i]) <= %s[i] and %s[i] <= max(X[i], Y[i]) for i in range(n))" % (_agg, _agg))]
    else:
        _ens = [("C20.weighted_output_aggregate_uses_the_compartment_sizes", "all(%s[i] * (SX[i] + SY[i]) == X[i] * SX[i] + Y[i] * SY[i] for i in range(n))" % _agg)]
    CONTRACTS["plotting:PlotData.__init__#output_aggregate_%s" % _tag] = dict(
        schema=schema, fragment={"iter": "outputs", "body_contains": "this_output_aggregation"}, make_env=_make_env_out(_m),
        ghost_params={"DIMLESS": "bool"}, stubs={_DIMLESS_OUT: "DIMLESS"}, call_stubs={"isna": (lambda it, x: x is None)},
        requires=(["all(SX[i] > 0 and SY[i] > 0 for i in range(n))"] if _m == "weighted" else []),
        ensures=_ens + [("C20.aggregate_keeps_the_common_unit", "aggregated_units['agg'] == 'u'")], defined_props=["C20"], method=_m)


def _replay_out(model, contract):
    """replay of the output aggregation on real numpy arrays inside the real module namespace"""
    import ast
    import inspect
    import textwrap

    import numpy as np
    import atomica.plotting as apl

    def num(t):
        v = model.eval(t, model_completion=True)
        if z3.is_int_value(v):
            return v.as_long()
        try:
            return float(v.numerator_as_long()) / float(v.denominator_as_long())
        except Exception:
            v = v.approx(12)
            return float(v.numerator_as_long()) / float(v.denominator_as_long())

    n = max(1, min(4, int(num(z3.Int("n_times")))))
    arr = lambda k: np.array([num(z3.Function(k, z3.IntSort(), z3.RealSort())(z3.IntVal(i))) for i in range(n)], dtype=float)
    X, Y, SX, SY = arr("vals_x"), arr("vals_y"), arr("size_x"), arr("size_y")
    dimless = bool(z3.is_true(model.eval(z3.Bool("DIMLESS"), model_completion=True)))
    method = contract["method"]
    if method == "weighted":
        SX, SY = np.abs(SX) + 1.0, np.abs(SY) + 1.0
    src = textwrap.dedent(inspect.getsource(apl.PlotData.__init__))
    loops = [x for x in ast.walk(ast.parse(src)) if isinstance(x, ast.For) and ast.unparse(x.iter) == "outputs" and "this_output_aggregation" in "\n".join(ast.unparse(b) for b in x.body)]
    once = ast.For(target=ast.Name(id="_once", ctx=ast.Store()), iter=ast.List(elts=[ast.Constant(0)], ctx=ast.Load()), body=loops[0].body, orelse=[])
    unit = apl.FS.QUANTITY_TYPE_PROBABILITY if dimless else apl.FS.QUANTITY_TYPE_NUMBER
    env = dict(vars(apl))
    env.update(self=None, output={"agg": ["x", "y"]}, pop_label="p", output_aggregation=method, data_dict={"x": X.copy(), "y": Y.copy(), "z": SX.copy()}, compsize={"x": SX.copy(), "y": SY.copy(), "z": SX.copy()},
               output_units={"x": unit, "y": unit, "z": "other"}, output_timescales={"x": None, "y": None, "z": 1.0}, aggregated_outputs={"p": {}}, aggregated_units={}, aggregated_timescales={}, this_output_aggregation="sum")
    pre = dict(method=method, dimensionless=dimless, x=X.tolist(), y=Y.tolist(), size_x=SX.tolist(), size_y=SY.tolist())
    try:
        with np.errstate(all="ignore"):
            exec(compile(ast.fix_missing_locations(ast.Module(body=[once], type_ignores=[])), "<output aggregation of PlotData.__init__>", "exec"), env)
    except Exception as e:
        return dict(verdict="violates", detail="real code raised %s: %s" % (type(e).__name__, e), prestate=pre)
    got = np.asarray(env["aggregated_outputs"]["p"]["agg"], dtype=float)
    eff = method or ("average" if dimless else "sum")
    want = X + Y if eff == "sum" else ((X + Y) / 2 if eff == "average" else (X * SX + Y * SY) / (SX + SY))
    ok = got.shape == want.shape and np.allclose(got, want, rtol=1e-9, atol=1e-12)
    return dict(verdict="holds" if ok else "violates", detail="output aggregate '%s' of x=%r, y=%r reported as %r, documented value %r" % (eff, X.tolist(), Y.tolist(), got.tolist(), want.tolist()), prestate=pre)


for _k, _c in CONTRACTS.items():
    if "#output_aggregate_" in _k:
        _c["replay_hook"] = _replay_out
