"""
Contract on the objective that optimisation evaluates (property C15: "the documented sum of the requested outputs over the requested
years and populations"): the body of `for pop in model.pops:` in optimization.Measurable.get_objective_val, for one population and
one matching variable.  Concrete shape (two time points, one variable), symbolic contents (values, the year filter, dt).

  * a population that was asked for (no population list, or its name is in the list) contributes the values of the variable at the
    selected time points -- divided by dt (annualised) for a flow;
  * a population that was not asked for contributes nothing.
"""
import numpy as np
import z3

schema = "model_schema"
CONTRACTS = {}
T = 2


def _make_env(pop_names, is_link):
    def make(it):
        from pyvc.interp import PyObjV, ClassV
        from pyvc.core import LArr
        from pyvc import source

        mm = source.load("model")
        vals = [z3.Real("vals_%d" % i) for i in range(T)]
        mask = [z3.Bool("use_%d" % i) for i in range(T)]
        dt = z3.Real("dt")
        it.pc.append(dt > 0)
        var = PyObjV("Link" if is_link else "Compartment", mm, {"vals": LArr(T, it._list_reader(vals)), "dt": dt, "id": ("p0", "x")})
        pop = PyObjV("Population", mm, {"name": "p0"})
        self = PyObjV("Measurable", source.load("optimization"), {"measurable_name": "x", "pop_names": pop_names, "weight": 1.0, "t": np.array([2020.0, 2021.0])})
        val0 = z3.Real("val0")
        return {"self": self, "pop": pop, "VARS": [var], "val": val0, "val0": val0, "matched": False, "vals": vals, "use": mask, "dt": dt,
                "t_filter": LArr(T, it._list_reader(mask), dtype="bool"), "model": None, "baseline": None,
                "Link": ClassV("Link", mm), "NotFoundError": ClassV("NotFoundError", None)}

    return make


def _sum(is_link):
    s = " + ".join("(vals[%d] if use[%d] else 0)" % (i, i) for i in range(T))
    return "(%s) / dt" % s if is_link else s


for _pn, _tag, _asked in ((None, "all_populations", True), (["p0"], "named_population", True), (["other"], "other_population", False)):
    for _is_link in (False, True):
        if _asked:
            _ens = [("C15.requested_population_contributes_its_values_over_the_requested_years", "val == val0 + %s" % _sum(_is_link)),
                    ("C15.requested_population_counts_as_matched", "matched")]
        else:
            _ens = [("C15.population_not_requested_contributes_nothing", "val == val0 and not matched")]
        CONTRACTS["optimization:Measurable.get_objective_val#%s_%s" % (_tag, "flow" if _is_link else "stock")] = dict(
            schema=schema, fragment={"iter": "model.pops"}, make_env=_make_env(_pn, _is_link), class_module="model",
            stubs={"pop.get_variable(self.measurable_name)": "VARS"}, ghost_params={},
            ensures=_ens, defined_props=["C15"], pop_names=_pn, is_link=_is_link, asked=_asked)


def _replay(model, contract):
    """replay on REAL objects: a real Measurable, a real Link / Compartment holding the model's values, a population object with the
    model's name whose get_variable() returns it; the real statements of the loop body are executed once"""
    import ast
    import inspect
    import textwrap

    import atomica.model as am
    import atomica.optimization as ao

    def num(t):
        v = model.eval(t, model_completion=True)
        if z3.is_true(v) or z3.is_false(v):
            return bool(z3.is_true(v))
        try:
            return float(v.numerator_as_long()) / float(v.denominator_as_long())
        except Exception:
            v = v.approx(12)
            return float(v.numerator_as_long()) / float(v.denominator_as_long())

    vals = [num(z3.Real("vals_%d" % i)) for i in range(T)]
    use = [num(z3.Bool("use_%d" % i)) for i in range(T)]
    dt = num(z3.Real("dt"))
    val0 = num(z3.Real("val0"))
    is_link, pop_names = contract["is_link"], contract["pop_names"]
    var = object.__new__(am.Link if is_link else am.Compartment)
    var.id, var.vals, var.dt = ("p0", "x"), np.array(vals, dtype=float), dt

    class _Pop:
        name = "p0"

        def get_variable(self, name):
            return [var]

    meas = ao.Measurable("x", t=[2020.0, 2021.0], pop_names=pop_names)
    src = textwrap.dedent(inspect.getsource(ao.Measurable.get_objective_val))
    loops = [n for n in ast.walk(ast.parse(src)) if isinstance(n, ast.For) and ast.unparse(n.iter) == "model.pops"]
    once = ast.For(target=ast.Name(id="_once", ctx=ast.Store()), iter=ast.List(elts=[ast.Constant(0)], ctx=ast.Load()), body=loops[0].body, orelse=[])
    env = dict(vars(ao))
    env.update(self=meas, pop=_Pop(), val=val0, matched=False, t_filter=np.array(use, dtype=bool))
    pre = dict(pop_names=pop_names, population="p0", variable="flow" if is_link else "stock", vals=vals, selected=use, dt=dt, val_before=val0)
    try:
        exec(compile(ast.fix_missing_locations(ast.Module(body=[once], type_ignores=[])), "<loop body of get_objective_val>", "exec"), env)
    except Exception as e:
        return dict(verdict="violates", detail="real code raised %s: %s" % (type(e).__name__, e), prestate=pre)
    contrib = sum(v for v, u in zip(vals, use) if u) / (dt if is_link else 1.0)
    want = val0 + (contrib if contract["asked"] else 0.0)
    got = float(env["val"])
    ok = abs(got - want) <= 1e-9 * max(1.0, abs(want)) and bool(env["matched"]) == bool(contract["asked"])
    return dict(verdict="holds" if ok else "violates",
                detail="population 'p0' with pop_names=%r: objective went from %r to %r (matched=%r); the documented sum gives %r" % (pop_names, val0, got, bool(env["matched"]), want), prestate=pre)


for _c in CONTRACTS.values():
    _c["replay_hook"] = _replay


# ---- hard targets (C15: "meets every hard target the starting point met"): a target measurable evaluates to +infinity exactly when the
# target is missed and to 0 otherwise, so an optimiser that only accepts improvements can never move to a point that misses a target
# the starting point met.  Measurable.get_objective_val (the summed output, under contract above) is the ghost value VAL here.
def _env_target(cls, fields):
    def make(it):
        from pyvc.interp import PyObjV
        from pyvc.core import Opaque
        from pyvc import source

        f = {"measurable_name": "x", "pop_names": None, "weight": 1.0, "t": Opaque("years")}
        env = {}
        for k in fields:
            if k == "target_type":
                continue
            env[k.upper()] = z3.Real(k)
            f[k] = env[k.upper()]
        if "target_type" in fields:
            f["target_type"] = fields["target_type"]
        env.update({"self": PyObjV(cls, source.load("optimization"), f), "model": Opaque("model"), "baseline": z3.Real("baseline"), "BASE": z3.Real("baseline")})
        return env

    return make


_INF = "float('inf')"
for _name, _cls, _fields, _req, _missed in (
        ("at_most", "AtMostMeasurable", {"threshold": None}, [], "VAL > THRESHOLD"),
        ("at_least", "AtLeastMeasurable", {"threshold": None}, [], "VAL < THRESHOLD"),
        ("increase_by_fraction", "IncreaseByMeasurable", {"increase": None, "target_type": "frac"}, ["BASE > 0"], "VAL < (1 + INCREASE) * BASE"),
        ("increase_by_amount", "IncreaseByMeasurable", {"increase": None, "target_type": "abs"}, [], "VAL < BASE + INCREASE"),
        ("decrease_by_fraction", "DecreaseByMeasurable", {"decrease": None, "target_type": "frac"}, ["BASE > 0"], "VAL > (1 - DECREASE) * BASE"),
        ("decrease_by_amount", "DecreaseByMeasurable", {"decrease": None, "target_type": "abs"}, [], "VAL > BASE - DECREASE")):
    CONTRACTS["optimization:%s.get_objective_val#%s" % (_cls, _name)] = dict(
        schema=schema, make_env=_env_target(_cls, _fields), ghost_params={"VAL": "real"}, call_stubs={"Measurable.get_objective_val": "VAL"},
        requires=_req,
        ensures=[("C15.a_missed_target_scores_infinity", "implies(%s, result == %s)" % (_missed, _INF)),
                 ("C15.a_met_target_scores_zero", "implies(not (%s), result == 0)" % _missed)],
        defined_props=["C15"])

for _cls, _w in (("MinimizeMeasurable", 1), ("MaximizeMeasurable", -1)):
    CONTRACTS["optimization:%s.__init__" % _cls] = dict(
        schema=schema, make_env=(lambda c: (lambda it: {"self": __import__("pyvc.interp", fromlist=["PyObjV"]).PyObjV(c, __import__("pyvc.source", fromlist=["load"]).load("optimization"), {}),
                                                    "measurable_name": "x", "t": 2020.0, "pop_names": None}))(_cls),
        call_stubs={"sc.promotetoarray": (lambda it, t: [t])},
        ensures=[("C15.%s_enters_the_objective_with_weight_%s" % ("a_quantity_to_minimise" if _w == 1 else "a_quantity_to_maximise", "plus_one" if _w == 1 else "minus_one"), "self.weight == %d and self.measurable_name == 'x'" % _w)],
        defined_props=["C15"])

CONTRACTS["optimization:Measurable.eval"] = dict(
    schema=schema, make_env=_env_target("Measurable", {"weight": None}), ghost_params={"VAL": "real"}, call_stubs={"self.get_objective_val": "VAL"},
    ensures=[("C15.contribution_is_weight_times_the_summed_output", "result == WEIGHT * VAL")], defined_props=["C15"])


# ---- which years enter the objective (C15: "the documented sum of the requested outputs over the requested years"): the head of
# Measurable.get_objective_val -- a single year selects exactly the time points equal to it, a period [low, high) selects the time points
# from low (included) up to high (EXCLUDED)
def _env_years(period):
    def make(it):
        from pyvc.interp import PyObjV
        from pyvc.core import LArr, Opaque
        from pyvc import source

        n = z3.Int("n_times")
        it.facts.append(n >= 1)
        f = z3.Function("time_at", z3.IntSort(), z3.RealSort())
        tv = LArr(n, lambda i: f(i if z3.is_expr(i) else z3.IntVal(i)), fresh_alloc=False)
        lo, hi = z3.Real("low"), z3.Real("high")
        model = PyObjV("Model", source.load("model"), {"t": tv})
        self = PyObjV("Measurable", source.load("optimization"), {"measurable_name": "x", "pop_names": None, "weight": 1.0, "t": LArr(2, it._list_reader([lo, hi])) if period else LArr(1, lambda i: lo)})
        return {"self": self, "model": model, "baseline": None, "TV": tv, "n": n, "LOW": lo, "HIGH": hi}

    return make


CONTRACTS["optimization:Measurable.get_objective_val#years_of_a_period"] = dict(
    schema=schema, fragment={"before": "if self.measurable_name in model.progset.programs"}, make_env=_env_years(True),
    ensures=[("C15.a_period_selects_low_included_to_high_excluded", "len(t_filter) == n and all(t_filter[i] == (LOW <= TV[i] and TV[i] < HIGH) for i in range(n))")],
    defined_props=["C15"])
CONTRACTS["optimization:Measurable.get_objective_val#a_single_year"] = dict(
    schema=schema, fragment={"before": "if self.measurable_name in model.progset.programs"}, make_env=_env_years(False),
    ensures=[("C15.a_single_year_selects_exactly_that_time_point", "len(t_filter) == n and all(t_filter[i] == (TV[i] == LOW) for i in range(n))")],
    defined_props=["C15"])


# ---- MaximizeCascadeStage.get_objective_val and its constructor (C15: "the objective they evaluate is the documented sum of the requested outputs over the requested years and
# populations"): the sum, over the requested populations (or aggregations) and the requested stages, of the stage's values over the requested times; the weight is negated so
# that minimising the objective maximises the stage.  get_cascade_vals (property C20) and Result are ghosts.
def _env_stage(it):
    from pyvc.interp import PyObjV
    from pyvc.core import LArr
    from pyvc import source

    v = {(p, s): [z3.Real("v_%s_%s_%d" % (p, s, k)) for k in range(2)] for p in ("a", "b") for s in ("diagnosed", "treated", "suppressed")}
    self = PyObjV("MaximizeCascadeStage", source.load("optimization"), {"measurable_name": "main", "t": [2020.0, 2021.0], "pop_names": ["a", "b"], "cascade_stage": ["treated", "suppressed"], "weight": -1.0})
    env = {"self": self, "model": PyObjV("Model", source.load("model"), {"t": None}), "baseline": None, "V": v, "CALLS": []}
    env.update({"v_%s_%s_%d" % (p, s, k): v[(p, s)][k] for (p, s) in v for k in range(2)})
    return env


def _ghost_cascade_vals(it, result, cascade, pops="all", year=None):
    it.live_env["CALLS"].append((cascade, pops, year))
    V = it.live_env["V"]
    return ({s: list(V[(pops, s)]) for s in ("diagnosed", "treated", "suppressed")}, year)


CONTRACTS["optimization:MaximizeCascadeStage.get_objective_val"] = dict(
    schema=schema, make_env=_env_stage, call_stubs={"get_cascade_vals": _ghost_cascade_vals, "Result": (lambda it, model=None: "RESULT"), "np.sum": (lambda it, xs: sum(xs[1:], xs[0]))},
    ensures=[("C15.the_objective_is_the_sum_of_the_requested_stages_over_the_requested_populations_and_times",
              "result == " + " + ".join("v_%s_%s_%d" % (p, s, k) for p in ("a", "b") for s in ("treated", "suppressed") for k in range(2))),
             ("C15.each_population_is_looked_up_once_in_the_requested_cascade_at_the_requested_times", "len(CALLS) == 2 and CALLS[0] == ('main', 'a', [2020.0, 2021.0]) and CALLS[1] == ('main', 'b', [2020.0, 2021.0])")],
    defined_props=["C15"])
for _tag, _stage, _pops, _wstage, _wpops in (("defaults", -1, "all", [-1], ["all"]), ("lists", ["treated", 2], ["a", "b"], ["treated", 2], ["a", "b"]), ("an_aggregation", "treated", {"both": ["a", "b"]}, ["treated"], [{"both": ["a", "b"]}])):
    CONTRACTS["optimization:MaximizeCascadeStage.__init__#%s" % _tag] = dict(
        schema=schema, make_env=(lambda st, pp: (lambda it: {"self": __import__("pyvc.interp", fromlist=["PyObjV"]).PyObjV("MaximizeCascadeStage", __import__("pyvc.source", fromlist=["load"]).load("optimization"), {}),
                                                             "cascade_name": "main", "t": 2020.0, "pop_names": pp, "weight": z3.Real("w"), "cascade_stage": st, "w": z3.Real("w")}))(_stage, _pops),
        ensures=[("C15.the_stage_is_maximised_by_minimising_its_negative", "self.weight == -w and self.measurable_name == 'main' and self.t == 2020.0"),
                 ("C15.stages_and_populations_are_kept_as_lists", "self.cascade_stage == %r and self.pop_names == %r" % (_wstage, _wpops))],
        defined_props=["C15"])
