"""
One row of a databook table, as written (property C16: "writing a ... databook ... and reading it back yields ... every value, year, assumption,
uncertainty, unit ..."): the body of the row loop of excel.TimeDependentValuesEntry.write for a series with units, uncertainty, an assumption and one
dated value, in a table with two year columns.  The worksheet is a ghost that records what is written where; formats and widths are opaque.

   name | units (standard units capitalised) | uncertainty | assumption | OR | one cell per year column: the value dated that year, blank otherwise
"""
import numpy as np
import z3

schema = "covout"
CONTRACTS = {}


def _make_env(units, with_flags):
    def make(it):
        from pyvc.interp import PyObjV
        from pyvc.core import Opaque
        from pyvc import source

        em, um = source.load("excel"), source.load("utils")
        V, S, A = z3.Real("value_2021"), z3.Real("sigma"), z3.Real("assumption")
        row_ts = PyObjV("TimeSeries", um, {"t": [2021.0], "vals": [V], "units": units, "assumption": A, "sigma": S, "_sampled": False})
        self = PyObjV("TimeDependentValuesEntry", em, {"name": "table", "ts": {"adults": row_ts}, "ts_attributes": {}, "allowed_units": None, "tvec": np.array([2020.0, 2021.0])})
        return {"self": self, "row_name": "adults", "row_ts": row_ts, "current_row": 0, "references": {}, "attribute_index": {}, "widths": {}, "formats": Opaque("formats"),
                "write_units": with_flags, "write_uncertainty": with_flags, "write_assumption": with_flags, "units_index": 1, "uncertainty_index": 2, "constant_index": 3, "offset": 5 if with_flags else 1,
                "worksheet": PyObjV("Worksheet", em, {"CELLS": {}}), "V": V, "S": S, "A": A}

    return make


def _rec(it, row, col, value=None, *a, **k):
    it.stub_receiver.fields["CELLS"][(row, col)] = value


_noop = lambda it, *a, **k: None
_stubs = {"worksheet.write": _rec, "worksheet.write_string": _rec, "worksheet.write_blank": _rec, "worksheet.write_formula": _noop, "worksheet.data_validation": _noop, "worksheet.conditional_format": _noop,
          "update_widths": _noop, "xlrc": (lambda it, *a, **k: "A1")}
for _tag, _units, _shown in (("standard_units", " probability ", "Probability"), ("other_units", " $/person ", "$/person")):
    CONTRACTS["excel:TimeDependentValuesEntry.write#row_with_all_columns_%s" % _tag] = dict(
        schema=schema, fragment={"iter": "self.ts.items()"}, make_env=_make_env(_units, True), call_stubs=_stubs,
        ensures=[("C16.name_units_uncertainty_and_assumption_go_into_their_columns", "worksheet.CELLS[1, 0] == 'adults' and worksheet.CELLS[1, 1] == %r and worksheet.CELLS[1, 2] == S and worksheet.CELLS[1, 3] == A and worksheet.CELLS[1, 4] == 'OR'" % _shown),
                 ("C16.each_year_column_holds_the_value_dated_that_year_or_a_blank", "worksheet.CELLS[1, 5] is None and worksheet.CELLS[1, 6] == V"),
                 ("C16.exactly_one_row_is_written", "current_row == 1 and all(k[0] == 1 for k in worksheet.CELLS.keys()) and len(worksheet.CELLS) == 7")],
        defined_props=["C16"])
CONTRACTS["excel:TimeDependentValuesEntry.write#row_without_optional_columns"] = dict(
    schema=schema, fragment={"iter": "self.ts.items()"}, make_env=_make_env("probability", False), call_stubs=_stubs,
    ensures=[("C16.only_the_name_and_the_year_columns_are_written", "worksheet.CELLS[1, 0] == 'adults' and worksheet.CELLS[1, 1] is None and worksheet.CELLS[1, 2] == V and len(worksheet.CELLS) == 3")],
    defined_props=["C16"])


# ---- excel.TimeDependentConnections.write (transfers, interactions): the body of the (from, to) loop for ONE pair.  With a series: the two population names, the
# units, uncertainty, assumption and OR marker in the columns resolved in the header, and the dated value in its year column.  Without one: the same cells
# blank, so the row can be filled in by hand.
def _make_env_tdc(with_series):
    def make(it):
        from pyvc.interp import PyObjV
        from pyvc.core import Opaque
        from pyvc import source

        em, um = source.load("excel"), source.load("utils")
        V, S, A = z3.Real("value_2021"), z3.Real("sigma"), z3.Real("assumption")
        ts = PyObjV("TimeSeries", um, {"t": [2021.0], "vals": [V], "units": "Number", "assumption": A, "sigma": S, "_sampled": False})
        self = PyObjV("TimeDependentConnections", em, {"code_name": "age", "from_pops": ["a"], "to_pops": ["b"], "ts": {("a", "b"): ts} if with_series else {}, "ts_attributes": {}, "allowed_units": None,
                                                       "tvec": np.array([2020.0, 2021.0])})
        return {"self": self, "from_idx": 0, "to_idx": 0, "current_row": 0, "references": {"a": "a", "b": "b"}, "attribute_index": {}, "widths": {}, "formats": Opaque("formats"),
                "table_references": {("a", "b"): "B2"}, "values_written": {"B2": "Y" if with_series else "N"},
                "write_units": True, "write_uncertainty": True, "write_assumption": True, "units_index": 3, "uncertainty_index": 4, "constant_index": 5, "offset": 7,
                "worksheet": PyObjV("Worksheet", em, {"CELLS": {}, "name": "Transfers"}), "V": V, "S": S, "A": A}

    return make


def _rec_formula(it, row, col, formula=None, fmt=None, value=None, **k):
    it.stub_receiver.fields["CELLS"][(row, col)] = value


_stubs_tdc = dict(_stubs)
_stubs_tdc.update({"worksheet.write_formula": _rec_formula, "worksheet.write_url": _noop, "gate_content": (lambda it, content, cell: content)})
CONTRACTS["excel:TimeDependentConnections.write#pair_with_a_series"] = dict(
    schema=schema, fragment={"iter": "range(0, len(self.to_pops))", "body_contains": "entry_tuple = (from_pop, to_pop)"}, make_env=_make_env_tdc(True), call_stubs=_stubs_tdc,
    ensures=[("C16.populations_units_uncertainty_and_assumption_go_into_their_columns", "worksheet.CELLS[1, 0] == 'a' and worksheet.CELLS[1, 1] == '--->' and worksheet.CELLS[1, 2] == 'b' and worksheet.CELLS[1, 3] == 'Number' and worksheet.CELLS[1, 4] == S and worksheet.CELLS[1, 5] == A and worksheet.CELLS[1, 6] == 'OR'"),
             ("C16.each_year_column_holds_the_value_dated_that_year_or_a_blank", "worksheet.CELLS[1, 7] is None and worksheet.CELLS[1, 8] == V"),
             ("C16.exactly_one_row_is_written", "current_row == 1 and all(k[0] == 1 for k in worksheet.CELLS.keys()) and len(worksheet.CELLS) == 9")],
    defined_props=["C16"])
CONTRACTS["excel:TimeDependentConnections.write#pair_without_a_series"] = dict(
    schema=schema, fragment={"iter": "range(0, len(self.to_pops))", "body_contains": "entry_tuple = (from_pop, to_pop)"}, make_env=_make_env_tdc(False), call_stubs=_stubs_tdc,
    ensures=[("C16.a_pair_without_data_gets_a_blank_row_in_the_same_columns", "worksheet.CELLS[1, 0] == '...' and worksheet.CELLS[1, 2] == '...' and worksheet.CELLS[1, 3] == '' and worksheet.CELLS[1, 4] == '' and worksheet.CELLS[1, 5] == '' and worksheet.CELLS[1, 6] == '...' and worksheet.CELLS[1, 7] is None and worksheet.CELLS[1, 8] is None and len(worksheet.CELLS) == 9")],
    defined_props=["C16"])


# ---- the reader of the same table, one row (body of the row loop of TimeDependentValuesEntry.from_rows): the series is stored under the stripped row name with
# the units (standard units lower-cased, others as written), uncertainty and assumption of its columns, and one point per year column that holds a number
def _make_env_read(units, assumption_heading="assumption", with_optional=True):
    def make(it):
        from pyvc.interp import PyObjV, ClassV
        from pyvc import source

        em = source.load("excel")
        V, S, A = z3.Real("value_2021"), z3.Real("sigma"), z3.Real("assumption")
        cell = lambda v, t: PyObjV("Cell", em, {"value": v, "data_type": t, "coordinate": "X1"})
        if with_optional:
            row = [cell(" adults ", "s"), cell(units, "s" if units is not None else "n"), cell(S, "n"), cell(A, "n"), cell("OR", "s"), cell(None, "n"), cell(V, "n")]
            headings, times = {"units": 1, "uncertainty": 2, assumption_heading: 3}, {2020.0: 5, 2021.0: 6}
        else:
            row = [cell(" adults ", "s"), cell(None, "n"), cell(V, "n")]
            headings, times = {}, {2020.0: 1, 2021.0: 2}
        tdve = PyObjV("TimeDependentValuesEntry", em, {"name": "table", "ts_attributes": {}, "tvec": np.array([2020.0, 2021.0])})
        return {"row": row, "TimeSeries": ClassV("TimeSeries", source.load("utils")), "headings": headings, "times": times, "tdve": tdve, "ts_entries": {}, "known_headings": {"units", "uncertainty", "constant", "assumption"}, "V": V, "S": S, "A": A}

    return make


_rd_stubs = {"sc.isstring": (lambda it, v: isinstance(v, str))}
for _tag, _units, _stored, _head in (("standard_units", " Probability ", "probability", "assumption"), ("other_units", " $/Person ", "$/Person", "constant"), ("blank_units", None, None, "assumption")):
    CONTRACTS["excel:TimeDependentValuesEntry.from_rows#row_%s" % _tag] = dict(
        schema=schema, fragment={"iter": "rows[1:]"}, make_env=_make_env_read(_units, _head), call_stubs=_rd_stubs, concrete_new=["TimeSeries"],
        ensures=[("C16.the_series_is_stored_under_the_stripped_row_name", "len(ts_entries) == 1 and 'adults' in ts_entries"),
                 ("C16.units_uncertainty_and_assumption_come_from_their_columns", "ts_entries['adults'].units == %r and ts_entries['adults'].sigma == S and ts_entries['adults'].assumption == A" % (_stored,)),
                 ("C16.one_point_per_year_column_that_holds_a_number", "len(ts_entries['adults'].t) == 1 and ts_entries['adults'].t[0] == 2021.0 and len(ts_entries['adults'].vals) == 1 and ts_entries['adults'].vals[0] == V")],
        defined_props=["C16"])
CONTRACTS["excel:TimeDependentValuesEntry.from_rows#row_without_optional_columns"] = dict(
    schema=schema, fragment={"iter": "rows[1:]"}, make_env=_make_env_read(None, with_optional=False), call_stubs=_rd_stubs, concrete_new=["TimeSeries"],
    ensures=[("C16.absent_columns_mean_no_units_uncertainty_or_assumption", "ts_entries['adults'].units is None and ts_entries['adults'].sigma is None and ts_entries['adults'].assumption is None"),
             ("C16.one_point_per_year_column_that_holds_a_number", "len(ts_entries['adults'].t) == 1 and ts_entries['adults'].t[0] == 2021.0 and ts_entries['adults'].vals[0] == V")],
    defined_props=["C16"])


# ---- the reader of a transfer / interaction table, one row (body of the row loop of TimeDependentConnections.from_tables): a row naming two listed populations
# becomes the series of that (from, to) pair; a `...` row (a pair without data) is skipped; a population that is not listed is refused
def _make_env_read_tdc(from_name, to_name="b"):
    def make(it):
        from pyvc.interp import PyObjV, ClassV
        from pyvc import source

        em = source.load("excel")
        V, S, A = z3.Real("value_2021"), z3.Real("sigma"), z3.Real("assumption")
        cell = lambda v, t: PyObjV("Cell", em, {"value": v, "data_type": t, "coordinate": "X1"})
        row = [cell(from_name, "s"), cell("--->", "s"), cell(to_name, "s"), cell(" Number ", "s"), cell(S, "n"), cell(A, "n"), cell("OR", "s"), cell(None, "n"), cell(V, "n")]
        tdc = PyObjV("TimeDependentConnections", em, {"code_name": "age", "ts_attributes": {}, "ts": {}, "tvec": np.array([2020.0, 2021.0])})
        return {"row": row, "TimeSeries": ClassV("TimeSeries", source.load("utils")), "headings": {"from population": 0, "to population": 2, "units": 3, "uncertainty": 4, "constant": 5}, "times": {2020.0: 7, 2021.0: 8},
                "tdc": tdc, "from_pops": ["a", "c"], "to_pops": ["b", "c"], "V": V, "S": S, "A": A}

    return make


CONTRACTS["excel:TimeDependentConnections.from_tables#row_with_a_series"] = dict(
    schema=schema, fragment={"iter": "tables[2][1:]"}, make_env=_make_env_read_tdc("a"), call_stubs=_rd_stubs, concrete_new=["TimeSeries"],
    ensures=[("C16.the_series_is_stored_under_its_from_to_pair", "len(tdc.ts) == 1 and ('a', 'b') in tdc.ts"),
             ("C16.units_uncertainty_and_assumption_come_from_their_columns", "tdc.ts['a', 'b'].units == 'number' and tdc.ts['a', 'b'].sigma == S and tdc.ts['a', 'b'].assumption == A"),
             ("C16.one_point_per_year_column_that_holds_a_number", "len(tdc.ts['a', 'b'].t) == 1 and tdc.ts['a', 'b'].t[0] == 2021.0 and len(tdc.ts['a', 'b'].vals) == 1 and tdc.ts['a', 'b'].vals[0] == V")],
    defined_props=["C16"])
CONTRACTS["excel:TimeDependentConnections.from_tables#row_without_data"] = dict(
    schema=schema, fragment={"iter": "tables[2][1:]"}, make_env=_make_env_read_tdc("..."), call_stubs=_rd_stubs, concrete_new=["TimeSeries"],
    ensures=[("C16.a_row_marked_as_having_no_data_is_skipped", "len(tdc.ts) == 0")], defined_props=["C16"])
CONTRACTS["excel:TimeDependentConnections.from_tables#row_with_an_unknown_population"] = dict(
    schema=schema, fragment={"iter": "tables[2][1:]"}, make_env=_make_env_read_tdc("a", "z"), call_stubs=_rd_stubs, concrete_new=["TimeSeries"],
    raises={"AssertionError": "True"}, raises_props=["C16", "C18"], ensures=[], defined_props=["C16", "C18"])


# ---- the header of a written table and the columns the rows will use (everything in TimeDependentValuesEntry.write before the row loop), and the header as read
# back (_parse_ts_header): the column in which a heading is written is the column its values are written to, and is the column the reader resolves for it
def _make_env_header(settings, data, heading="Constant"):
    def make(it):
        from pyvc.interp import PyObjV
        from pyvc.core import Opaque
        from pyvc import source

        em, um = source.load("excel"), source.load("utils")
        row_ts = PyObjV("TimeSeries", um, {"t": [2021.0], "vals": [1.0], "units": "probability" if data else None, "assumption": 0.5 if data else None, "sigma": 0.1 if data else None, "_sampled": False})
        self = PyObjV("TimeDependentValuesEntry", em, {"name": "table", "ts": {"adults": row_ts}, "ts_attributes": {"Provenance": {}}, "allowed_units": None, "tvec": np.array([2020.0, 2021.0]), "comment": None,
                                                       "assumption_heading": heading, "write_units": settings, "write_uncertainty": settings, "write_assumption": settings})
        return {"self": self, "start_row": 3, "references": None, "widths": {}, "formats": Opaque("formats"), "worksheet": PyObjV("Worksheet", em, {"CELLS": {}})}

    return make


_hdr_stubs = dict(_stubs)
_hdr_stubs.update({"pd.isna": (lambda it, v: v is None), "worksheet.write_comment": _noop})
_full = ("worksheet.CELLS[3, 0] == 'table' and worksheet.CELLS[3, 1] == 'Provenance' and worksheet.CELLS[3, 2] == 'Units' and worksheet.CELLS[3, 3] == 'Uncertainty' and worksheet.CELLS[3, 4] == %r and worksheet.CELLS[3, 5] == '' "
         "and worksheet.CELLS[3, 6] == 2020.0 and worksheet.CELLS[3, 7] == 2021.0 and len(worksheet.CELLS) == 8")
_full_cols = "attribute_index == {'Provenance': 1} and units_index == 2 and uncertainty_index == 3 and constant_index == 4 and offset == 6 and current_row == 3"
for _tag, _settings, _data, _heading in (("columns_inferred_from_the_data", None, True, "Constant"), ("columns_switched_on", True, False, "Assumption")):
    CONTRACTS["excel:TimeDependentValuesEntry.write#header_%s" % _tag] = dict(
        schema=schema, fragment={"before": "for row_name, row_ts in self.ts.items()"}, make_env=_make_env_header(_settings, _data, _heading), call_stubs=_hdr_stubs,
        ensures=[("C16.the_header_names_every_column_in_order", _full % _heading),
                 ("C16.values_are_written_to_the_column_their_heading_is_in", _full_cols),
                 ("C16.the_optional_columns_are_on", "write_units is True and write_uncertainty is True and write_assumption is True")],
        defined_props=["C16"])
CONTRACTS["excel:TimeDependentValuesEntry.write#header_no_optional_columns"] = dict(
    schema=schema, fragment={"before": "for row_name, row_ts in self.ts.items()"}, make_env=_make_env_header(None, False), call_stubs=_hdr_stubs,
    ensures=[("C16.the_header_names_every_column_in_order", "worksheet.CELLS[3, 0] == 'table' and worksheet.CELLS[3, 1] == 'Provenance' and worksheet.CELLS[3, 2] == 2020.0 and worksheet.CELLS[3, 3] == 2021.0 and len(worksheet.CELLS) == 4"),
             ("C16.values_are_written_to_the_column_their_heading_is_in", "attribute_index == {'Provenance': 1} and offset == 2"),
             ("C16.the_optional_columns_are_off", "not write_units and not write_uncertainty and not write_assumption")],
    defined_props=["C16"])


def _make_env_parse(cells, skip_first=True):
    def make(it):
        from pyvc.interp import PyObjV
        from pyvc import source

        em = source.load("excel")
        cell = lambda v: PyObjV("Cell", em, {"value": v, "data_type": ("s" if isinstance(v, str) else "n"), "is_date": False, "coordinate": "X1", "row": 1})
        return {"row": [cell(v) for v in cells], "known_headings": {"units", "uncertainty", "constant", "assumption"}, "skip_first": skip_first}

    return make


CONTRACTS["excel:_parse_ts_header#the_header_the_writer_produces"] = dict(
    schema=schema, make_env=_make_env_parse(["table", "Provenance", "Units", "Uncertainty", "Constant", None, 2020.0, 2021.0]),  # an empty string written by xlsxwriter is a blank cell: openpyxl reads None
    ensures=[("C16.each_heading_resolves_to_the_column_it_is_written_in", "result[0] == {'Provenance': 1, 'units': 2, 'uncertainty': 3, 'constant': 4} and result[1] == {2020.0: 6, 2021.0: 7}"),
             ("C16.the_years_of_the_table_are_its_year_columns_in_order", "len(result[2]) == 2 and result[2][0] == 2020.0 and result[2][1] == 2021.0")],
    defined_props=["C16"])
CONTRACTS["excel:_parse_ts_header#hand_edited_header"] = dict(
    schema=schema, make_env=_make_env_parse(["table", " UNITS ", None, " assumption", 2021.0, 2020.0, "#ignore the rest", 2022.0]),
    ensures=[("C16.known_headings_are_matched_in_any_case_blanks_skipped_and_ignored_columns_dropped", "result[0] == {'units': 1, 'assumption': 3} and result[1] == {2021.0: 4, 2020.0: 5}"),
             ("C16.the_years_of_the_table_are_its_year_columns_in_order", "len(result[2]) == 2 and result[2][0] == 2020.0 and result[2][1] == 2021.0")],
    defined_props=["C16"])
CONTRACTS["excel:_parse_ts_header#duplicate_heading"] = dict(
    schema=schema, make_env=_make_env_parse(["table", "Units", "units", 2020.0]), call_stubs={"get_column_letter": (lambda it, *a: "A")},
    raises={"Exception": "True"}, raises_props=["C16", "C18"], ensures=[], defined_props=["C16", "C18"])
CONTRACTS["excel:_parse_ts_header#duplicate_year"] = dict(
    schema=schema, make_env=_make_env_parse(["table", "Units", 2020.0, 2020.0]), call_stubs={"get_column_letter": (lambda it, *a: "A")},
    raises={"Exception": "True"}, raises_props=["C16", "C18"], ensures=[], defined_props=["C16", "C18"])


# ---- the Y/N matrix of a transfer / interaction table (TimeDependentConnections._write_pop_matrix, whole function): population names along the top and down the side, a `Y`
# for every pair that has a series and an `N` for every other pair, `N.A.` on the diagonal of a table that has none; every cell's reference and what was written to it are
# returned for the rows below (which are gated on these cells); an entry on the diagonal of such a table is refused
def _env_matrix(entries, enable_diagonal=False):
    def make(it):
        from pyvc.interp import PyObjV
        from pyvc.core import Opaque
        from pyvc import source

        em = source.load("excel")
        self = PyObjV("TimeDependentConnections", em, {"code_name": "age", "from_pops": ["a", "b"], "to_pops": ["a", "b"], "enable_diagonal": enable_diagonal})
        return {"self": self, "worksheet": PyObjV("Worksheet", em, {"CELLS": {}}), "start_row": 10, "formats": Opaque("formats"), "references": {"a": "=A1", "b": "=A2"}, "boolean_choice": True, "widths": {},
                "ENTRIES": {k: "series" for k in entries}}

    return make


_mx_stubs = dict(_stubs)
_mx_stubs.update({"worksheet.write_formula": _rec_formula, "xlrc": (lambda it, r, c, *a: "R%dC%d" % (r, c)), "np.full": (lambda it, shape, fill, dtype=None: np.full(shape, fill, dtype=object))})
CONTRACTS["excel:TimeDependentConnections._write_pop_matrix#one_pair_with_data"] = dict(
    schema=schema, make_env=_env_matrix([("a", "b")]), call_stubs=_mx_stubs, stubs={"self.ts": "ENTRIES"},
    ensures=[("C16.population_names_head_the_columns_and_rows", "worksheet.CELLS[10, 1] == 'a' and worksheet.CELLS[10, 2] == 'b' and worksheet.CELLS[11, 0] == 'a' and worksheet.CELLS[12, 0] == 'b'"),
             ("C16.a_pair_with_a_series_is_marked_y_every_other_pair_n_and_the_diagonal_not_applicable", "worksheet.CELLS[11, 2] == 'Y' and worksheet.CELLS[12, 1] == 'N' and worksheet.CELLS[11, 1] == 'N.A.' and worksheet.CELLS[12, 2] == 'N.A.' and len(worksheet.CELLS) == 8"),
             ("C16.the_cell_of_every_pair_and_what_it_holds_are_returned_for_the_rows_below", "result[0] == 14 and result[1]['a', 'b'] == 'R11C2' and result[1]['b', 'a'] == 'R12C1' and len(result[1]) == 4 and result[2]['R11C2'] == 'Y' and result[2]['R12C1'] == 'N' and result[2]['R11C1'] == 'N.A.'")],
    defined_props=["C16"])
CONTRACTS["excel:TimeDependentConnections._write_pop_matrix#entry_on_a_diagonal_that_is_not_allowed"] = dict(
    schema=schema, make_env=_env_matrix([("a", "a")]), call_stubs=_mx_stubs, stubs={"self.ts": "ENTRIES"}, raises={"Exception": "True"}, raises_props=["C16", "C18"], ensures=[], defined_props=["C16"])
CONTRACTS["excel:TimeDependentConnections._write_pop_matrix#interaction_with_a_diagonal"] = dict(
    schema=schema, make_env=_env_matrix([("a", "a"), ("b", "a")], enable_diagonal=True), call_stubs=_mx_stubs, stubs={"self.ts": "ENTRIES"},
    ensures=[("C16.with_a_diagonal_every_pair_is_y_or_n", "worksheet.CELLS[11, 1] == 'Y' and worksheet.CELLS[11, 2] == 'N' and worksheet.CELLS[12, 1] == 'Y' and worksheet.CELLS[12, 2] == 'N'")], defined_props=["C16"])


# ---- TimeDependentConnections.__init__ (C16 / C18): a transfer has no diagonal and may be entered as a number, a rate or a duration (per year); an interaction has a diagonal and
# no units; any other kind of table is refused; the optional write settings start undecided (None: decided from the data when writing), the assumption column is headed `Constant`
def _env_tdc_init(kind):
    def make(it):
        from pyvc.interp import PyObjV
        from pyvc import source

        return {"self": PyObjV("TimeDependentConnections", source.load("excel"), {}), "code_name": "age", "full_name": "Ageing", "tvec": "TVEC", "from_pops": ["a", "b"], "to_pops": ["a"], "interpop_type": kind,
                "ts": None, "from_pop_type": "hum", "to_pop_type": "vec"}

    return make


_init_common = ("self.code_name == 'age' and self.full_name == 'Ageing' and self.from_pops == ['a', 'b'] and self.to_pops == ['a'] and self.from_pop_type == 'hum' and self.to_pop_type == 'vec' and self.tvec == 'TVEC' and len(self.ts) == 0 "
                "and self.write_units is None and self.write_uncertainty is None and self.write_assumption is None and self.assumption_heading == 'Constant' and self.ts_attributes == {'Provenance': {}}")
_fd = {"format_duration": (lambda it, t, pluralize=False: "years" if pluralize else "year"), "sc.odict": (lambda it: {})}
CONTRACTS["excel:TimeDependentConnections.__init__#transfer"] = dict(
    schema=schema, make_env=_env_tdc_init("transfer"), call_stubs=_fd,
    ensures=[("C16+C18.a_transfer_has_no_diagonal_and_number_rate_or_duration_units", "self.type == 'transfer' and self.enable_diagonal is False and self.allowed_units == ['Number (years)', 'Rate (per year)', 'Duration (years)']"),
             ("C16.the_table_starts_empty_with_undecided_write_settings", _init_common)], defined_props=["C16", "C18"])
CONTRACTS["excel:TimeDependentConnections.__init__#interaction"] = dict(
    schema=schema, make_env=_env_tdc_init("interaction"), call_stubs=_fd,
    ensures=[("C16+C18.an_interaction_has_a_diagonal_and_no_units", "self.type == 'interaction' and self.enable_diagonal is True and self.allowed_units == ['N.A.']"),
             ("C16.the_table_starts_empty_with_undecided_write_settings", _init_common)], defined_props=["C16", "C18"])
CONTRACTS["excel:TimeDependentConnections.__init__#unknown_kind"] = dict(
    schema=schema, make_env=_env_tdc_init("migration"), call_stubs=_fd, raises={"Exception": "True"}, raises_props=["C16", "C18"], ensures=[], defined_props=["C16", "C18"])


# ---- TimeDependentValuesEntry.__init__ (C16): a new table is empty unless series are given, has no years unless given, keeps its name, comment and population type, capitalises
# standard units in the list of allowed units (others as given, None = no restriction) and starts with undecided write settings and the `Constant` heading
def _env_tdve_init(units, tvec="TVEC"):
    def make(it):
        from pyvc.interp import PyObjV
        from pyvc import source

        return {"self": PyObjV("TimeDependentValuesEntry", source.load("excel"), {}), "name": "Quantity", "tvec": tvec, "ts": None, "allowed_units": units, "comment": "a note", "pop_type": "hum"}

    return make


_tdve_common = "self.name == 'Quantity' and self.comment == 'a note' and self.pop_type == 'hum' and len(self.ts) == 0 and self.ts_attributes == {'Provenance': {}} and self.assumption_heading == 'Constant' and self.write_units is None and self.write_uncertainty is None and self.write_assumption is None"
for _tag, _units, _tv, _want_units, _want_tv in (("standard_and_other_units", ["probability", "$/person"], "TVEC", "['Probability', '$/person']", "'TVEC'"), ("no_restriction_and_no_years", None, None, "None", "[]")):
    CONTRACTS["excel:TimeDependentValuesEntry.__init__#%s" % _tag] = dict(
        schema=schema, make_env=_env_tdve_init(_units, _tv), call_stubs={"sc.odict": (lambda it: {})},
        ensures=[("C16.a_new_table_is_empty_and_keeps_what_it_was_given", _tdve_common + " and self.tvec == %s" % _want_tv),
                 ("C16.standard_units_are_capitalised_in_the_allowed_units", "self.allowed_units == %s" % _want_units)], defined_props=["C16"])


# ---- the definition table of a transfer / interaction as read (body of the loop over the header and value cells in TimeDependentConnections.from_tables): the value under a
# known heading (in any letter case) becomes the code name, full name, from / to population type; a value under any other heading is an attribute under that heading; a
# blank heading is skipped and an `#ignore` heading ends the table (LOOP_EXIT)
def _env_tdc_def(header, value):
    def make(it):
        from pyvc.interp import PyObjV
        from pyvc import source

        em = source.load("excel")
        cell = lambda v: PyObjV("Cell", em, {"value": v, "data_type": ("s" if isinstance(v, str) else "n"), "coordinate": "A1"})
        return {"header_cell": cell(header), "value_cell": cell(value), "code_name": None, "full_name": None, "from_pop_type": None, "to_pop_type": None, "attributes": {}}

    return make


_none = lambda skip: " and ".join("%s is None" % f for f in ("code_name", "full_name", "from_pop_type", "to_pop_type") if f != skip) + (" and len(attributes) == 0" if skip != "attributes" else "")
for _tag, _h, _v, _clause in (("abbreviation", " Abbreviation ", " age ", "code_name == 'age' and " + _none("code_name")), ("full_name", "FULL NAME", "Ageing", "full_name == 'Ageing' and " + _none("full_name")),
                              ("from_population_type", "From population type", "hum", "from_pop_type == 'hum' and " + _none("from_pop_type")), ("blank_population_type", "To population type", None, _none(None)),
                              ("to_population_type", "to population type", "vec", "to_pop_type == 'vec' and " + _none("to_pop_type")), ("an_attribute", "Source", "a survey", "attributes == {'Source': 'a survey'} and " + _none("attributes")),
                              ("blank_heading", None, "stray", _none(None) + " and LOOP_EXIT == 'continue'"), ("ignored_from_here", "#ignore the rest", "stray", _none(None) + " and LOOP_EXIT == 'break'")):
    CONTRACTS["excel:TimeDependentConnections.from_tables#definition_%s" % _tag] = dict(
        schema=schema, fragment={"iter": "zip(tables[0][0], tables[0][1])"}, make_env=_env_tdc_def(_h, _v), call_stubs=_rd_stubs,
        ensures=[("C16.the_value_goes_to_the_field_its_heading_names_and_nowhere_else", _clause)], defined_props=["C16", "C18"])
CONTRACTS["excel:TimeDependentConnections.from_tables#definition_code_name_missing"] = dict(
    schema=schema, fragment={"iter": "zip(tables[0][0], tables[0][1])"}, make_env=_env_tdc_def("Abbreviation", None), call_stubs=_rd_stubs, raises={"Exception": "True"}, raises_props=["C18"], ensures=[], defined_props=["C16", "C18"])


# ---- the population lists of a transfer / interaction table as read (the two loops over the first row and first column of the Y/N matrix in from_tables): names are collected
# until the first blank cell (or, along the top, an `#ignore` cell), which ends the list
def _env_popcell(value, name, lst):
    def make(it):
        from pyvc.interp import PyObjV
        from pyvc import source

        c = PyObjV("Cell", source.load("excel"), {"value": value, "data_type": ("s" if isinstance(value, str) else "n")})
        return {name: ([c] if name == "row" else c), lst: ["first"]}

    return make


for _tag, _v, _clause in (("a_name", "adults", "to_pops == ['first', 'adults'] and LOOP_EXIT == 'end'"), ("a_blank_cell", None, "to_pops == ['first'] and LOOP_EXIT == 'break'"), ("an_ignored_cell", "#ignore notes", "to_pops == ['first'] and LOOP_EXIT == 'break'")):
    CONTRACTS["excel:TimeDependentConnections.from_tables#to_population_%s" % _tag] = dict(
        schema=schema, fragment={"iter": "tables[1][0][1:]"}, make_env=_env_popcell(_v, "cell", "to_pops"),
        ensures=[("C16.names_are_collected_until_the_first_blank_or_ignored_cell", _clause)], defined_props=["C16"])
for _tag, _v, _clause in (("a_name", "adults", "from_pops == ['first', 'adults'] and LOOP_EXIT == 'end'"), ("a_blank_cell", None, "from_pops == ['first'] and LOOP_EXIT == 'break'")):
    CONTRACTS["excel:TimeDependentConnections.from_tables#from_population_%s" % _tag] = dict(
        schema=schema, fragment={"iter": "tables[1][1:]"}, make_env=_env_popcell(_v, "row", "from_pops"),
        ensures=[("C16.names_are_collected_until_the_first_blank_cell", _clause)], defined_props=["C16"])
