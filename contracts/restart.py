"""
Contracts on the save / restore pair behind a restart (property C10): the body of the compartment loop of
parameters.Initialization.from_result (what is saved for one compartment) and of Initialization.apply (what is written back).
Together: apply(from_result(result, year)) puts into time index 0 of every compartment exactly the state the original run had at
the index of `year` -- every elapsed-time row of a timed compartment included -- and nothing else changes.

The dictionary key `(comp.name, pop.name)` is a ghost constant (the same expression text in both functions); the compartment is a
heap object of the model schema.
"""
schema = "model_schema"
CONTRACTS = {}

_COMP = "obj:Compartment|JunctionCompartment|ResidualJunctionCompartment|SourceCompartment|SinkCompartment|TimedCompartment"


def _env_save(it):
    from pyvc.interp import ClassV
    from pyvc import source

    return {"values": {}, "TimedCompartment": ClassV("TimedCompartment", source.load("model"))}


class _KeyAlias(dict):
    """replay: the real code uses the key (comp.name, pop.name); the clauses call it 'k'"""

    real = ("c", "pop")

    def __getitem__(self, k):
        return dict.__getitem__(self, self.real if k == "k" else k)

    def __contains__(self, k):
        return dict.__contains__(self, self.real if k == "k" else k)


class _NS:
    pass


def _prep_common(env):
    import atomica.model as am

    env["TimedCompartment"] = am.TimedCompartment
    env["comp"].id = ("pop", "c")  # Variable.name is the last element of the id
    pop = _NS()
    pop.name = "pop"
    env["pop"] = pop


def _prep_save(env):
    _prep_common(env)
    env["values"] = _KeyAlias()


CONTRACTS["parameters:Initialization.from_result#save_compartment"] = dict(
    replay_prepare=_prep_save,
    schema=schema, fragment={"iter": "pop.comps"}, make_env=_env_save, class_module="model",
    params={"comp": _COMP, "idx": "int", "res": "const:None", "parset": "const:None", "year": "real", "cls": "const:None"},
    ghost_params={"key": "const:'k'"}, stubs={"(comp.name, pop.name)": "key"},
    requires=["0 <= idx", "implies(not isinstance(comp, TimedCompartment), idx < len(comp.vals))",
              "implies(isinstance(comp, TimedCompartment), idx < comp._vals.shape[1] and comp._vals.shape[0] >= 1)"],
    modifies=[],
    ensures=[
        ("C10.saved_value_of_a_plain_compartment_is_its_size_at_the_saved_year", "implies(not isinstance(comp, TimedCompartment), values['k'] == comp.vals[idx])"),
        ("C10.saved_value_of_a_timed_compartment_has_one_entry_per_elapsed_time_row", "implies(isinstance(comp, TimedCompartment), len(values['k']) == comp._vals.shape[0])"),
        ("C10.saved_value_of_a_timed_compartment_is_every_elapsed_time_row",
         "implies(isinstance(comp, TimedCompartment), all(values['k'][r] == comp._vals[r, idx] for r in range(comp._vals.shape[0])))"),
    ],
    frame_props=["C10"], defined_props=["C10"])


def _env_apply(present, timed):
    def make(it):
        import z3
        from pyvc.interp import ClassV, PyObjV
        from pyvc.core import LArr
        from pyvc import source

        if timed:
            n = z3.Int("n_saved")
            f = z3.Function("saved", z3.IntSort(), z3.RealSort())
            it.facts.append(n >= 0)
            saved = LArr(n, lambda i, f=f: f(i if z3.is_expr(i) else z3.IntVal(i)), fresh_alloc=False)
        else:
            saved = z3.Real("saved_size")
        values = {"k": saved} if present else {}
        self = PyObjV("Initialization", source.load("parameters"), {"values": values, "init_y_factor_hash": None, "year": None, "dt": None})
        return {"self": self, "saved": saved, "TimedCompartment": ClassV("TimedCompartment", source.load("model"))}

    return make


def _prep_apply(present):
    def prep(env):
        import numpy as np
        import atomica.parameters as ap

        _prep_common(env)
        saved = env.get("saved")
        if isinstance(saved, list):
            saved = np.array(saved, dtype=float)
            env["saved"] = saved
        vals = _KeyAlias()
        if present:
            dict.__setitem__(vals, _KeyAlias.real, saved)
        env["self"] = ap.Initialization(values=vals)

    return prep


for _present in (True, False):
    for _timed in (True, False):
        _name = "parameters:Initialization.apply#restore_%s_%s" % ("timed" if _timed else "plain", "saved" if _present else "missing")
        _classes = "obj:TimedCompartment" if _timed else "obj:Compartment|JunctionCompartment|ResidualJunctionCompartment|SourceCompartment|SinkCompartment"
        if _timed:
            _req = ["comp._vals.shape[0] >= 1", "comp._vals.shape[1] >= 1"] + (["len(saved) == comp._vals.shape[0]"] if _present else [])
            _mod = ["comp._vals[:, 0]"]
            _ens = [("C10.every_elapsed_time_row_is_restored" if _present else "C10.compartment_without_saved_value_starts_empty",
                     "all(comp._vals[r, 0] == %s for r in range(comp._vals.shape[0]))" % ("saved[r]" if _present else "0"))]
        else:
            _req = ["not isinstance(comp, TimedCompartment)", "len(comp.vals) >= 1"]
            _mod = ["comp.vals[0]"]
            _ens = [("C10.saved_size_is_restored" if _present else "C10.compartment_without_saved_value_starts_empty", "comp.vals[0] == %s" % ("saved" if _present else "0"))]
        CONTRACTS[_name] = dict(
            schema=schema, fragment={"iter": "pop.comps"}, make_env=_env_apply(_present, _timed), class_module="model", replay_prepare=_prep_apply(_present),
            params={"comp": _classes, "pop": "const:None", "framework": "const:None", "parset": "const:None"},
            ghost_params={"key": "const:'k'"}, stubs={"(comp.name, pop.name)": "key"},
            requires=_req, modifies=_mod, ensures=_ens, frame_props=["C10"], defined_props=["C10"])


# ---- Population.initialize_compartments, the branch for a saved state (C10): when the parameter set carries a saved state, that state is applied and NOTHING else is done -- the
# databook solve below must not run over it; without a saved state nothing is applied here
def _env_init_branch(saved):
    def make(it):
        from pyvc.interp import PyObjV
        from pyvc import source

        return {"self": PyObjV("Population", source.load("model"), {"name": "pop", "comps": ["c"]}), "framework": "FRAMEWORK",
                "parset": PyObjV("ParameterSet", source.load("parameters"), {"name": "ps", "initialization": ("SAVED STATE" if saved else None), "APPLIED": []})}

    return make


_apply_stub = {"parset.apply_initialization": (lambda it, pop, framework: it.stub_receiver.fields["APPLIED"].append((pop, framework)))}
CONTRACTS["model:Population.initialize_compartments#with_a_saved_state"] = dict(
    schema=schema, fragment={"stmt_top": "if parset.initialization is not None"}, make_env=_env_init_branch(True), call_stubs=_apply_stub,
    ensures=[("C10.the_saved_state_is_applied_to_this_population_and_nothing_else_is_done", "len(parset.APPLIED) == 1 and parset.APPLIED[0][0] is self and parset.APPLIED[0][1] == 'FRAMEWORK' and LOOP_EXIT == 'return'")], defined_props=["C10"])
CONTRACTS["model:Population.initialize_compartments#without_a_saved_state"] = dict(
    schema=schema, fragment={"stmt_top": "if parset.initialization is not None"}, make_env=_env_init_branch(False), call_stubs=_apply_stub,
    ensures=[("C10+C07.without_a_saved_state_the_databook_values_are_used", "len(parset.APPLIED) == 0 and LOOP_EXIT == 'end'")], defined_props=["C10", "C07"])


def _replay_saved_state_branch(model, contract):
    """replay END TO END on the udt demo: the state of a finished run is saved at a year in the middle of the run and a new run started there; its first compartment sizes must be the saved ones"""
    import logging
    import warnings

    import numpy as np

    warnings.filterwarnings("ignore")
    import atomica as at
    import sciris as sc

    at.logger.setLevel(logging.ERROR)
    P = at.demo("udt", do_run=False)
    full = P.run_sim(P.parsets[0], store_results=False)
    Y = float(full.model.t[len(full.model.t) // 2])
    ps = sc.dcp(P.parsets[0])
    ps.set_initialization(full, Y)
    P2 = sc.dcp(P)
    P2.settings.update_time_vector(start=Y)
    again = P2.run_sim(ps, store_results=False)
    i0 = len(full.model.t) // 2
    bad = []
    for p1, p2 in zip(full.model.pops, again.model.pops):
        for c1, c2 in zip(p1.comps, p2.comps):
            if abs(float(c1.vals[i0]) - float(c2.vals[0])) > 1e-9 * max(1.0, abs(float(c1.vals[i0]))):
                bad.append("%s/%s restarts at %r, the saved size is %r" % (p1.name, c1.name, float(c2.vals[0]), float(c1.vals[i0])))
    return dict(verdict="violates" if bad else "holds", detail="; ".join(bad[:2]) or "every compartment restarts at its saved size", prestate=dict(demo="udt", restart_year=Y))


CONTRACTS["model:Population.initialize_compartments#with_a_saved_state"]["replay_hook"] = _replay_saved_state_branch
