"""
Contract on the transfer pass of model.Model.build (properties C01: "transfers between populations ... never create, lose or duplicate
anyone", C03, C06): the body of the loop

    for pop_target in transfer_parameter.ts:

for ONE (source population, target population) pair.  The source population has five compartments -- plain, source, sink, junction
and a second plain one -- and the target population has compartments of the same names.  A transfer moves people between
CORRESPONDING compartments only, never out of births, deaths or junctions; its parameter holds the databook series times the
calibration factors, with limits [0, inf) (rates, probabilities, numbers) or [tolerance, inf) (durations).
The constructors, preallocate, constrain, connect and Link.create are the real ones, executed on objects of concrete shape; the
databook interpolation and the parsing of the units string are ghosts.
"""
import z3

schema = "covout"
CONTRACTS = {}
N_T = 2
NAMES = [("plain1", "Compartment"), ("births", "SourceCompartment"), ("deaths", "SinkCompartment"), ("junc", "JunctionCompartment"), ("plain2", "Compartment")]


def _make_env(units):
    def make(it):
        from pyvc.interp import PyObjV
        from pyvc.core import LArr
        from pyvc import source

        mm, pm = source.load("model"), source.load("parameters")

        def population(name):
            fields = {"name": name, "type": "default", "links": [], "link_lookup": {}, "pars": [], "par_lookup": {}}
            p = PyObjV("Population", mm, fields)
            comps = []
            for n, cls in NAMES:
                f = {"id": (name, n), "pop": p, "outlinks": [], "inlinks": []}
                if cls == "JunctionCompartment":
                    f["duration_group"] = None
                comps.append(PyObjV(cls, mm, f))
            fields["comps"] = comps
            fields["comp_lookup"] = {c.fields["id"][1]: c for c in comps}
            return p

        src_pop, tgt_pop = population("from"), population("to")
        tv = [z3.Real("t_%d" % i) for i in range(N_T)]
        data = [z3.Real("data_%d" % i) for i in range(N_T)]
        Y, M = z3.Real("Y"), z3.Real("M")
        tp = PyObjV("Parameter", pm, {"name": "aging", "ts": {"to": None}, "y_factor": {"to": Y}, "meta_y_factor": M})
        self = PyObjV("Model", mm, {"t": LArr(N_T, it._list_reader(tv)), "dt": z3.Real("dt"), "pops": [src_pop, tgt_pop]})
        return {"self": self, "pop": src_pop, "TARGET": tgt_pop, "transfer_parameter": tp, "transfer_name": "aging", "pop_source": "from", "pop_target": "to",
                "DATA": LArr(N_T, it._list_reader(data)), "data": data, "Y": Y, "M": M, "UNITS": units, "TOL": 1e-6}

    return make


_finite = ["data[0] == data[0]"]
for _u in ("probability", "rate", "number", "duration"):
    _lo = "TOL" if _u == "duration" else "0"
    CONTRACTS["model:Model.build#one_transfer_%s" % _u] = dict(
        schema=schema, fragment={"iter": "transfer_parameter.ts"}, make_env=_make_env(_u), class_module="model",
        concrete_new=["Parameter", "Link", "TimedLink"],
        stubs={"transfer_parameter.ts[pop_target].units.strip().split()[0].strip().lower()": "UNITS", "self.get_pop(pop_target)": "TARGET"},
        call_stubs={"transfer_parameter.interpolate": (lambda it, *a, **k: it.ghost_env["DATA"])},
        ensures=[
            ("C01.a_transfer_moves_people_between_corresponding_compartments_only",
             "len(pop.links) == 2 and all(l.source.pop is pop and l.dest.pop is TARGET and l.source.id[1] == l.dest.id[1] for l in pop.links)"),
            ("C01.plain_compartments_are_transferred_births_deaths_and_junctions_are_not",
             "pop.links[0].source is pop.comps[0] and pop.links[1].source is pop.comps[4] and len(pop.comps[1].outlinks) == 0 and len(pop.comps[2].outlinks) == 0 and len(pop.comps[3].outlinks) == 0"),
            ("C01+C03.all_links_of_the_pair_are_driven_by_one_parameter_of_the_source_population",
             "len(pop.pars) == 1 and pop.par_lookup['aging_from_to_to'] is pop.pars[0] and len(pop.pars[0].links) == 2 and all(l.parameter is pop.pars[0] for l in pop.links) and pop.pars[0].units == UNITS"),
            ("C06.the_transfer_parameter_is_the_databook_series_times_both_calibration_factors_clipped_into_its_limits",
             "len(pop.pars[0].vals) == %d and all(pop.pars[0].vals[i] == max(data[i] * (Y * M), %s) for i in range(%d))" % (N_T, _lo, N_T)),
            ("C06+C02.limits_of_a_transfer_parameter", "pop.pars[0].limits[0] == %s" % _lo),
            ("C01.the_target_population_gets_only_inflows", "len(TARGET.links) == 0 and all(len(c.outlinks) == 0 for c in TARGET.comps) and len(TARGET.comps[0].inlinks) == 1 and len(TARGET.comps[4].inlinks) == 1"),
        ],
        defined_props=["C01", "C03", "C06", "C02"])


def _replay(model, contract):
    """replay END TO END on the tb demo project (five populations with aging transfers): one transfer gets calibration factors 1.5
    (population) and 0.5 (all populations), the model is built and run, and every transfer parameter of every population pair is
    checked: links between corresponding compartments only, none out of births / deaths / junctions, values = databook x factors"""
    import logging
    import warnings

    import numpy as np
    import atomica as at
    import atomica.model as am

    warnings.filterwarnings("ignore")
    at.logger.setLevel(logging.ERROR)
    P = at.demo("tb", do_run=False)
    ps = P.parsets[0].copy()
    first = True
    for name in ps.transfers:
        for src in ps.transfers[name]:
            tp = ps.transfers[name][src]
            if first and len(tp.ts):
                tgt0 = list(tp.ts.keys())[0]
                tp.y_factor[tgt0], tp.meta_y_factor, first = 1.5, 0.5, False
    pre = dict(project="tb", calibration_factors_on_the_first_transfer={"population": 1.5, "all_populations": 0.5})
    try:
        res = P.run_sim(ps)
    except Exception as e:  # noqa
        return dict(verdict="violates", raised="%s: %s" % (type(e).__name__, e), detail="building / running the tb model raised %s: %s" % (type(e).__name__, str(e)[:200]), prestate=pre)
    bad, n_checked = [], 0
    for name in ps.transfers:
        for src in ps.transfers[name]:
            tp = ps.transfers[name][src]
            pop = res.model.get_pop(src)
            for tgt in tp.ts:
                par = pop.get_par("%s_%s_to_%s" % (name, src, tgt))
                n_checked += 1
                eligible = [c for c in pop.comps if not isinstance(c, (am.SourceCompartment, am.SinkCompartment, am.JunctionCompartment))]
                if sorted(l.source.name for l in par.links) != sorted(c.name for c in eligible):
                    bad.append("%s %s->%s: links leave %r, the transferable compartments are %r" % (name, src, tgt, sorted(l.source.name for l in par.links), sorted(c.name for c in eligible)))
                for l in par.links:
                    if l.source.pop.name != src or l.dest.pop.name != tgt or l.source.name != l.dest.name:
                        bad.append("%s %s->%s: a link runs from %s/%s to %s/%s" % (name, src, tgt, l.source.pop.name, l.source.name, l.dest.pop.name, l.dest.name))
                want = np.clip(tp.interpolate(res.model.t, tgt) * tp.y_factor[tgt] * tp.meta_y_factor, par.limits[0], par.limits[1])
                if not np.allclose(par.vals, want, rtol=1e-12, atol=0):
                    k = int(np.argmax(np.abs(par.vals - want)))
                    bad.append("%s %s->%s: value %r at %s, databook x factors gives %r" % (name, src, tgt, float(par.vals[k]), float(res.model.t[k]), float(want[k])))
    return dict(verdict="violates" if bad else "holds", detail="; ".join(bad[:3]) or "%d transfer parameters wired and valued as the databook states" % n_checked,
                prestate=pre)


for _c in CONTRACTS.values():
    _c["replay_hook"] = _replay
