"""
Contracts on the object wiring done by model.Population.build (properties C05, C01): the body of the loop

    for comp_name in list(comps.index):        # "Instantiate compartments"

for ONE framework row.  Which class a compartment gets, and which duration group it is told about, decide how the integration
treats it: links into and out of a junction are TimedLinks (elapsed time kept, C05) exactly when the junction carries the duration
group the framework assigned to it, and a compartment with a duration group must be a TimedCompartment driven by the group's
parameter.  The framework row is a ghost: four Booleans (same population type, residual junction, junction, source, sink) and
the duration-group cell DG (one contract per shape of DG: a group name or an empty cell).
The constructors (Variable / Compartment / JunctionCompartment / TimedCompartment.__init__) are the real ones, executed.
"""
CONTRACTS = {}
schema = "covout"


def _make_env(dg):
    def make(it):
        from pyvc.interp import PyObjV
        from pyvc.core import Opaque
        from pyvc import source

        mm = source.load("model")
        par = PyObjV("Parameter", mm, {"id": ("pop", "dg")})
        self = PyObjV("Population", mm, {"name": "pop", "type": "default", "comps": [], "par_lookup": {"dg": par}})
        return {"self": self, "comp_name": "c", "comps": Opaque("framework compartments sheet"), "residual_junctions": Opaque("residual junction names"),
                "GROUP_PAR": par, "DG": dg}

    return make


def _replay(model, contract):
    """replay on the REAL Population constructor with a five-compartment framework (plain data frames): a (timed, group `dur`) ->
    j (junction inside the group, proportion link to b and residual link to c, both timed in the group), everything flushed to d.
    The junction must carry its duration group, its links must keep the elapsed time (TimedLink), and every compartment must have
    the class its framework row asks for"""
    import numpy as np
    import pandas as pd
    from atomica.model import Population

    class _Framework:
        pass

    fw = _Framework()
    nan = np.nan
    names = ["a", "j", "b", "c", "d"]
    fw.pars = pd.DataFrame({"population type": "default", "format": ["duration", "proportion", "probability"], "timescale": [1.0, nan, 1.0], "is derivative": "n",
                            "minimum value": 0.0, "maximum value": nan, "function": None, "timed": ["y", "n", "n"]}, index=["dur", "jsplit", "enter"])
    fw.comps = pd.DataFrame({"population type": "default", "is junction": ["n", "y", "n", "n", "n"],
                             "duration group": pd.Series(["dur", "dur", "dur", "dur", None], index=names, dtype=object), "is source": "n", "is sink": "n"}, index=names)
    fw.characs = pd.DataFrame({"population type": [], "components": [], "denominator": []})
    fw.transitions = {"dur": [("a", "d"), ("b", "d"), ("c", "d")], "jsplit": [("j", "b")], "enter": [("a", "j")], ">": [("j", "c")]}
    pre = dict(compartments={n: dict(fw.comps.loc[n]) for n in names}, transitions=fw.transitions)
    try:
        pop = Population(fw, "pop", "Pop", None, "default")
    except Exception as e:  # noqa
        return dict(verdict="violates", raised="%s: %s" % (type(e).__name__, e), detail="building the population raised %s: %s" % (type(e).__name__, e), prestate=pre)
    want = {"a": "TimedCompartment", "j": "ResidualJunctionCompartment", "b": "TimedCompartment", "c": "TimedCompartment", "d": "Compartment"}
    bad = ["compartment %r is a %s, its framework row asks for %s" % (n, type(pop.get_comp(n)).__name__, c) for n, c in want.items() if type(pop.get_comp(n)).__name__ != c]
    j = pop.get_comp("j")
    if getattr(j, "duration_group", None) != "dur":
        bad.append("junction 'j' carries duration group %r, the framework puts it in 'dur'" % (getattr(j, "duration_group", None),))
    plain = [l.name for l in list(j.inlinks) + list(j.outlinks) if type(l).__name__ != "TimedLink"]
    if plain:
        bad.append("links %r of the junction do not keep the elapsed time (plain Link instead of TimedLink)" % (plain,))
    return dict(verdict="violates" if bad else "holds", detail="; ".join(bad) or "classes, duration group and link types are as the framework rows ask", prestate=pre)


_stubs = {
    "comps.at[comp_name, 'population type'] == self.type": "SAME_TYPE",
    "comp_name in residual_junctions": "IS_RESIDUAL",
    "comps.at[comp_name, 'is junction'] == 'y'": "IS_JUNCTION",
    "comps.at[comp_name, 'is source'] == 'y'": "IS_SOURCE",
    "comps.at[comp_name, 'is sink'] == 'y'": "IS_SINK",
    "comps.at[comp_name, 'duration group']": "DG",
}
_one = "SAME_TYPE and len(self.comps) == 1"
for _tag, _dg in (("in_a_duration_group", "dg"), ("outside_duration_groups", None)):
    _timed = ([("C05.compartment_of_a_duration_group_is_timed_by_the_group_parameter",
                "implies(SAME_TYPE and not IS_RESIDUAL and not IS_JUNCTION, type(self.comps[0]).__name__ == 'TimedCompartment' and self.comps[0].parameter is GROUP_PAR)")]
              if _dg else
              [("C05+C01.compartment_outside_duration_groups_gets_its_plain_class",
                "implies(SAME_TYPE and not IS_RESIDUAL and not IS_JUNCTION, type(self.comps[0]).__name__ == ('SourceCompartment' if IS_SOURCE else ('SinkCompartment' if IS_SINK else 'Compartment')))")])
    CONTRACTS["model:Population.build#one_compartment_%s" % _tag] = dict(
        schema=schema, fragment={"iter": "list(comps.index)"}, make_env=_make_env(_dg), class_module="model", replay_hook=_replay,
        concrete_new=["ResidualJunctionCompartment", "JunctionCompartment", "TimedCompartment", "SourceCompartment", "SinkCompartment", "Compartment"],
        ghost_params={"SAME_TYPE": "bool", "IS_RESIDUAL": "bool", "IS_JUNCTION": "bool", "IS_SOURCE": "bool", "IS_SINK": "bool"},
        stubs=_stubs,
        ensures=[
            ("C05.other_population_types_get_no_compartment", "implies(not SAME_TYPE, len(self.comps) == 0)"),
            ("C05+C01.one_compartment_of_that_name_in_this_population", "implies(SAME_TYPE, len(self.comps) == 1 and self.comps[0].id == ('pop', 'c') and self.comps[0].pop is self)"),
            ("C05+C01.residual_junction_class", "implies(SAME_TYPE and IS_RESIDUAL, type(self.comps[0]).__name__ == 'ResidualJunctionCompartment')"),
            ("C05+C01.junction_class", "implies(SAME_TYPE and not IS_RESIDUAL and IS_JUNCTION, type(self.comps[0]).__name__ == 'JunctionCompartment')"),
            ("C05.a_junction_is_told_its_duration_group", "implies(SAME_TYPE and (IS_RESIDUAL or IS_JUNCTION), self.comps[0].duration_group == DG)"),
        ] + _timed,
        defined_props=["C05", "C01"])


# ---- the limits of a parameter ("Parameters third pass"): body of the loop that reads the framework's minimum / maximum value.
# A parameter with EITHER bound gets limits (the missing side is infinite); one with neither keeps None.  The two cells are ghosts:
# HAS_MIN / HAS_MAX say whether the cell holds a finite number, LOWER / UPPER are the values of max(-inf, cell) and min(inf, cell)
# (Python: a blank cell is NaN and max(-inf, nan) is -inf -- assumed, not derived).
def _env_limits(it):
    from pyvc.interp import PyObjV
    from pyvc.core import Opaque
    from pyvc import source

    mm = source.load("model")
    par = PyObjV("Parameter", mm, {"id": ("pop", "p"), "limits": None})
    return {"self": PyObjV("Population", mm, {"name": "pop", "type": "default"}), "par": par, "pars": Opaque("framework parameters sheet"), "FCN_SET": []}


def _ghost_set_fcn(it, fcn_str):
    it.live_env["FCN_SET"].append(fcn_str)


def _replay_limits(model, contract):
    """replay on the REAL Population constructor: three parameters with (minimum only), (maximum only), (neither)"""
    import numpy as np
    import pandas as pd
    from atomica.model import Population

    class _Framework:
        pass

    fw = _Framework()
    nan = np.nan
    fw.pars = pd.DataFrame({"population type": "default", "format": "number", "timescale": nan, "is derivative": "n",
                            "minimum value": [0.0, nan, nan], "maximum value": [nan, 1.0, nan], "function": None, "timed": "n"}, index=["min_only", "max_only", "neither"])
    fw.comps = pd.DataFrame({"population type": [], "is junction": [], "duration group": [], "is source": [], "is sink": []})
    fw.characs = pd.DataFrame({"population type": [], "components": [], "denominator": []})
    fw.transitions = {"min_only": [], "max_only": [], "neither": []}
    pop = Population(fw, "pop", "Pop", None, "default")
    got = {p.name: (None if p.limits is None else [float(x) for x in p.limits]) for p in pop.pars}
    want = {"min_only": [0.0, float("inf")], "max_only": [float("-inf"), 1.0], "neither": None}
    bad = ["parameter %r gets limits %r, its framework row asks for %r" % (n, got.get(n), w) for n, w in want.items() if got.get(n) != w]
    return dict(verdict="violates" if bad else "holds", detail="; ".join(bad) or "limits are as the framework rows ask", prestate=dict(minimum={"min_only": 0.0}, maximum={"max_only": 1.0}))


CONTRACTS["model:Population.build#parameter_limits"] = dict(
    schema=schema, fragment={"iter": "self.pars", "body_contains": "minimum value"}, make_env=_env_limits, class_module="model", replay_hook=_replay_limits,
    ghost_params={"HAS_MIN": "bool", "HAS_MAX": "bool", "LOWER": "real", "UPPER": "real", "NO_FUNCTION": "bool", "FCN": "const:'f'"},
    stubs={"np.isfinite(min_value)": "HAS_MIN", "np.isfinite(max_value)": "HAS_MAX", "max(-np.inf, min_value)": "LOWER", "min(np.inf, max_value)": "UPPER",
           "pd.isna(fcn_str)": "NO_FUNCTION", "pars.at[par.name, 'function']": "FCN"},
    call_stubs={"par.set_fcn": _ghost_set_fcn},
    ensures=[
        ("C06.a_parameter_with_either_bound_gets_limits", "implies(HAS_MIN or HAS_MAX, par.limits is not None and len(par.limits) == 2 and par.limits[0] == LOWER and par.limits[1] == UPPER)"),
        ("C06.a_parameter_without_bounds_has_no_limits", "implies(not HAS_MIN and not HAS_MAX, par.limits is None)"),
        ("C06.a_function_cell_is_installed_exactly_when_present", "len(FCN_SET) == (0 if NO_FUNCTION else 1)"),
    ],
    defined_props=["C06"])
