"""
Contracts on the object wiring done by model.Population.build (properties C05, C01): the body of the loop

    for comp_name in list(comps.index):        # "Instantiate compartments"

for ONE framework row.  Which class a compartment gets, and which duration group it is told about, decide how the integration
treats it: links into and out of a junction are TimedLinks (elapsed time kept, C05) exactly when the junction carries the duration
group the framework assigned to it, and a compartment with a duration group must be a TimedCompartment driven by the group's
parameter.  The framework row is a ghost: four Booleans (same population type, residual junction, junction, source, sink) and
the duration-group cell DG (one contract per shape of DG: a group name or an empty cell).
The constructors (Variable / Compartment / JunctionCompartment / TimedCompartment.__init__) are the real ones, executed.
"""
CONTRACTS = {}
schema = "covout"


def _make_env(dg):
    def make(it):
        from pyvc.interp import PyObjV
        from pyvc.core import Opaque
        from pyvc import source

        mm = source.load("model")
        par = PyObjV("Parameter", mm, {"id": ("pop", "dg")})
        self = PyObjV("Population", mm, {"name": "pop", "type": "default", "comps": [], "par_lookup": {"dg": par}})
        return {"self": self, "comp_name": "c", "comps": Opaque("framework compartments sheet"), "residual_junctions": Opaque("residual junction names"),
                "GROUP_PAR": par, "DG": dg}

    return make


def _replay(model, contract):
    """replay on the REAL Population constructor with a five-compartment framework (plain data frames): a (timed, group `dur`) ->
    j (junction inside the group, proportion link to b and residual link to c, both timed in the group), everything flushed to d.
    The junction must carry its duration group, its links must keep the elapsed time (TimedLink), and every compartment must have
    the class its framework row asks for"""
    import numpy as np
    import pandas as pd
    from atomica.model import Population

    class _Framework:
        pass

    fw = _Framework()
    nan = np.nan
    names = ["a", "j", "b", "c", "d"]
    fw.pars = pd.DataFrame({"population type": "default", "format": ["duration", "proportion", "probability"], "timescale": [1.0, nan, 1.0], "is derivative": "n",
                            "minimum value": 0.0, "maximum value": nan, "function": None, "timed": ["y", "n", "n"]}, index=["dur", "jsplit", "enter"])
    fw.comps = pd.DataFrame({"population type": "default", "is junction": ["n", "y", "n", "n", "n"],
                             "duration group": pd.Series(["dur", "dur", "dur", "dur", None], index=names, dtype=object), "is source": "n", "is sink": "n"}, index=names)
    fw.characs = pd.DataFrame({"population type": [], "components": [], "denominator": []})
    fw.transitions = {"dur": [("a", "d"), ("b", "d"), ("c", "d")], "jsplit": [("j", "b")], "enter": [("a", "j")], ">": [("j", "c")]}
    pre = dict(compartments={n: dict(fw.comps.loc[n]) for n in names}, transitions=fw.transitions)
    try:
        pop = Population(fw, "pop", "Pop", None, "default")
    except Exception as e:  # noqa
        return dict(verdict="violates", raised="%s: %s" % (type(e).__name__, e), detail="building the population raised %s: %s" % (type(e).__name__, e), prestate=pre)
    want = {"a": "TimedCompartment", "j": "ResidualJunctionCompartment", "b": "TimedCompartment", "c": "TimedCompartment", "d": "Compartment"}
    bad = ["compartment %r is a %s, its framework row asks for %s" % (n, type(pop.get_comp(n)).__name__, c) for n, c in want.items() if type(pop.get_comp(n)).__name__ != c]
    j = pop.get_comp("j")
    if getattr(j, "duration_group", None) != "dur":
        bad.append("junction 'j' carries duration group %r, the framework puts it in 'dur'" % (getattr(j, "duration_group", None),))
    plain = [l.name for l in list(j.inlinks) + list(j.outlinks) if type(l).__name__ != "TimedLink"]
    if plain:
        bad.append("links %r of the junction do not keep the elapsed time (plain Link instead of TimedLink)" % (plain,))
    return dict(verdict="violates" if bad else "holds", detail="; ".join(bad) or "classes, duration group and link types are as the framework rows ask", prestate=pre)


_stubs = {
    "comps.at[comp_name, 'population type'] == self.type": "SAME_TYPE",
    "comp_name in residual_junctions": "IS_RESIDUAL",
    "comps.at[comp_name, 'is junction'] == 'y'": "IS_JUNCTION",
    "comps.at[comp_name, 'is source'] == 'y'": "IS_SOURCE",
    "comps.at[comp_name, 'is sink'] == 'y'": "IS_SINK",
    "comps.at[comp_name, 'duration group']": "DG",
}
_one = "SAME_TYPE and len(self.comps) == 1"
for _tag, _dg in (("in_a_duration_group", "dg"), ("outside_duration_groups", None)):
    _timed = ([("C05.compartment_of_a_duration_group_is_timed_by_the_group_parameter",
                "implies(SAME_TYPE and not IS_RESIDUAL and not IS_JUNCTION, type(self.comps[0]).__name__ == 'TimedCompartment' and self.comps[0].parameter is GROUP_PAR)")]
              if _dg else
              [("C05+C01.compartment_outside_duration_groups_gets_its_plain_class",
                "implies(SAME_TYPE and not IS_RESIDUAL and not IS_JUNCTION, type(self.comps[0]).__name__ == ('SourceCompartment' if IS_SOURCE else ('SinkCompartment' if IS_SINK else 'Compartment')))")])
    CONTRACTS["model:Population.build#one_compartment_%s" % _tag] = dict(
        schema=schema, fragment={"iter": "list(comps.index)"}, make_env=_make_env(_dg), class_module="model", replay_hook=_replay,
        concrete_new=["ResidualJunctionCompartment", "JunctionCompartment", "TimedCompartment", "SourceCompartment", "SinkCompartment", "Compartment"],
        ghost_params={"SAME_TYPE": "bool", "IS_RESIDUAL": "bool", "IS_JUNCTION": "bool", "IS_SOURCE": "bool", "IS_SINK": "bool"},
        stubs=_stubs,
        ensures=[
            ("C05.other_population_types_get_no_compartment", "implies(not SAME_TYPE, len(self.comps) == 0)"),
            ("C05+C01.one_compartment_of_that_name_in_this_population", "implies(SAME_TYPE, len(self.comps) == 1 and self.comps[0].id == ('pop', 'c') and self.comps[0].pop is self)"),
            ("C05+C01.residual_junction_class", "implies(SAME_TYPE and IS_RESIDUAL, type(self.comps[0]).__name__ == 'ResidualJunctionCompartment')"),
            ("C05+C01.junction_class", "implies(SAME_TYPE and not IS_RESIDUAL and IS_JUNCTION, type(self.comps[0]).__name__ == 'JunctionCompartment')"),
            ("C05.a_junction_is_told_its_duration_group", "implies(SAME_TYPE and (IS_RESIDUAL or IS_JUNCTION), self.comps[0].duration_group == DG)"),
        ] + _timed,
        defined_props=["C05", "C01"])


# ---- the limits of a parameter ("Parameters third pass"): body of the loop that reads the framework's minimum / maximum value.
# A parameter with EITHER bound gets limits (the missing side is infinite); one with neither keeps None.  The two cells are ghosts:
# HAS_MIN / HAS_MAX say whether the cell holds a finite number, LOWER / UPPER are the values of max(-inf, cell) and min(inf, cell)
# (Python: a blank cell is NaN and max(-inf, nan) is -inf -- assumed, not derived).
def _env_limits(it):
    from pyvc.interp import PyObjV
    from pyvc.core import Opaque
    from pyvc import source

    mm = source.load("model")
    par = PyObjV("Parameter", mm, {"id": ("pop", "p"), "limits": None})
    return {"self": PyObjV("Population", mm, {"name": "pop", "type": "default"}), "par": par, "pars": Opaque("framework parameters sheet"), "FCN_SET": []}


def _ghost_set_fcn(it, fcn_str):
    it.live_env["FCN_SET"].append(fcn_str)


def _replay_limits(model, contract):
    """replay on the REAL Population constructor: three parameters with (minimum only), (maximum only), (neither)"""
    import numpy as np
    import pandas as pd
    from atomica.model import Population

    class _Framework:
        pass

    fw = _Framework()
    nan = np.nan
    fw.pars = pd.DataFrame({"population type": "default", "format": "number", "timescale": nan, "is derivative": "n",
                            "minimum value": [0.0, nan, nan], "maximum value": [nan, 1.0, nan], "function": None, "timed": "n"}, index=["min_only", "max_only", "neither"])
    fw.comps = pd.DataFrame({"population type": [], "is junction": [], "duration group": [], "is source": [], "is sink": []})
    fw.characs = pd.DataFrame({"population type": [], "components": [], "denominator": []})
    fw.transitions = {"min_only": [], "max_only": [], "neither": []}
    pop = Population(fw, "pop", "Pop", None, "default")
    got = {p.name: (None if p.limits is None else [float(x) for x in p.limits]) for p in pop.pars}
    want = {"min_only": [0.0, float("inf")], "max_only": [float("-inf"), 1.0], "neither": None}
    bad = ["parameter %r gets limits %r, its framework row asks for %r" % (n, got.get(n), w) for n, w in want.items() if got.get(n) != w]
    return dict(verdict="violates" if bad else "holds", detail="; ".join(bad) or "limits are as the framework rows ask", prestate=dict(minimum={"min_only": 0.0}, maximum={"max_only": 1.0}))


CONTRACTS["model:Population.build#parameter_limits"] = dict(
    schema=schema, fragment={"iter": "self.pars", "body_contains": "minimum value"}, make_env=_env_limits, class_module="model", replay_hook=_replay_limits,
    ghost_params={"HAS_MIN": "bool", "HAS_MAX": "bool", "LOWER": "real", "UPPER": "real", "NO_FUNCTION": "bool", "FCN": "const:'f'"},
    stubs={"np.isfinite(min_value)": "HAS_MIN", "np.isfinite(max_value)": "HAS_MAX", "max(-np.inf, min_value)": "LOWER", "min(np.inf, max_value)": "UPPER",
           "pd.isna(fcn_str)": "NO_FUNCTION", "pars.at[par.name, 'function']": "FCN"},
    call_stubs={"par.set_fcn": _ghost_set_fcn},
    ensures=[
        ("C06.a_parameter_with_either_bound_gets_limits", "implies(HAS_MIN or HAS_MAX, par.limits is not None and len(par.limits) == 2 and par.limits[0] == LOWER and par.limits[1] == UPPER)"),
        ("C06.a_parameter_without_bounds_has_no_limits", "implies(not HAS_MIN and not HAS_MAX, par.limits is None)"),
        ("C06.a_function_cell_is_installed_exactly_when_present", "len(FCN_SET) == (0 if NO_FUNCTION else 1)"),
    ],
    defined_props=["C06"])


# ---- Link.create (C01): a new link is registered with BOTH of its ends, with its parameter and with the population, exactly once --
# stocks are stepped from compartment.inlinks / outlinks, so a link missing on one side would lose or duplicate people.
def _env_link_create(cls, with_par):
    def make(it):
        from pyvc.interp import PyObjV, ClassV
        from pyvc import source

        mm = source.load("model")
        pop = PyObjV("Population", mm, {"name": "pop", "links": [], "link_lookup": {}})
        par = PyObjV("Parameter", mm, {"id": ("pop", "p"), "links": []}) if with_par else None
        src = PyObjV("Compartment", mm, {"id": ("pop", "s"), "outlinks": [], "inlinks": []})
        dst = PyObjV("Compartment", mm, {"id": ("pop", "d"), "outlinks": [], "inlinks": []})
        return {"cls": ClassV(cls, mm), "pop": pop, "parameter": par, "source": src, "dest": dst}

    return make


for _cls in ("Link", "TimedLink"):
    for _with_par in (True, False):
        CONTRACTS["model:Link.create#%s_%s" % (_cls, "with_parameter" if _with_par else "without_parameter")] = dict(
            schema=schema, make_env=_env_link_create(_cls, _with_par), class_module="model", concrete_new=["Link", "TimedLink"],
            call_stubs={"sc.uuid": (lambda it, *a, **k: "uuid")},
            ensures=[
                ("C01.the_link_is_of_the_requested_class_and_joins_the_two_compartments", "type(result).__name__ == %r and result.source is source and result.dest is dest and result.parameter is parameter" % _cls),
                ("C01.registered_once_as_outflow_of_its_source_and_inflow_of_its_destination",
                 "len(source.outlinks) == 1 and source.outlinks[0] is result and len(dest.inlinks) == 1 and dest.inlinks[0] is result and len(source.inlinks) == 0 and len(dest.outlinks) == 0"),
                ("C01.registered_once_with_the_population", "len(pop.links) == 1 and pop.links[0] is result and len(pop.link_lookup[result.id[-1]]) == 1 and pop.link_lookup[result.id[-1]][0] is result"),
            ] + ([("C01+C03.registered_once_with_its_parameter", "len(parameter.links) == 1 and parameter.links[0] is result")] if _with_par else []),
            defined_props=["C01", "C03"])


def _replay_link_create(cls, with_par):
    def replay(model, contract):
        """replay on REAL objects: a bare Population, two real Compartments, a real Parameter; the real classmethod runs"""
        import atomica.model as am

        pop = object.__new__(am.Population)
        pop.name, pop.links, pop.link_lookup = "pop", [], {}
        src, dst = am.Compartment(pop, "s"), am.Compartment(pop, "d")
        par = am.Parameter(pop, "p") if with_par else None
        link = getattr(am, cls).create(pop, par, src, dst)
        bad = []
        if type(link).__name__ != cls or link.source is not src or link.dest is not dst or link.parameter is not par:
            bad.append("the link does not join the two compartments as asked")
        if [l for l in src.outlinks] != [link] or [l for l in dst.inlinks] != [link] or src.inlinks or dst.outlinks:
            bad.append("source.outlinks=%r dest.inlinks=%r source.inlinks=%r dest.outlinks=%r" % (len(src.outlinks), len(dst.inlinks), len(src.inlinks), len(dst.outlinks)))
        if pop.links != [link] or pop.link_lookup.get(link.name) != [link]:
            bad.append("the population registers the link %d times (lookup %r)" % (len(pop.links), {k: len(v) for k, v in pop.link_lookup.items()}))
        if with_par and par.links != [link]:
            bad.append("the parameter registers the link %d times" % len(par.links))
        return dict(verdict="violates" if bad else "holds", detail="; ".join(bad) or "registered once with both ends, the parameter and the population", prestate=dict(link_class=cls, with_parameter=with_par))

    return replay


for _cls in ("Link", "TimedLink"):
    for _with_par in (True, False):
        CONTRACTS["model:Link.create#%s_%s" % (_cls, "with_parameter" if _with_par else "without_parameter")]["replay_hook"] = _replay_link_create(_cls, _with_par)


# ---- connect (C05): "moves between compartments of the same duration group keep the elapsed time, moves to any other compartment
# restart it" -- decided when the links are created: a TimedLink (row-preserving) exactly when both ends are in the same duration
# group, a plain Link otherwise; the timed parameter's own link becomes the flush link and is detached from the parameter.
_DESTS = {
    "timed_same_group": ("TimedCompartment", {"parameter": "dur"}, True),
    "timed_other_group": ("TimedCompartment", {"parameter": "other"}, False),
    "junction_same_group": ("JunctionCompartment", {"duration_group": "dur"}, True),
    "junction_other_group": ("JunctionCompartment", {"duration_group": "other"}, False),
    "junction_no_group": ("JunctionCompartment", {"duration_group": None}, False),
    "plain": ("Compartment", {}, False),
    "sink": ("SinkCompartment", {}, False),
}


def _env_connect(src_cls, dest_key, flush):
    def make(it):
        from pyvc.interp import PyObjV
        from pyvc import source

        mm = source.load("model")
        pop = PyObjV("Population", mm, {"name": "pop", "links": [], "link_lookup": {}})
        group_par = PyObjV("Parameter", mm, {"id": ("pop", "dur"), "links": []})
        other_par = PyObjV("Parameter", mm, {"id": ("pop", "x"), "links": []})
        dcls, dextra, _ = _DESTS[dest_key]
        dfields = {"id": ("pop", "d"), "pop": pop, "outlinks": [], "inlinks": []}
        for k, v in dextra.items():
            dfields[k] = PyObjV("Parameter", mm, {"id": ("pop2", v), "links": []}) if k == "parameter" else v   # another instance of the group's parameter
        dest = PyObjV(dcls, mm, dfields)
        sfields = {"id": ("pop", "a"), "pop": pop, "outlinks": [], "inlinks": []}
        if src_cls == "TimedCompartment":
            sfields.update({"parameter": group_par, "flush_link": None})
        else:
            sfields.update({"duration_group": "dur" if src_cls == "JunctionCompartment#in_group" else None})
        self = PyObjV(src_cls.split("#")[0], mm, sfields)
        return {"self": self, "dest": dest, "par": group_par if flush else other_par, "POP": pop, "GROUP_PAR": group_par}

    return make


for _dk, (_dcls, _dx, _same) in _DESTS.items():
    for _flush in (False, True):
        _raises = {"AssertionError": "True"} if (_flush and _same) else {}
        CONTRACTS["model:TimedCompartment.connect#to_%s%s" % (_dk, "_flush" if _flush else "")] = dict(
            schema=schema, make_env=_env_connect("TimedCompartment", _dk, _flush), class_module="model", concrete_new=["Link", "TimedLink"],
            raises=_raises, raises_props=["C05"],
            ensures=[] if _raises else [
                ("C05.elapsed_time_is_kept_exactly_for_moves_inside_the_duration_group", "len(self.outlinks) == 1 and type(self.outlinks[0]).__name__ == %r" % ("TimedLink" if _same else "Link")),
                ("C05+C01.the_link_joins_this_compartment_and_the_destination", "self.outlinks[0].source is self and self.outlinks[0].dest is dest and len(dest.inlinks) == 1 and dest.inlinks[0] is self.outlinks[0] and len(POP.links) == 1"),
                ("C05.the_timed_parameter_own_link_is_the_flush_link_and_is_detached" if _flush else "C05.an_ordinary_link_stays_attached_to_its_parameter",
                 "self.flush_link is self.outlinks[0] and self.outlinks[0].parameter is None and len(GROUP_PAR.links) == 0" if _flush else
                 "self.flush_link is None and self.outlinks[0].parameter is par and len(par.links) == 1 and par.links[0] is self.outlinks[0]"),
            ],
            defined_props=["C05", "C01"])
    for _src, _ingroup in (("JunctionCompartment#in_group", True), ("JunctionCompartment#no_group", False)):
        # a junction of a duration group refuses a timed / junction destination of another group (ModelError) and otherwise keeps rows
        _mismatch = _ingroup and _dk in ("timed_other_group", "junction_other_group", "junction_no_group")
        CONTRACTS["model:JunctionCompartment.connect#%s_to_%s" % (_src.split("#")[1], _dk)] = dict(
            schema=schema, make_env=_env_connect(_src, _dk, False), class_module="model", concrete_new=["Link", "TimedLink"],
            raises=({"ModelError": "True"} if _mismatch else {}), raises_props=["C05"],
            ensures=[] if _mismatch else [
                ("C05.links_out_of_a_junction_keep_rows_exactly_when_it_belongs_to_a_duration_group", "len(self.outlinks) == 1 and type(self.outlinks[0]).__name__ == %r" % ("TimedLink" if _ingroup else "Link")),
                ("C05+C01.the_link_joins_this_junction_and_the_destination", "self.outlinks[0].source is self and self.outlinks[0].dest is dest and len(dest.inlinks) == 1 and self.outlinks[0].parameter is par"),
            ],
            defined_props=["C05", "C01"])

for _dk in ("timed_same_group", "junction_same_group", "plain", "sink"):
    CONTRACTS["model:Compartment.connect#to_%s" % _dk] = dict(
        schema=schema, make_env=_env_connect("Compartment", _dk, False), class_module="model", concrete_new=["Link", "TimedLink"], self_classes=["Compartment"],
        ensures=[("C05.entering_a_duration_group_from_outside_restarts_the_elapsed_time", "len(self.outlinks) == 1 and type(self.outlinks[0]).__name__ == 'Link'"),
                 ("C05+C01.the_link_joins_this_compartment_and_the_destination", "self.outlinks[0].source is self and self.outlinks[0].dest is dest and len(dest.inlinks) == 1 and self.outlinks[0].parameter is par")],
        defined_props=["C05", "C01"])
CONTRACTS["model:SinkCompartment.connect"] = dict(
    schema=schema, make_env=_env_connect("SinkCompartment", "plain", False), class_module="model", concrete_new=["Link", "TimedLink"],
    raises={"ModelError": "True"}, raises_props=["C01"], ensures=[], defined_props=["C01"])


def _replay_connect(src_cls, dest_key, flush):
    def replay(model, contract):
        """replay on REAL objects: a bare Population, real compartments of the stated classes and a real parameter; the real connect() runs"""
        import atomica.model as am

        pop = object.__new__(am.Population)
        pop.name, pop.links, pop.link_lookup, pop.par_lookup = "pop", [], {}, {}
        pop2 = object.__new__(am.Population)
        pop2.name = "pop2"
        group_par, other_par = am.Parameter(pop, "dur"), am.Parameter(pop, "x")
        dcls, dextra, same = _DESTS[dest_key]
        if dcls == "TimedCompartment":
            dest = am.TimedCompartment(pop, "d", am.Parameter(pop2, dextra["parameter"]))
        elif dcls == "JunctionCompartment":
            dest = am.JunctionCompartment(pop, "d", duration_group=dextra["duration_group"])
        else:
            dest = getattr(am, dcls)(pop, "d")
        base = src_cls.split("#")[0]
        if base == "TimedCompartment":
            src = am.TimedCompartment(pop, "a", group_par)
        elif base == "JunctionCompartment":
            src = am.JunctionCompartment(pop, "a", duration_group="dur" if src_cls.endswith("in_group") else None)
        else:
            src = getattr(am, base)(pop, "a")
        par = group_par if flush else other_par
        expected = contract.get("raises") or {}
        pre = dict(source=src_cls, destination=dest_key, connecting_the_timed_parameter=flush)
        try:
            src.connect(dest, par)
        except Exception as e:  # noqa
            ok = type(e).__name__ in expected
            return dict(verdict="holds" if ok else "violates", raised=type(e).__name__, detail="connect raised %s%s" % (type(e).__name__, "" if ok else " (not allowed here)"), prestate=pre)
        if expected:
            return dict(verdict="violates", detail="connect returned although %s is required here" % "/".join(expected), prestate=pre)
        want = "TimedLink" if ((base == "TimedCompartment" and same) or src_cls.endswith("in_group")) else "Link"
        bad = []
        if len(src.outlinks) != 1 or type(src.outlinks[0]).__name__ != want:
            bad.append("the new link is a %s, the duration groups of its ends ask for a %s" % ("/".join(type(l).__name__ for l in src.outlinks), want))
        elif dest.inlinks != [src.outlinks[0]] or src.outlinks[0].source is not src or src.outlinks[0].dest is not dest:
            bad.append("the link does not join the two compartments")
        elif flush and not (src.flush_link is src.outlinks[0] and src.outlinks[0].parameter is None and group_par.links == []):
            bad.append("the timed parameter's link is not installed as the detached flush link")
        elif not flush and not (src.outlinks[0].parameter is par and par.links == [src.outlinks[0]]):
            bad.append("the link is not attached to its parameter")
        return dict(verdict="violates" if bad else "holds", detail="; ".join(bad) or "link class and wiring as the duration groups ask", prestate=pre)

    return replay


for _k, _c in CONTRACTS.items():
    if ".connect" in _k and "make_env" in _c:
        _cl = _c["make_env"].__closure__
        _vals = {n: c.cell_contents for n, c in zip(_c["make_env"].__code__.co_freevars, _cl)}
        _c["replay_hook"] = _replay_connect(_vals["src_cls"], _vals["dest_key"], _vals["flush"])


# ---- the link passes of Population.build (C01, C03): every framework transition (source, destination) of a parameter is connected
# once, from the source compartment to the destination compartment of THIS population, with that parameter; the residual
# transitions ('>') are connected without a parameter and skipped when a compartment is not in this population.
def _env_links(it):
    from pyvc.interp import PyObjV
    from pyvc.core import Opaque
    from pyvc import source

    mm = source.load("model")
    pop_fields = {"name": "pop", "type": "default", "links": [], "link_lookup": {}}
    self = PyObjV("Population", mm, pop_fields)
    comps = {n: PyObjV("Compartment", mm, {"id": ("pop", n), "pop": self, "outlinks": [], "inlinks": []}) for n in ("s", "d", "e")}
    pop_fields["comps"] = list(comps.values())
    pop_fields["comp_lookup"] = dict(comps)
    par = PyObjV("Parameter", mm, {"id": ("pop", "p"), "links": []})
    fw = PyObjV("ProjectFramework", source.load("framework"), {"transitions": {"p": [("s", "d"), ("s", "e")]}})
    return {"self": self, "par": par, "framework": fw, "S": comps["s"], "D": comps["d"], "E": comps["e"]}


CONTRACTS["model:Population.build#links_of_one_parameter"] = dict(
    schema=schema, fragment={"iter": "self.pars", "body_contains": "framework.transitions[par.name]"}, make_env=_env_links, class_module="model", concrete_new=["Link", "TimedLink"],
    ensures=[
        ("C01+C03.every_transition_of_the_parameter_becomes_one_link", "len(par.links) == 2 and len(self.links) == 2 and len(S.outlinks) == 2 and len(D.inlinks) == 1 and len(E.inlinks) == 1"),
        ("C01+C03.each_link_runs_from_the_stated_source_to_the_stated_destination", "par.links[0].source is S and par.links[0].dest is D and par.links[1].source is S and par.links[1].dest is E and D.inlinks[0] is par.links[0] and E.inlinks[0] is par.links[1]"),
        ("C01+C03.the_links_are_driven_by_that_parameter", "par.links[0].parameter is par and par.links[1].parameter is par"),
        ("C01.nothing_flows_backwards", "len(S.inlinks) == 0 and len(D.outlinks) == 0 and len(E.outlinks) == 0"),
    ],
    defined_props=["C01", "C03"])


# ---- Model._set_exec_order, the junction graph (C04: "through chains of junctions"; C01): the body of the loop over the compartments of a population.  Every junction -- residual
# ones included -- is a node, and there is an edge to every junction (residual or not) one of its outflows leads to, so that a topological order flushes and balances upstream
# junctions first; ordinary compartments contribute nothing.  The graph is a ghost that records what is added.
def _env_jgraph(kind):
    def make(it):
        from pyvc.interp import PyObjV, ClassV
        from pyvc import source

        mm = source.load("model")
        mk = lambda cls, name: PyObjV(cls, mm, {"name": name, "outlinks": []})
        comp, plain, junc, resid = mk(kind, "comp"), mk("Compartment", "plain"), mk("JunctionCompartment", "junc"), mk("ResidualJunctionCompartment", "resid")
        comp.fields["outlinks"] = [PyObjV("Link", mm, {"source": comp, "dest": d}) for d in (resid, plain, junc)]
        return {"comp": comp, "PLAIN": plain, "JUNC": junc, "RESID": resid, "G": PyObjV("DiGraph", mm, {"NODES": [], "EDGES": []}), "JunctionCompartment": ClassV("JunctionCompartment", mm)}

    return make


_jg_stubs = {"G.add_node": (lambda it, n: it.stub_receiver.fields["NODES"].append(n)), "G.add_edge": (lambda it, a, b: it.stub_receiver.fields["EDGES"].append((a, b)))}
for _kind in ("JunctionCompartment", "ResidualJunctionCompartment"):
    CONTRACTS["model:Model._set_exec_order#junction_graph_%s" % ("residual_junction" if _kind.startswith("Residual") else "junction")] = dict(
        schema=schema, fragment={"iter": "pop.comps", "body_contains": "G.add_node(comp)"}, make_env=_env_jgraph(_kind), call_stubs=_jg_stubs,
        ensures=[("C04+C01.every_junction_is_a_node", "len(G.NODES) == 1 and G.NODES[0] is comp"),
                 ("C04+C01.there_is_an_edge_to_every_junction_it_flows_into_residual_ones_included", "len(G.EDGES) == 2 and G.EDGES[0][0] is comp and G.EDGES[0][1] is RESID and G.EDGES[1][0] is comp and G.EDGES[1][1] is JUNC")],
        defined_props=["C04"])
for _kind in ("Compartment", "TimedCompartment", "SourceCompartment"):
    CONTRACTS["model:Model._set_exec_order#junction_graph_%s" % _kind] = dict(
        schema=schema, fragment={"iter": "pop.comps", "body_contains": "G.add_node(comp)"}, make_env=_env_jgraph(_kind), call_stubs=_jg_stubs,
        ensures=[("C04+C01.compartments_that_are_not_junctions_are_not_in_the_graph", "len(G.NODES) == 0 and len(G.EDGES) == 0")], defined_props=["C04"])
