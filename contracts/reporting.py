"""
Contract on a spending report derived from a finished result (property C13: "the spending ... reported from the finished result are the
ones that produced those values"): the body of the program loop of Result.get_equivalent_alloc for a program without saturation or
capacity constraint.  For such a program the coverage was produced by  capacity = spending x (dt for one-off programs) / unit cost,
coverage = capacity / eligible  (contracts C11 on Program.get_capacity / get_prop_covered), so the minimal spending that explains
the coverage is the spending itself.
"""
import z3

schema = "covout"
CONTRACTS = {}
_P = "self.model.progset.programs[prog]"


def _make_env(it):
    from pyvc.interp import PyObjV
    from pyvc.core import LArr, Opaque
    from pyvc import source

    rm = source.load("results")
    dt, S, UC, NE = z3.Real("dt"), z3.Real("spending"), z3.Real("unit_cost"), z3.Real("eligible")
    one_off = z3.Bool("ONE_OFF")
    it.pc.append(z3.And(dt > 0, UC > 0, NE > 0, S >= 0))
    pc = S * z3.If(one_off, dt, z3.RealVal(1)) / (UC * NE)      # the coverage this spending produced (unconstrained, below 1)
    model = PyObjV("Model", source.load("model"), {"dt": dt, "progset": Opaque("progset")})
    self = PyObjV("Result", rm, {"model": model})
    return {"self": self, "prog": "p", "year": 2020.0, "prop_coverage": {"p": LArr(1, lambda i: pc)}, "num_eligible": {"p": LArr(1, lambda i: NE)}, "equivalent_alloc": {},
            "UCARR": LArr(1, lambda i: UC), "ONE_OFF": one_off, "S": S, "NO": False, "COVERAGE_UNITS_PER_YEAR": z3.Bool("COVERAGE_UNITS_PER_YEAR")}


CONTRACTS["results:Result.get_equivalent_alloc#unconstrained_program"] = dict(
    schema=schema, fragment={"iter": "prop_coverage.keys()"}, make_env=_make_env,
    stubs={_P + ".unit_cost.interpolate(year)": "UCARR", _P + ".saturation.has_data": "NO", _P + ".capacity_constraint.has_data": "NO",
           _P + ".is_one_off": "ONE_OFF",
           # the units of Program.coverage are independent data: 'people/year' by default (Program.__init__) and whatever the program
           # book states otherwise (reading a book only warns when they disagree with the unit cost) -- an arbitrary Boolean here
           "'/year' in " + _P + ".coverage.units": "COVERAGE_UNITS_PER_YEAR"},
    call_stubs={"sc.dcp": (lambda it, x: x)},
    ensures=[("C13.reported_equivalent_spending_is_the_spending_that_produced_the_coverage", "equivalent_alloc['p'][0] == S")],
    defined_props=["C13"])


def _replay(model, contract):
    """replay END TO END on the udt demo project: one program is made continuous (unit cost per person per year), the simulation runs
    with dt = 0.25, and the equivalent allocation reported from the result is compared with the allocation that was simulated"""
    import logging
    import warnings

    import atomica as at

    warnings.filterwarnings("ignore")
    at.logger.setLevel(logging.ERROR)
    P = at.demo("udt", do_run=False)
    P.settings.update_time_vector(dt=0.25)
    ps = P.progsets[0]
    name = "Adherence"
    ps.programs[name].unit_cost.units = "$/person/year"
    res = P.run_sim(P.parsets[0], ps, at.ProgramInstructions(start_year=2018))
    year = 2020.0
    alloc, equiv, cov = res.get_alloc(year), res.get_equivalent_alloc(year), res.get_coverage("fraction", year)
    rows = {k: dict(one_off=bool(res.model.progset.programs[k].is_one_off), simulated_spending=float(alloc[k][0]), reported_equivalent_spending=float(equiv[k][0]), coverage=float(cov[k][0])) for k in alloc.keys()}
    bad = [k for k, r in rows.items() if r["coverage"] < 1 and abs(r["reported_equivalent_spending"] - r["simulated_spending"]) > 1e-6 * max(1.0, r["simulated_spending"])]
    pre = dict(project="udt", dt=0.25, continuous_program=name, year=year, programs=rows)
    return dict(verdict="violates" if bad else "holds",
                detail=("program(s) %r: reported equivalent spending differs from the spending that was simulated (%r vs %r)" % (bad, rows[bad[0]]["reported_equivalent_spending"], rows[bad[0]]["simulated_spending"]))
                if bad else "every unconstrained program's equivalent spending equals the simulated spending", prestate=pre)


CONTRACTS["results:Result.get_equivalent_alloc#unconstrained_program"]["replay_hook"] = _replay


# ---- the number eligible: what the run used (Model.update_pars) and what the result reports (Result.get_coverage) are the same
# function of the recorded compartment sizes -- the sum over the program's target compartments at that time index (C13)
def _env_run_eligible(it):
    from pyvc.core import Opaque

    comps = [it.new_obj("comp%d" % j, ["Compartment", "SinkCompartment"]) for j in range(2)]
    it.facts.append(comps[0].ref != comps[1].ref)
    self = it.new_obj("self", ["Model"])
    return {"self": self, "k": "prog", "comp_list": comps, "c0": comps[0], "c1": comps[1], "prop_coverage": {"prog": 0.0},
            "COVERED": Opaque("get_prop_covered result"), "CACHE": {"comps": {"prog": comps}, "prop_coverage": {}, "capacities": Opaque("capacities")}}


def _ghost_prop_covered(it, t, capacity, n):
    for name, v in (("N_USED", n), ("T_USED", t), ("CAP_USED", capacity)):
        it.ghost_env[name] = v
        it.live_env[name] = v
    return it.ghost_env["COVERED"]


CONTRACTS["model:Model.update_pars#eligible_used_by_the_run"] = dict(
    schema="model_schema", fragment={"iter": "self._program_cache['comps'].items()"}, make_env=_env_run_eligible,
    params={"ti": "int"}, ghost_params={"YEAR": "real", "CAPACITY": "real"},
    stubs={"self._program_cache": "CACHE", "self._program_cache['capacities'][k][ti]": "CAPACITY", "self.t[ti]": "YEAR"},
    call_stubs={"self.progset.programs[k].get_prop_covered": _ghost_prop_covered},
    requires=["0 <= ti", "ti < len(c0.vals)", "ti < len(c1.vals)"],
    ensures=[("C13+C11.number_eligible_used_by_the_run_is_the_current_size_of_the_targeted_compartments", "N_USED == c0.vals[ti] + c1.vals[ti]"),
             ("C13.coverage_is_taken_at_the_year_of_the_step", "T_USED == YEAR"),
             ("C13.coverage_uses_the_capacity_of_the_step", "CAP_USED == CAPACITY")],
    defined_props=["C13", "C11"])


def _replay_run_coverage(model, contract):
    """replay END TO END on the udt demo project with dt = 0.25: the first program gets a saturation that changes during the
    programs period and ample spending; at every active step each targeted parameter must equal the outcome the program set
    implies at the coverage REPORTED from the result for that step (converted for number / per-year parameters, clipped)"""
    import logging
    import warnings

    import numpy as np
    import atomica as at
    from atomica.system import FrameworkSettings as FS

    warnings.filterwarnings("ignore")
    at.logger.setLevel(logging.ERROR)
    P = at.demo("udt", do_run=False)
    P.settings.update_time_vector(dt=0.25)
    ps = P.progsets[0]
    name = list(ps.programs.keys())[0]
    prog = ps.programs[name]
    prog.saturation = at.TimeSeries([2016, 2020], [0.95, 0.3])
    spend = float(prog.spend_data.interpolate(np.array([2018.0]))[0]) * 50
    res = P.run_sim(P.parsets[0], ps, at.ProgramInstructions(start_year=2018, alloc={name: spend}))
    cov = res.get_coverage("fraction")
    bad = []
    for ti in range(len(res.t)):
        if res.t[ti] < 2018:
            continue
        out = ps.get_outcomes({k: v[[ti]] for k, v in cov.items()})
        for (par_name, pop_name), v in out.items():
            par = res.model.get_pop(pop_name).get_par(par_name)
            want = float(np.ravel(v)[0])
            if par.units == FS.QUANTITY_TYPE_NUMBER:
                want = want * par.source_popsize(ti) / res.dt
            elif par.units in (FS.QUANTITY_TYPE_RATE, FS.QUANTITY_TYPE_PROBABILITY):
                want = want / res.dt
            if par.limits is not None:
                want = float(np.clip(want, *par.limits))
            if abs(par.vals[ti] - want) > 1e-9 * max(1.0, abs(want)):
                bad.append(dict(parameter=par_name, population=pop_name, year=float(res.t[ti]), simulated_value=float(par.vals[ti]), value_implied_by_reported_coverage=want,
                                reported_coverage={k: float(v[ti]) for k, v in cov.items()}))
    pre = dict(project="udt", dt=0.25, program=name, saturation={"2016": 0.95, "2020": 0.3}, spending=spend, start_year=2018)
    return dict(verdict="violates" if bad else "holds",
                detail=("%d (parameter, population, step) triples differ from the value implied by the reported coverage; first: %r" % (len(bad), bad[0])) if bad
                else "every targeted parameter equals the outcome at the reported coverage of its step", prestate=pre)


CONTRACTS["model:Model.update_pars#eligible_used_by_the_run"]["replay_hook"] = _replay_run_coverage


def _env_report_eligible(first):
    def make(it):
        from pyvc.interp import PyObjV, ClassV
        from pyvc.core import LArr
        from pyvc import source

        mm = source.load("model")
        n = z3.Int("n_times")
        it.facts.append(n >= 0)
        f = z3.Function("sizes", z3.IntSort(), z3.RealSort())
        g = z3.Function("eligible_so_far", z3.IntSort(), z3.RealSort())
        sizes = LArr(n, lambda i: f(i if z3.is_expr(i) else z3.IntVal(i)), fresh_alloc=False)
        comp = PyObjV("Compartment", mm, {"id": ("pop", "c"), "vals": sizes})
        prog = PyObjV("Program", source.load("programs"), {"name": "prog", "target_pops": ["pop"], "target_comps": ["c"]})
        so_far = LArr(n, lambda i: g(i if z3.is_expr(i) else z3.IntVal(i)))
        return {"self": None, "prog": prog, "pop_name": "pop", "comp_name": "c", "COMP": [comp], "comp0": comp, "num_eligible": ({} if first else {"prog": so_far}),
                "SIZES": sizes, "SO_FAR": so_far, "n": n, "JunctionCompartment": ClassV("JunctionCompartment", mm)}

    return make


for _first in (True, False):
    CONTRACTS["results:Result.get_coverage#eligible_%s" % ("first_compartment" if _first else "further_compartment")] = dict(
        schema=schema, fragment={"iter": "prog.target_comps"}, make_env=_env_report_eligible(_first),
        stubs={"self.get_variable(comp_name, pop_name)": "COMP"},
        ensures=[("C13+C11.reported_number_eligible_adds_the_recorded_size_of_each_targeted_compartment",
                  "len(num_eligible['prog']) == n and all(num_eligible['prog'][i] == %s for i in range(n))" % ("SIZES[i]" if _first else "SO_FAR[i] + SIZES[i]")),
                 ("C13+C20+C11+C08.the_report_does_not_write_into_the_result", "num_eligible['prog'] is not comp0.vals and all(comp0.vals[i] == SIZES[i] for i in range(n))")],
        defined_props=["C13", "C20"])


# ---- Compartment.outflow (reported people leaving per step, C13/C20 reports): the sum of the outgoing links at every time index
CONTRACTS["model:Compartment.outflow"] = dict(
    schema="model_schema", params={},
    requires=["all(not isinstance(l, TimedLink) for l in self.outlinks)", "all(len(l.vals) == len(self.t) for l in self.outlinks)"],
    modifies=[],
    ensures=[("C13+C20.reported_outflow_is_the_sum_of_the_outgoing_links", "len(result) == len(self.t) and all(result[i] == sum(l.vals[i] for l in self.outlinks) for i in range(len(self.t)))")],
    frame_props=["C13", "C20"], defined_props=["C13"])


# ---- Result.get_coverage, the annualisation loop at its end: capacity and number covered of one-off programs are reported per year
# (divided by dt), continuous programs as they are
def _env_annualise(quantity):
    def make(it):
        from pyvc.interp import PyObjV
        from pyvc.core import LArr, Opaque
        from pyvc import source

        n = z3.Int("n_times")
        it.facts.append(n >= 0)
        f = z3.Function("per_step", z3.IntSort(), z3.RealSort())
        vals = LArr(n, lambda i: f(i if z3.is_expr(i) else z3.IntVal(i)))
        dt = z3.Real("dt")
        it.pc.append(dt > 0)
        model = PyObjV("Model", source.load("model"), {"dt": dt, "progset": Opaque("progset")})
        self = PyObjV("Result", source.load("results"), {"model": model})
        per_step = LArr(n, lambda i: f(i if z3.is_expr(i) else z3.IntVal(i)), fresh_alloc=False)
        return {"self": self, "prog": "p", "output": {"p": vals}, "quantity": quantity, "PER_STEP": per_step, "n": n, "dt": dt}

    return make


CONTRACTS["results:Result.get_coverage#annualisation"] = dict(
    schema=schema, fragment={"iter": "output.keys()", "body_contains": "is_one_off"}, make_env=_env_annualise("capacity"),
    ghost_params={"ONE_OFF": "bool"}, stubs={_P + ".is_one_off": "ONE_OFF"},
    ensures=[("C13.one_off_programs_are_reported_per_year_and_continuous_programs_as_they_are",
              "all(output['p'][i] == (PER_STEP[i] / dt if ONE_OFF else PER_STEP[i]) for i in range(n))")],
    defined_props=["C13"])


# ---- Result.get_alloc (C13: "the spending ... reported from the finished result [is] the one that produced those values"): the report asks the program set of the run
# for its allocation under the instructions of the run, at the requested years or at the simulation times; a run without programs reports None
def _env_alloc(with_progset, year):
    def make(it):
        from pyvc.interp import PyObjV
        from pyvc.core import Opaque
        from pyvc import source

        rm = source.load("results")
        ps = PyObjV("ProgramSet", source.load("programs"), {"CALLS": []}) if with_progset else None
        ins = Opaque("instructions of the run")
        T = Opaque("simulation times")
        model = PyObjV("Model", source.load("model"), {"progset": ps, "program_instructions": ins, "t": T})
        return {"self": PyObjV("Result", rm, {"model": model}), "year": year, "PS": ps, "INS": ins, "T": T}

    return make


def _ghost_get_alloc(it, year, instructions=None):
    it.stub_receiver.fields["CALLS"].append((year, instructions))
    return "ALLOCATION"


for _tag, _ps, _year, _clause in (("at_the_simulation_times", True, None, "result == 'ALLOCATION' and len(PS.CALLS) == 1 and PS.CALLS[0][0] is T and PS.CALLS[0][1] is INS"),
                                  ("at_the_requested_years", True, 2025.0, "result == 'ALLOCATION' and len(PS.CALLS) == 1 and PS.CALLS[0][0] == 2025.0 and PS.CALLS[0][1] is INS"),
                                  ("without_programs", False, None, "result is None")):
    CONTRACTS["results:Result.get_alloc#%s" % _tag] = dict(
        schema=schema, make_env=_env_alloc(_ps, _year), call_stubs={"self.model.progset.get_alloc": _ghost_get_alloc}, stubs={"self.t": "T"},
        ensures=[("C13.reported_spending_is_the_program_sets_allocation_under_the_instructions_of_the_run", _clause)], defined_props=["C13"])


# ---- results._extend_tvals (C20: exports integrate over whole years): the years given plus the year after the last one, as a NEW array; years that are not one apart are refused
def _env_tvals(vals):
    return lambda it: {"tvals": __import__("numpy").array(vals), "GIVEN": __import__("numpy").array(vals)}


CONTRACTS["results:_extend_tvals#consecutive_years"] = dict(
    schema=schema, make_env=_env_tvals([2020, 2021, 2022]), call_stubs={"np.append": (lambda it, a, b: __import__("numpy").append(a, b))},
    ensures=[("C20.the_years_given_plus_the_year_after_the_last", "list(result) == [2020, 2021, 2022, 2023]"), ("C20+C08.the_array_given_is_not_modified", "result is not tvals and list(tvals) == [2020, 2021, 2022]")], defined_props=["C20"])
CONTRACTS["results:_extend_tvals#one_year"] = dict(
    schema=schema, make_env=_env_tvals([2020]), call_stubs={"np.append": (lambda it, a, b: __import__("numpy").append(a, b))},
    ensures=[("C20.the_years_given_plus_the_year_after_the_last", "list(result) == [2020, 2021]")], defined_props=["C20"])
CONTRACTS["results:_extend_tvals#no_years"] = dict(
    schema=schema, make_env=_env_tvals([]), ensures=[("C20.nothing_to_extend", "len(result) == 0")], defined_props=["C20"])
CONTRACTS["results:_extend_tvals#years_not_one_apart"] = dict(
    schema=schema, make_env=_env_tvals([2020, 2022]), raises={"AssertionError": "True"}, raises_props=["C20", "C18"], ensures=[], defined_props=["C20"])


# ---- results._output_to_df, the population total of an exported output (C20: "summed aggregates equal the sum of their parts, averages lie between the smallest and largest
# part"): a number quantity is totalled by SUMMING the populations and labelled `Total (sum)`; a fraction, proportion or probability is totalled by the WEIGHTED AVERAGE of the
# populations and labelled so; anything else gets a row of NaN labelled as unknown.  PlotData (under contract for its aggregations) is a ghost that records how it was asked.
def _env_total_row(units):
    def make(it):
        import numpy as np
        from pyvc.interp import PyObjV
        from pyvc import source

        pm, rm = source.load("plotting"), source.load("results")
        series = PyObjV("Series", pm, {"units": units})
        popdata = PyObjV("PlotData", pm, {"series": [series], "results": {"r": "Result"}, "pops": ["a", "b"], "outputs": ["x"], "ASKED": None})
        comp = PyObjV("Compartment", source.load("model"), {"units": "Number of people"})
        model = PyObjV("Model", source.load("model"), {"pops": [PyObjV("Population", source.load("model"), {"comps": [comp]})]})
        return {"popdata": popdata, "results": [PyObjV("Result", rm, {"model": model})], "output": "x", "output_name": "x", "pops": ["a", "b"], "tvals": np.array([2020, 2021]), "time_aggregate": False, "data": {}, "ASKED": [], "TOTAL_VALS": "values of the total"}

    return make


def _ghost_plotdata(it, results, outputs=None, pops=None, pop_aggregation=None, **k):
    from pyvc.interp import PyObjV
    from pyvc import source

    it.live_env["ASKED"].append((outputs, pops, pop_aggregation))
    return PyObjV("PlotData", source.load("plotting"), {"series": [], "results": {"r": "Result"}, "pops": ["total"], "outputs": ["x"]})


_tot_calls = {"PlotData": _ghost_plotdata, "popdata.interpolate": (lambda it, *a, **k: None), "popdata.time_aggregate": (lambda it, *a, **k: None), "_extend_tvals": (lambda it, t: t), "np.full": (lambda it, shape, v: "row of nan")}
_tot_stubs = {"popdata[result, popdata.pops[0], popdata.outputs[0]].vals": "TOTAL_VALS"}
for _tag, _units, _label, _agg in (("number_of_people", "Number of people", "Total (sum)", "sum"), ("number", "number", "Total (sum)", "sum"), ("probability", "probability", "Total (weighted average)", "weighted"),
                                   ("proportion", "proportion", "Total (weighted average)", "weighted"), ("fraction", "fraction", "Total (weighted average)", "weighted")):
    CONTRACTS["results:_output_to_df#total_of_a_%s" % _tag] = dict(
        schema=schema, fragment={"stmt_top": "if popdata.series[0].units in"}, make_env=_env_total_row(_units), call_stubs=_tot_calls, stubs=_tot_stubs,
        ensures=[("C20.the_total_row_is_built_with_the_aggregation_its_label_names", "len(ASKED) == 1 and ASKED[0] == ('x', {'total': ['a', 'b']}, %r) and len(data) == 1 and data['x', 'Result', %r] == 'values of the total'" % (_agg, _label))],
        defined_props=["C20"])
CONTRACTS["results:_output_to_df#total_of_other_units"] = dict(
    schema=schema, fragment={"stmt_top": "if popdata.series[0].units in"}, make_env=_env_total_row("duration"), call_stubs=_tot_calls, stubs=_tot_stubs,
    ensures=[("C20.a_quantity_that_can_neither_be_summed_nor_averaged_gets_no_total", "len(ASKED) == 0 and len(data) == 1 and data['x', 'Result', 'Total (unknown units)'] == 'row of nan'")], defined_props=["C20"])


def _replay_export_total(model, contract):
    """replay END TO END on the tb demo: the exported tables of proportion / probability parameters defined in several populations; its `Total (weighted average)` row must lie between
    the smallest and the largest population row, and the `Total (sum)` row of a compartment must be the sum of the population rows"""
    import logging
    import warnings

    import numpy as np

    warnings.filterwarnings("ignore")
    import atomica as at
    from atomica.results import _output_to_df

    at.logger.setLevel(logging.ERROR)
    P = at.demo("tb", do_run=False)
    P.settings.update_time_vector(end=2010.0)
    res = P.run_sim(P.parsets[0], store_results=False)
    tvals = np.arange(2001, 2006)
    bad, checked = [], 0
    pars = [p.name for p in res.model.pops[0].pars if p.units in ("probability", "proportion", "fraction")][:6]
    for name in pars + ["sus"]:
        try:
            df = _output_to_df([res], name, name, tvals)
        except Exception:  # noqa
            continue
        rows = {idx[-1]: np.asarray(df.loc[idx].values, dtype=float) for idx in df.index}
        parts = np.array([v for k, v in rows.items() if not str(k).startswith("Total")])
        for k, v in rows.items():
            if k == "Total (weighted average)" and len(parts) > 1:
                checked += 1
                if np.any(v > parts.max(axis=0) + 1e-9) or np.any(v < parts.min(axis=0) - 1e-9):
                    bad.append("%s: the weighted average %r is outside the range of the populations [%r, %r]" % (name, float(v[0]), float(parts.min(axis=0)[0]), float(parts.max(axis=0)[0])))
            if k == "Total (sum)" and len(parts) > 1:
                checked += 1
                if not np.allclose(v, parts.sum(axis=0), rtol=1e-9):
                    bad.append("%s: the total %r is not the sum of the populations %r" % (name, float(v[0]), float(parts.sum(axis=0)[0])))
    if not checked:
        return dict(verdict="error", detail="no total row could be produced on the tb demo")
    return dict(verdict="violates" if bad else "holds", detail="; ".join(bad[:2]) or "%d total rows agree with their population rows" % checked, prestate=dict(demo="tb", outputs=pars + ["sus"], years=[int(t) for t in tvals]))


for _q in list(CONTRACTS):
    if _q.startswith("results:_output_to_df#total_of_a_"):
        CONTRACTS[_q]["replay_hook"] = _replay_export_total


# ---- Model._update_program_cache, the compartments a program reaches during the run (C13 / C11: "the current size of the targeted compartments"): for one program, every targeted
# compartment of EVERY targeted population, population by population -- the denominator the run uses is the one Result.get_coverage reports
def _env_prog_cache(it):
    from pyvc.interp import PyObjV
    from pyvc import source

    mm = source.load("model")
    comps = {(p, c): PyObjV("Compartment", mm, {"name": c, "POP": p}) for p in ("a", "b") for c in ("x", "y")}
    pops = {p: PyObjV("Population", mm, {"name": p}) for p in ("a", "b")}
    prog = PyObjV("Program", source.load("programs"), {"name": "prog", "target_pops": ["a", "b"], "target_comps": ["x", "y"]})
    self = PyObjV("Model", mm, {"_program_cache": {"comps": {"other": ["kept"]}}})
    return {"self": self, "prog": prog, "COMPS": comps, "POPS": pops}


_cache_stubs = {"self.get_pop": (lambda it, name: it.live_env["POPS"][name]), "self.get_pop(pop_name).get_comp": (lambda it, name: it.live_env["COMPS"][(it.stub_receiver.fields["name"], name)])}
CONTRACTS["model:Model._update_program_cache#compartments_of_one_program"] = dict(
    schema=schema, fragment={"iter": "self.progset.programs.values()", "body_contains": "target_pops"}, make_env=_env_prog_cache, call_stubs=_cache_stubs,
    ensures=[("C13+C11.a_program_reaches_every_targeted_compartment_of_every_targeted_population",
              "len(self._program_cache['comps']['prog']) == 4 and self._program_cache['comps']['prog'][0] is COMPS['a', 'x'] and self._program_cache['comps']['prog'][1] is COMPS['a', 'y'] "
              "and self._program_cache['comps']['prog'][2] is COMPS['b', 'x'] and self._program_cache['comps']['prog'][3] is COMPS['b', 'y'] and self._program_cache['comps']['other'] == ['kept']")],
    defined_props=["C13", "C11"])


# ---- Result.export_raw, the flow rate of one link (body of the loop over the links of a population; C20: "summed aggregates equal the sum of their parts"): links that share a
# name are SUMMED into one exported column -- a link's annualised flow is added to what the column already holds, or starts the column -- and the result's arrays are not modified
def _env_raw_flow(existing):
    def make(it):
        import z3
        from pyvc.interp import PyObjV
        from pyvc.core import LArr
        from pyvc import source

        mm = source.load("model")
        f, g = z3.Function("flow", z3.IntSort(), z3.RealSort()), z3.Function("column_so_far", z3.IntSort(), z3.RealSort())
        dt = z3.Real("dt")
        pop = PyObjV("Population", mm, {"name": "adults"})
        par = PyObjV("Parameter", mm, {"name": "rec"})
        src, dst = PyObjV("Compartment", mm, {"name": "inf", "pop": pop}), PyObjV("Compartment", mm, {"name": "sus", "pop": pop})
        vals = LArr(3, lambda i: f(i if z3.is_expr(i) else z3.IntVal(i)), fresh_alloc=False)
        link = PyObjV("Link", mm, {"name": "rec:flow", "parameter": par, "source": src, "dest": dst, "vals": vals})
        so_far = LArr(3, lambda i: g(i if z3.is_expr(i) else z3.IntVal(i)))
        key = ("Flow rates", "adults", "rec:flow", "Recovery (flow)")
        self = PyObjV("Result", source.load("results"), {"dt": dt, "t": LArr(3, lambda i: 2000.0)})
        return {"self": self, "pop": pop, "link": link, "d": ({key: so_far} if existing else {}), "KEY": key, "FLOW": vals, "SO_FAR": so_far, "dt": dt}

    return make


for _existing in (False, True):
    CONTRACTS["results:Result.export_raw#flow_of_%s" % ("a_further_link_of_the_same_name" if _existing else "the_first_link_of_a_name")] = dict(
        schema=schema, fragment={"iter": "pop.links"}, make_env=_env_raw_flow(_existing), requires=["dt > 0"], call_stubs={"gl": (lambda it, name: "Recovery"), "np.zeros": (lambda it, shape: __import__("pyvc.core", fromlist=["LArr"]).LArr(3, lambda i: 0.0))},
        ensures=[("C20.links_of_the_same_name_are_summed_into_one_annualised_flow_column", "len(d) == 1 and all(d[KEY][i] * dt == %sFLOW[i] for i in range(3))" % ("SO_FAR[i] * dt + " if _existing else "")),
                 ("C20+C08.the_links_own_array_is_not_modified", "d[KEY] is not link.vals and all(link.vals[i] == FLOW[i] for i in range(3))")],
        defined_props=["C20"])


# ---- Result.check_for_nans (C02 as seen from a finished run): True exactly when some parameter, compartment, characteristic or link of some population holds a NaN or an infinity
def _env_nans(bad_kind):
    def make(it):
        import numpy as np
        from pyvc.interp import PyObjV
        from pyvc import source

        mm = source.load("model")
        arr = lambda kind: np.array([1.0, float("nan") if bad_kind == kind + ":nan" else (float("inf") if bad_kind == kind + ":inf" else 2.0)])
        var = lambda kind: PyObjV("Variable", mm, {"name": kind, "vals": arr(kind)})
        pops = [PyObjV("Population", mm, {"name": "a", "pars": [var("a_par")], "comps": [var("a_comp")], "characs": [var("a_charac")], "links": [var("a_link")]}),
                PyObjV("Population", mm, {"name": "b", "pars": [var("b_par")], "comps": [var("b_comp")], "characs": [], "links": [var("b_link")]})]
        return {"self": PyObjV("Result", source.load("results"), {"model": PyObjV("Model", mm, {"pops": pops})}), "verbose": False}

    return make


_fin = {"np.isfinite": (lambda it, a: __import__("numpy").isfinite(a)), "np.all": (lambda it, a: bool(__import__("numpy").all(a)))}
for _tag, _kind, _want in (("all_finite", None, False), ("nan_in_a_parameter", "a_par:nan", True), ("infinity_in_a_compartment_of_the_second_population", "b_comp:inf", True), ("nan_in_a_characteristic", "a_charac:nan", True), ("nan_in_a_link", "b_link:nan", True)):
    CONTRACTS["results:Result.check_for_nans#%s" % _tag] = dict(schema=schema, make_env=_env_nans(_kind), call_stubs=_fin,
                                                                ensures=[("C02.reports_exactly_whether_some_output_is_not_finite", "result is %r" % _want)], defined_props=["C02"])


def _replay_program_cache(model, contract):
    """replay on the REAL Model._update_program_cache: the tb demo model with its programs; every program must reach len(target_pops) x len(target_comps) compartments"""
    import logging
    import warnings

    warnings.filterwarnings("ignore")
    import atomica as at

    at.logger.setLevel(logging.ERROR)
    P = at.demo("tb", do_run=False)
    ps = P.progsets[0]
    m = at.Model(P.settings, P.framework, P.parsets[0], ps, at.ProgramInstructions(start_year=2018))
    m._update_program_cache()
    bad = []
    for prog in ps.programs.values():
        got, want = len(m._program_cache["comps"][prog.name]), len(prog.target_pops) * len(prog.target_comps)
        if got != want:
            bad.append("%s targets %d populations x %d compartments, the run reaches %d compartments" % (prog.name, len(prog.target_pops), len(prog.target_comps), got))
    return dict(verdict="violates" if bad else "holds", detail="; ".join(bad[:3]) or "every program reaches all its targeted compartments in all its targeted populations", prestate=dict(demo="tb", programs=len(ps.programs)))


CONTRACTS["model:Model._update_program_cache#compartments_of_one_program"]["replay_hook"] = _replay_program_cache
