"""
Contract on a spending report derived from a finished result (property C13: "the spending ... reported from the finished result are the
ones that produced those values"): the body of the program loop of Result.get_equivalent_alloc for a program without saturation or
capacity constraint.  For such a program the coverage was produced by  capacity = spending x (dt for one-off programs) / unit cost,
coverage = capacity / eligible  (contracts C11 on Program.get_capacity / get_prop_covered), so the minimal spending that explains
the coverage is the spending itself.
"""
import z3

schema = "covout"
CONTRACTS = {}
_P = "self.model.progset.programs[prog]"


def _make_env(it):
    from pyvc.interp import PyObjV
    from pyvc.core import LArr, Opaque
    from pyvc import source

    rm = source.load("results")
    dt, S, UC, NE = z3.Real("dt"), z3.Real("spending"), z3.Real("unit_cost"), z3.Real("eligible")
    one_off = z3.Bool("ONE_OFF")
    it.pc.append(z3.And(dt > 0, UC > 0, NE > 0, S >= 0))
    pc = S * z3.If(one_off, dt, z3.RealVal(1)) / (UC * NE)      # the coverage this spending produced (unconstrained, below 1)
    model = PyObjV("Model", source.load("model"), {"dt": dt, "progset": Opaque("progset")})
    self = PyObjV("Result", rm, {"model": model})
    return {"self": self, "prog": "p", "year": 2020.0, "prop_coverage": {"p": LArr(1, lambda i: pc)}, "num_eligible": {"p": LArr(1, lambda i: NE)}, "equivalent_alloc": {},
            "UCARR": LArr(1, lambda i: UC), "ONE_OFF": one_off, "S": S, "NO": False, "COVERAGE_UNITS_PER_YEAR": z3.Bool("COVERAGE_UNITS_PER_YEAR")}


CONTRACTS["results:Result.get_equivalent_alloc#unconstrained_program"] = dict(
    schema=schema, fragment={"iter": "prop_coverage.keys()"}, make_env=_make_env,
    stubs={_P + ".unit_cost.interpolate(year)": "UCARR", _P + ".saturation.has_data": "NO", _P + ".capacity_constraint.has_data": "NO",
           _P + ".is_one_off": "ONE_OFF",
           # the units of Program.coverage are independent data: 'people/year' by default (Program.__init__) and whatever the program
           # book states otherwise (reading a book only warns when they disagree with the unit cost) -- an arbitrary Boolean here
           "'/year' in " + _P + ".coverage.units": "COVERAGE_UNITS_PER_YEAR"},
    call_stubs={"sc.dcp": (lambda it, x: x)},
    ensures=[("C13.reported_equivalent_spending_is_the_spending_that_produced_the_coverage", "equivalent_alloc['p'][0] == S")],
    defined_props=["C13"])


def _replay(model, contract):
    """replay END TO END on the udt demo project: one program is made continuous (unit cost per person per year), the simulation runs
    with dt = 0.25, and the equivalent allocation reported from the result is compared with the allocation that was simulated"""
    import logging
    import warnings

    import atomica as at

    warnings.filterwarnings("ignore")
    at.logger.setLevel(logging.ERROR)
    P = at.demo("udt", do_run=False)
    P.settings.update_time_vector(dt=0.25)
    ps = P.progsets[0]
    name = "Adherence"
    ps.programs[name].unit_cost.units = "$/person/year"
    res = P.run_sim(P.parsets[0], ps, at.ProgramInstructions(start_year=2018))
    year = 2020.0
    alloc, equiv, cov = res.get_alloc(year), res.get_equivalent_alloc(year), res.get_coverage("fraction", year)
    rows = {k: dict(one_off=bool(res.model.progset.programs[k].is_one_off), simulated_spending=float(alloc[k][0]), reported_equivalent_spending=float(equiv[k][0]), coverage=float(cov[k][0])) for k in alloc.keys()}
    bad = [k for k, r in rows.items() if r["coverage"] < 1 and abs(r["reported_equivalent_spending"] - r["simulated_spending"]) > 1e-6 * max(1.0, r["simulated_spending"])]
    pre = dict(project="udt", dt=0.25, continuous_program=name, year=year, programs=rows)
    return dict(verdict="violates" if bad else "holds",
                detail=("program(s) %r: reported equivalent spending differs from the spending that was simulated (%r vs %r)" % (bad, rows[bad[0]]["reported_equivalent_spending"], rows[bad[0]]["simulated_spending"]))
                if bad else "every unconstrained program's equivalent spending equals the simulated spending", prestate=pre)


CONTRACTS["results:Result.get_equivalent_alloc#unconstrained_program"]["replay_hook"] = _replay


# ---- the number eligible: what the run used (Model.update_pars) and what the result reports (Result.get_coverage) are the same
# function of the recorded compartment sizes -- the sum over the program's target compartments at that time index (C13)
def _env_run_eligible(it):
    from pyvc.core import Opaque

    comps = [it.new_obj("comp%d" % j, ["Compartment", "SinkCompartment"]) for j in range(2)]
    it.facts.append(comps[0].ref != comps[1].ref)
    self = it.new_obj("self", ["Model"])
    return {"self": self, "k": "prog", "comp_list": comps, "c0": comps[0], "c1": comps[1], "prop_coverage": {"prog": 0.0},
            "COVERED": Opaque("get_prop_covered result"), "CACHE": {"comps": {"prog": comps}, "prop_coverage": {}, "capacities": Opaque("capacities")}}


def _ghost_prop_covered(it, t, capacity, n):
    it.ghost_env["N_USED"] = n
    it.live_env["N_USED"] = n
    return it.ghost_env["COVERED"]


CONTRACTS["model:Model.update_pars#eligible_used_by_the_run"] = dict(
    schema="model_schema", fragment={"iter": "self._program_cache['comps'].items()"}, make_env=_env_run_eligible,
    params={"ti": "int"},
    stubs={"self._program_cache": "CACHE", "self._program_cache['capacities'][k][ti]": "COVERED", "self.t[ti]": "COVERED"},
    call_stubs={"self.progset.programs[k].get_prop_covered": _ghost_prop_covered},
    requires=["0 <= ti", "ti < len(c0.vals)", "ti < len(c1.vals)"],
    ensures=[("C13.number_eligible_used_by_the_run_is_the_current_size_of_the_targeted_compartments", "N_USED == c0.vals[ti] + c1.vals[ti]")],
    defined_props=["C13"])


def _env_report_eligible(first):
    def make(it):
        from pyvc.interp import PyObjV, ClassV
        from pyvc.core import LArr
        from pyvc import source

        mm = source.load("model")
        n = z3.Int("n_times")
        it.facts.append(n >= 0)
        f = z3.Function("sizes", z3.IntSort(), z3.RealSort())
        g = z3.Function("eligible_so_far", z3.IntSort(), z3.RealSort())
        sizes = LArr(n, lambda i: f(i if z3.is_expr(i) else z3.IntVal(i)), fresh_alloc=False)
        comp = PyObjV("Compartment", mm, {"id": ("pop", "c"), "vals": sizes})
        prog = PyObjV("Program", source.load("programs"), {"name": "prog", "target_pops": ["pop"], "target_comps": ["c"]})
        so_far = LArr(n, lambda i: g(i if z3.is_expr(i) else z3.IntVal(i)))
        return {"self": None, "prog": prog, "pop_name": "pop", "comp_name": "c", "COMP": [comp], "comp0": comp, "num_eligible": ({} if first else {"prog": so_far}),
                "SIZES": sizes, "SO_FAR": so_far, "n": n, "JunctionCompartment": ClassV("JunctionCompartment", mm)}

    return make


for _first in (True, False):
    CONTRACTS["results:Result.get_coverage#eligible_%s" % ("first_compartment" if _first else "further_compartment")] = dict(
        schema=schema, fragment={"iter": "prog.target_comps"}, make_env=_env_report_eligible(_first),
        stubs={"self.get_variable(comp_name, pop_name)": "COMP"},
        ensures=[("C13.reported_number_eligible_adds_the_recorded_size_of_each_targeted_compartment",
                  "len(num_eligible['prog']) == n and all(num_eligible['prog'][i] == %s for i in range(n))" % ("SIZES[i]" if _first else "SO_FAR[i] + SIZES[i]")),
                 ("C13+C20.the_report_does_not_write_into_the_result", "num_eligible['prog'] is not comp0.vals and all(comp0.vals[i] == SIZES[i] for i in range(n))")],
        defined_props=["C13", "C20"])
