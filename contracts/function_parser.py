"""
Contracts on atomica/function_parser.py (property C19).

parse_function#node=<Class>: contract on the BODY of the loop `for node in ast.walk(fcn_ast)`, executed for a prototype node of
every ast node class that can occur in an expression tree of the running interpreter (the finite sort of the property's
quantifier, enumerated from the `ast` module, so the enumeration is complete for this interpreter).  Identifiers (Name.id,
the id of a call target) are SYMBOLIC strings.  Classification, from the property text:
  DENY   : attribute access / method call, lambda, comprehensions and generator expressions, walrus, await/yield, starred,
           calls whose target is not a plain name  -> the body must not complete normally
  Call   : completes normally only if the target is a Name whose id is in supported_functions
  Name   : completes normally; the id is reported as a dependency unless it is a supported function
  others : arithmetic / comparison operators, constants, contexts ... complete normally and report nothing
_DivTransformer.visit_BinOp and sdiv get functional contracts.
"""
import ast
import z3

SCHEMA = {"__families__": []}
schema = "function_parser"
CONTRACTS = {}

SAMPLES = {
    "Attribute": "x.real", "Lambda": "(lambda: 1)", "ListComp": "[y for y in x]", "SetComp": "{y for y in x}", "DictComp": "{y: y for y in x}",
    "GeneratorExp": "max(y for y in x)", "NamedExpr": "(y := x)", "Await": None, "Yield": None, "YieldFrom": None, "Starred": "max(*x)",
    "BinOp": "x + y", "UnaryOp": "-x", "BoolOp": "x and y", "Compare": "x < y", "Constant": "1.5", "IfExp": "x if y else z", "Subscript": "x[0]",
    "Tuple": "(x, y)", "List": "[x, y]", "Set": "{x, y}", "Dict": "{x: y}", "JoinedStr": "f'{x}'", "FormattedValue": "f'{x}'", "Slice": "x[0:1]",
    "keyword": "max(x, key=y)", "comprehension": "[y for y in x]", "arguments": "(lambda a: a)", "arg": "(lambda a: a)",
}
DENY = ["Attribute", "Lambda", "ListComp", "SetComp", "DictComp", "GeneratorExp", "NamedExpr", "Await", "Yield", "YieldFrom", "Starred"]


def _expr_node_classes():
    out = []
    for name in dir(ast):
        c = getattr(ast, name)
        if isinstance(c, type) and issubclass(c, ast.AST) and c is not ast.AST:
            if issubclass(c, (ast.mod, ast.stmt, ast.excepthandler, ast.type_ignore, ast.withitem, ast.alias)) or name in ("match_case", "pattern", "type_param"):
                continue
            if hasattr(ast, "pattern") and issubclass(c, getattr(ast, "pattern")):
                continue
            if hasattr(ast, "type_param") and issubclass(c, getattr(ast, "type_param")):
                continue
            if c in (ast.expr, ast.expr_context, ast.boolop, ast.operator, ast.unaryop, ast.cmpop):
                continue
            if c.__subclasses__() and name not in ("Constant",):
                continue
            if name.startswith("_") or name in ("Num", "Str", "Bytes", "NameConstant", "Ellipsis", "Index", "ExtSlice", "Suite", "AugLoad", "AugStore", "Param"):
                continue  # deprecated aliases, never produced by ast.parse
            out.append(name)
    return sorted(out)


def _prototype(name):
    src = SAMPLES.get(name)
    if src:
        for n in ast.walk(ast.parse(src, mode="eval")):
            if type(n).__name__ == name:
                return n
    return getattr(ast, name)()


def _env_for(name, func_kind=None):
    def make(it):
        from pyvc.core import Str

        ident = z3.Const("identifier", Str)
        if name == "Name":
            node = ast.Name(id=ident, ctx=ast.Load())
        elif name == "Call":
            if func_kind == "Name":
                node = ast.Call(func=ast.Name(id=ident, ctx=ast.Load()), args=[], keywords=[])
            else:
                node = ast.Call(func=_prototype(func_kind), args=[], keywords=[])
        else:
            node = _prototype(name)
        return {"node": node, "dep_list": [], "fcn_str": "<the function string>", "identifier": ident}

    return make


_frag = {"iter": "ast.walk(fcn_ast)"}
for _name in _expr_node_classes():
    if _name == "Call":
        for _fk in ["Name", "Attribute", "Lambda", "Call", "Subscript", "IfExp", "BinOp"]:
            _ens = [("C19.call_only_to_listed_function", "identifier in supported_functions and dep_list == []")] if _fk == "Name" else [("C19.rejects_call_through_%s" % _fk, "False")]
            CONTRACTS["function_parser:parse_function#node=Call(func=%s)" % _fk] = dict(
                schema=schema, fragment=_frag, make_env=_env_for("Call", _fk), ensures=_ens, raises={"AssertionError": True}, node_class="Call", func_kind=_fk,
                sample={"Name": "unlisted(x)", "Attribute": "x.tofile('p')", "Lambda": "(lambda: 1)()", "Call": "max(x)(y)", "Subscript": "x[0](y)", "IfExp": "(max if x else min)(y)", "BinOp": "(x + y)(z)"}[_fk])
    elif _name == "Name":
        CONTRACTS["function_parser:parse_function#node=Name"] = dict(
            schema=schema, fragment=_frag, make_env=_env_for("Name"), raises={},
            ensures=[("C19.reports_exactly_the_names_it_depends_on", "(identifier in supported_functions and dep_list == []) or (identifier not in supported_functions and len(dep_list) == 1 and dep_list[0] == identifier)")],
            node_class="Name", sample="x")
    elif _name in DENY and SAMPLES.get(_name) is None:
        continue  # Await / Yield / YieldFrom: a syntax error in an expression outside a function, they cannot reach the loop
    elif _name in DENY:
        CONTRACTS["function_parser:parse_function#node=%s" % _name] = dict(
            schema=schema, fragment=_frag, make_env=_env_for(_name), raises={"AssertionError": True},
            ensures=[("C19.rejects_%s" % _name, "False")], node_class=_name, sample=SAMPLES.get(_name))
    else:
        CONTRACTS["function_parser:parse_function#node=%s" % _name] = dict(
            schema=schema, fragment=_frag, make_env=_env_for(_name), raises={},
            ensures=[("C19.accepts_and_reports_nothing_%s" % _name, "dep_list == []")], node_class=_name, sample=SAMPLES.get(_name))


def _replay(model, contract):
    """replay on the REAL parse_function with a source string that contains the node class in question"""
    import atomica.function_parser as fp

    src = contract.get("sample")
    if not src:
        return dict(verdict="not-found", detail="no source text produces a %s node in an expression" % contract.get("node_class"))
    try:
        fcn, deps = fp.parse_function(src)
    except (AssertionError, SyntaxError) as e:
        return dict(verdict="holds", detail="parse_function(%r) is rejected with %s" % (src, type(e).__name__), prestate=dict(source=src))
    except Exception as e:
        return dict(verdict="violates", detail="parse_function(%r) raised the internal error %s: %s" % (src, type(e).__name__, e), prestate=dict(source=src))
    denied = contract.get("node_class") in DENY or (contract.get("node_class") == "Call" and contract.get("func_kind") != "Name") or src == "unlisted(x)"
    if denied:
        return dict(verdict="violates", detail="parse_function(%r) is ACCEPTED (dependencies %r) although it contains a %s" % (src, deps, contract.get("node_class")), prestate=dict(source=src))
    return dict(verdict="holds", detail="parse_function(%r) accepted with dependencies %r" % (src, deps), prestate=dict(source=src))


for _c in CONTRACTS.values():
    _c["replay_hook"] = _replay
    _c.setdefault("raises_props", ["C19"])
    _c.setdefault("defined_props", ["C19"])


# ---- the division rewrite: visit_BinOp returns sdiv(<visited left>, <visited right>) for a division and the node with visited
# children otherwise.  self.visit(child) is the generic NodeTransformer recursion: stubbed by two sentinel objects.
class _Sentinel:
    def __init__(self, name):
        self.name = name

    def __repr__(self):
        return "<visited %s>" % self.name


def _binop_env(op):
    def make(it):
        from pyvc.interp import PyObjV
        from pyvc import source

        VL, VR = _Sentinel("left"), _Sentinel("right")
        node = ast.BinOp(left=ast.Name(id="a", ctx=ast.Load()), op=op(), right=ast.Name(id="b", ctx=ast.Load()))
        return {"self": PyObjV("_DivTransformer", source.load("function_parser"), {}), "node": node, "VL": VL, "VR": VR}

    return make


for _opname, _op in (("Div", ast.Div), ("Mult", ast.Mult), ("Add", ast.Add), ("Sub", ast.Sub), ("Pow", ast.Pow)):
    _is_div = _opname == "Div"
    CONTRACTS["function_parser:_DivTransformer.visit_BinOp#%s" % _opname] = dict(
        schema=schema, make_env=_binop_env(_op), stubs={"self.visit(node.left)": "VL", "self.visit(node.right)": "VR"},
        ensures=[("C19.division_becomes_sdiv_of_visited_operands", "isinstance(result, ast.Call) and isinstance(result.func, ast.Name) and result.func.id == 'sdiv' and len(result.args) == 2 and result.args[0] is VL and result.args[1] is VR and len(result.keywords) == 0")]
        if _is_div else [("C19.other_operators_keep_their_visited_operands", "result is node and result.left is VL and result.right is VR and isinstance(result.op, ast.%s)" % _opname)],
        defined_props=["C19"])

# ---- sdiv: 0 when the numerator is 0, ordinary division otherwise; scalars and (length-1: element-wise) arrays
CONTRACTS["function_parser:sdiv#scalar"] = dict(
    schema=schema, params={"numerator": "real", "denominator": "real"},
    requires=["numerator == 0 or denominator != 0"],
    ensures=[("C19.sdiv_zero_numerator_gives_zero", "implies(numerator == 0, result == 0)"),
             ("C19.sdiv_is_division_otherwise", "implies(numerator != 0, result * denominator == numerator)")],
    defined_props=["C19"])
CONTRACTS["function_parser:sdiv#array"] = dict(
    schema=schema, params={"numerator": "arr1:1", "denominator": "arr1:1"},
    requires=["numerator[0] == 0 or denominator[0] != 0"],
    ensures=[("C19.sdiv_zero_numerator_gives_zero", "implies(numerator[0] == 0, result[0] == 0)"),
             ("C19.sdiv_is_division_otherwise", "implies(numerator[0] != 0, result[0] * denominator[0] == numerator[0])")],
    defined_props=["C19"])


def _replay_div(model, contract):
    """replay on the REAL _DivTransformer: no Div node may survive, and the rewritten tree must evaluate like the original
    with safe division"""
    import itertools
    import atomica.function_parser as fp

    bad = []
    for src in ["a/b", "a/b/c", "a/(b/c)", "(a+b)/c*d", "a*b/c/d", "-(a/b)/c", "a/b + c/d/a"]:
        tree = ast.fix_missing_locations(fp._DivTransformer().visit(ast.parse(src, mode="eval")))
        if any(isinstance(n, ast.Div) for n in ast.walk(tree)):
            bad.append("%s: a Div node survives the rewrite (%s)" % (src, ast.unparse(tree)))
            continue
        code = compile(tree, "<replay>", "eval")
        ref = compile(ast.parse(src, mode="eval"), "<ref>", "eval")
        for vals in itertools.product([0.0, 1.0, 2.5], repeat=4):
            env = dict(zip("abcd", vals))
            got = eval(code, {"sdiv": fp.sdiv}, dict(env))

            class _R(float):
                def __truediv__(s, o):
                    return _R(0.0) if float(s) == 0 else _R(float(s) / float(o)) if float(o) != 0 else _R(float("inf"))

            try:
                want = float(eval(ref, {}, {k: _R(v) for k, v in env.items()}))
            except Exception:
                continue
            if not (abs(float(got) - want) <= 1e-9 * max(1, abs(want)) or (got != got and want != want)):
                bad.append("%s at %s: %r, expected %r" % (src, env, float(got), want))
                break
    return dict(verdict="violates" if bad else "holds", detail="; ".join(bad[:3]) or "division rewrite correct on the sample expressions", prestate=dict(samples="a/b, a/b/c, ..."))


for _k, _c in CONTRACTS.items():
    if "visit_BinOp" in _k:
        _c["replay_hook"] = _replay_div


# ---- max / min in a parameter function (vector_max / vector_min): "accepted strings evaluate to the same value as ordinary real arithmetic": the result is an
# argument, and no argument is larger (smaller) -- for one, two and three scalar arguments of any sign
def _env_args(n):
    def make(it):
        xs = [z3.Real("x%d" % i) for i in range(n)]
        env = {"args": tuple(xs)}
        env.update({"x%d" % i: x for i, x in enumerate(xs)})
        return env

    return make


for _n in (1, 2, 3):
    _xs = ["x%d" % i for i in range(_n)]
    for _fn, _cmp, _word in (("vector_max", ">=", "largest"), ("vector_min", "<=", "smallest")):
        CONTRACTS["function_parser:%s#n%d" % (_fn, _n)] = dict(
            schema=schema, make_env=_env_args(_n),
            ensures=[("C19.the_result_is_the_%s_argument" % _word, "(" + " or ".join("result == %s" % x for x in _xs) + ") and " + " and ".join("result %s %s" % (_cmp, x) for x in _xs))],
            defined_props=["C19"])
for _fn, _cmp, _word in (("vector_max", ">=", "largest"), ("vector_min", "<=", "smallest")):
    CONTRACTS["function_parser:%s#array_and_scalar" % _fn] = dict(
        schema=schema, ghost_params={"a": "arr1:1", "s": "real"}, make_env=lambda it: {"args": (it.pre_env["a"], it.pre_env["s"])},
        ensures=[("C19.the_result_is_the_%s_argument_element_by_element" % _word, "(result[0] == a[0] or result[0] == s) and result[0] %s a[0] and result[0] %s s" % (_cmp, _cmp))],
        defined_props=["C19"])
