"""
Contracts on the evaluation wrapper and the tail of optimization.optimize (property C15: "they work on copies ... the objective they
evaluate is the documented sum ... meets every hard target", C14: "never silently returns an allocation that violates the total or a
bound").

_objective_fcn(x, pickled_model, optimization, hard_constraints, baselines): every evaluation unpickles its OWN model, applies the proposal
to that copy's instructions, rescales them to the hard constraints, runs that copy and evaluates the objective on it -- in that order;
a proposal that cannot be constrained evaluates to +infinity and is never simulated.
Tail of optimize(): the instructions returned are the optimiser's result applied to the model's own copy of the instructions and THEN
rescaled to the hard constraints (so the constraint contract of constrain_instructions applies to what the caller gets).
pickle.loads, Optimization.update_instructions / constrain_instructions / compute_objective and Model.process are ghosts that record
the order of the calls and the objects they are given.
"""
import z3

schema = "covout"
CONTRACTS = {}


def _env_objective(it):
    from pyvc.interp import PyObjV
    from pyvc.core import Opaque
    from pyvc import source

    om = source.load("optimization")
    return {"x": Opaque("proposal"), "pickled_model": Opaque("pickled model"), "optimization": PyObjV("Optimization", om, {"name": "opt"}), "hard_constraints": Opaque("hard constraints"),
            "baselines": Opaque("baselines"), "LOG": [], "COPIES": []}


def _ghost_loads(it, blob):
    from pyvc.interp import PyObjV
    from pyvc import source

    mm = source.load("model")
    instr = PyObjV("ProgramInstructions", source.load("programs"), {"name": "instructions of copy %d" % len(it.live_env["COPIES"])})
    m = PyObjV("Model", mm, {"program_instructions": instr})
    it.live_env["COPIES"].append(m)
    it.live_env["LOG"].append(("loads", blob))
    return m


def _log(tag, fail_ghost=None, result=None):
    def f(it, *a, **k):
        from pyvc.interp import _Raise

        it.live_env["LOG"].append((tag,) + tuple(a) + ((it.stub_receiver,) if tag == "process" else ()))
        if fail_ghost is not None and it.branch(it.ghost_env[fail_ghost]):
            raise _Raise("FailedConstraint")
        return it.ghost_env[result] if result else None

    return f


CONTRACTS["optimization:_objective_fcn"] = dict(
    schema=schema, make_env=_env_objective,
    ghost_params={"UPDATE_FAILS": "bool", "CONSTRAIN_FAILS": "bool", "OBJECTIVE": "real"},
    call_stubs={"pickle.loads": _ghost_loads, "optimization.update_instructions": _log("update", "UPDATE_FAILS"), "optimization.constrain_instructions": _log("constrain", "CONSTRAIN_FAILS"),
                "model.process": _log("process"), "optimization.compute_objective": _log("objective", None, "OBJECTIVE")},
    ensures=[
        ("C15.every_evaluation_works_on_its_own_copy_of_the_model", "len(COPIES) == 1 and LOG[0] == ('loads', pickled_model)"),
        ("C15.the_proposal_is_applied_to_the_copy_then_constrained_then_simulated_then_scored",
         "implies(not UPDATE_FAILS and not CONSTRAIN_FAILS, len(LOG) == 5 and LOG[1] == ('update', x, COPIES[0].program_instructions) and LOG[2] == ('constrain', COPIES[0].program_instructions, hard_constraints) "
         "and LOG[3] == ('process', COPIES[0]) and LOG[4] == ('objective', COPIES[0], baselines) and result == OBJECTIVE)"),
        ("C14+C15.a_proposal_that_cannot_be_constrained_scores_infinity_and_is_never_simulated",
         "implies(UPDATE_FAILS or CONSTRAIN_FAILS, result == float('inf') and not any(e[0] == 'process' or e[0] == 'objective' for e in LOG))"),
    ],
    defined_props=["C15", "C14"])


def _env_tail(it):
    from pyvc.interp import PyObjV
    from pyvc.core import Opaque
    from pyvc import source

    instr = PyObjV("ProgramInstructions", source.load("programs"), {"name": "the model's own copy"})
    model = PyObjV("Model", source.load("model"), {"program_instructions": instr})
    return {"optimization": PyObjV("Optimization", source.load("optimization"), {"name": "opt"}), "model": model, "x_opt": Opaque("optimiser result"), "hard_constraints": Opaque("hard constraints"),
            "instructions": PyObjV("ProgramInstructions", source.load("programs"), {"name": "the caller's instructions"}), "LOG": [], "OWN": instr}


CONTRACTS["optimization:optimize#result"] = dict(
    schema=schema, fragment={"after": "if optimization.method == 'asd'"}, make_env=_env_tail,
    call_stubs={"optimization.update_instructions": _log("update"), "optimization.constrain_instructions": _log("constrain")},
    ensures=[
        ("C15.the_result_is_the_optimisers_point_applied_to_the_models_own_instructions", "LOG[0] == ('update', x_opt, OWN) and result is OWN and result is not instructions"),
        ("C14+C15.the_result_is_rescaled_to_the_hard_constraints_before_it_is_returned", "len(LOG) == 2 and LOG[1] == ('constrain', OWN, hard_constraints)"),
    ],
    defined_props=["C15", "C14"])


# ---- the Optimization object's own loops (two adjustments with 2 and 1 adjustables, two constraints, two measurables): each member
# is handed ITS slice of the proposal, ITS hard constraint, ITS baseline; totals are sums; get_hard_constraints works on a copy
def _env_opt(it):
    from pyvc.interp import PyObjV
    from pyvc.core import LArr, Opaque
    from pyvc import source

    om = source.load("optimization")
    adjs = [PyObjV("Adjustment", om, {"name": "adj0", "adjustables": ["u", "v"]}), PyObjV("Adjustment", om, {"name": "adj1", "adjustables": ["w"]})]
    cons = [PyObjV("Constraint", om, {"name": "con0", "IDX": 0}), PyObjV("Constraint", om, {"name": "con1", "IDX": 1})]
    meas = [PyObjV("Measurable", om, {"measurable_name": "m0", "IDX": 0}), PyObjV("Measurable", om, {"measurable_name": "m1", "IDX": 1})]
    xs = [z3.Real("x_%d" % i) for i in range(3)]
    pen = [z3.Real("penalty_%d" % i) for i in range(2)]
    obj = [z3.Real("objective_%d" % i) for i in range(2)]
    self = PyObjV("Optimization", om, {"name": "opt", "adjustments": adjs, "constraints": cons, "measurables": meas})
    instr = PyObjV("ProgramInstructions", source.load("programs"), {"name": "instructions", "alloc": {}})
    return {"self": self, "asd_values": LArr(3, it._list_reader(xs)), "x0": LArr(3, it._list_reader(xs)), "instructions": instr, "hard_constraints": ["hc0", "hc1"], "baselines": ["b0", "b1"],
            "model": Opaque("model"), "xs": xs, "pen": pen, "obj": obj, "LOG": [], "ADJ": adjs, "CON": cons, "MEAS": meas, "INSTR": instr}


def _adj_update(it, values, instructions):
    rd, n = it.arr_reader(values), it.arr_len(values)
    it.live_env["LOG"].append((it.stub_receiver, [rd(i) for i in range(int(str(n)))], instructions))


def _con_constrain(it, instructions, hc, opt):
    it.live_env["LOG"].append((it.stub_receiver, instructions, hc, opt))
    return it.live_env["pen"][it.stub_receiver.fields["IDX"]]


def _meas_eval(it, model, baseline):
    it.live_env["LOG"].append((it.stub_receiver, model, baseline))
    return it.live_env["obj"][it.stub_receiver.fields["IDX"]]


def _con_hard(it, opt, instructions):
    it.live_env["LOG"].append((it.stub_receiver, opt, instructions))
    return ("hard constraint of", it.stub_receiver.fields["IDX"])


CONTRACTS["optimization:Optimization.update_instructions"] = dict(
    schema=schema, make_env=_env_opt, call_stubs={"adjustment.update_instructions": _adj_update},
    ensures=[("C15.each_adjustment_gets_its_own_slice_of_the_proposal_in_order",
              "len(LOG) == 2 and LOG[0][0] is ADJ[0] and LOG[0][1] == [xs[0], xs[1]] and LOG[1][0] is ADJ[1] and LOG[1][1] == [xs[2]] and LOG[0][2] is instructions and LOG[1][2] is instructions")],
    defined_props=["C15", "C14"])
CONTRACTS["optimization:Optimization.constrain_instructions"] = dict(
    schema=schema, make_env=_env_opt, call_stubs={"constraint.constrain_instructions": _con_constrain},
    ensures=[("C14+C15.every_constraint_is_applied_with_its_own_hard_constraint", "len(LOG) == 2 and LOG[0] == (CON[0], instructions, 'hc0', self) and LOG[1] == (CON[1], instructions, 'hc1', self)"),
             ("C14.the_penalty_is_the_sum_over_the_constraints", "result == 0.0 + pen[0] + pen[1]")],
    defined_props=["C15", "C14"])
CONTRACTS["optimization:Optimization.compute_objective"] = dict(
    schema=schema, make_env=_env_opt, call_stubs={"measurable.eval": _meas_eval},
    ensures=[("C15.the_objective_is_the_sum_of_the_requested_outputs_each_with_its_own_baseline", "result == 0.0 + obj[0] + obj[1] and len(LOG) == 2 and LOG[0] == (MEAS[0], model, 'b0') and LOG[1] == (MEAS[1], model, 'b1')")],
    defined_props=["C15"])
CONTRACTS["optimization:Optimization.get_hard_constraints"] = dict(
    schema=schema, make_env=_env_opt, call_stubs={"self.update_instructions": (lambda it, x, ins: it.live_env["LOG"].append(("update", x, ins))), "x.get_hard_constraint": _con_hard},
    ensures=[("C15.hard_constraints_are_taken_after_applying_the_initial_point_to_a_copy", "LOG[0][0] == 'update' and LOG[0][1] is x0 and LOG[0][2] is not INSTR and LOG[1][2] is LOG[0][2] and LOG[2][2] is LOG[0][2]"),
             ("C14+C15.one_hard_constraint_per_constraint_in_order", "result == [('hard constraint of', 0), ('hard constraint of', 1)] and LOG[1][0] is CON[0] and LOG[2][0] is CON[1]")],
    defined_props=["C15", "C14"])


def _replay_update(model, contract):
    """replay on a REAL Optimization with two real SpendingAdjustments (program a at 2020 and 2025, program b at 2020): the proposal
    (11, 22, 33) must put 11 and 22 on a and 33 on b; get_hard_constraints must leave the caller's instructions as they were"""
    import logging
    import warnings

    import atomica as at
    import atomica.optimization as ao

    warnings.filterwarnings("ignore")
    at.logger.setLevel(logging.ERROR)
    opt = object.__new__(ao.Optimization)
    opt.name = "opt"
    opt.adjustments = [ao.SpendingAdjustment("a", [2020.0, 2025.0], "abs", 0.0, 1000.0), ao.SpendingAdjustment("b", 2020.0, "abs", 0.0, 1000.0)]
    opt.constraints, opt.measurables = [], []
    instr = at.ProgramInstructions(start_year=2020, alloc={"a": at.TimeSeries([2020.0, 2025.0], [1.0, 2.0]), "b": at.TimeSeries(2020.0, 3.0)})
    bad = []
    opt.get_hard_constraints([11.0, 22.0, 33.0], instr)
    now = (float(instr.alloc["a"].get(2020.0)), float(instr.alloc["a"].get(2025.0)), float(instr.alloc["b"].get(2020.0)))
    if now != (1.0, 2.0, 3.0):
        bad.append("get_hard_constraints changed the caller's instructions to %r" % (now,))
    opt.update_instructions([11.0, 22.0, 33.0], instr)
    got = (float(instr.alloc["a"].get(2020.0)), float(instr.alloc["a"].get(2025.0)), float(instr.alloc["b"].get(2020.0)))
    if got != (11.0, 22.0, 33.0):
        bad.append("the proposal (11, 22, 33) was applied as a: %r, %r and b: %r" % got)
    return dict(verdict="violates" if bad else "holds", detail="; ".join(bad) or "each adjustment received its own slice; hard constraints were computed on a copy", prestate=dict(proposal=[11.0, 22.0, 33.0], adjustments={"a": [2020.0, 2025.0], "b": [2020.0]}))


for _k in ("optimization:Optimization.update_instructions", "optimization:Optimization.get_hard_constraints"):
    CONTRACTS[_k]["replay_hook"] = _replay_update


# ---- Optimization.get_adjustment / get_baselines
for _name, _found in (("adj1", True), ("nope", False)):
    CONTRACTS["optimization:Optimization.get_adjustment#%s" % ("present" if _found else "absent")] = dict(
        schema=schema, make_env=_env_opt, ghost_params={"name": "const:%r" % _name}, call_stubs={"sc.suggest": (lambda it, *a, **k: None)},
        raises=({} if _found else {"NotFoundError": "True"}), raises_props=["C14"],
        ensures=([("C14.the_adjustment_of_that_name", "result is ADJ[1]")] if _found else []), defined_props=["C14"])


def _ghost_loads_model(it, blob):
    from pyvc.interp import PyObjV
    from pyvc import source

    m = PyObjV("Model", source.load("model"), {"PROCESSED": False})
    it.live_env["LOG"].append(("loads", blob, m))
    return m


def _ghost_process(it):
    it.stub_receiver.fields["PROCESSED"] = True


def _ghost_baseline(it, model):
    it.live_env["LOG"].append(("baseline", it.stub_receiver, model, model.fields["PROCESSED"]))
    return ("baseline of", it.stub_receiver.fields["IDX"])


CONTRACTS["optimization:Optimization.get_baselines"] = dict(
    schema=schema, make_env=_env_opt, ghost_params={"pickled_model": "const:'pickled model'"},
    call_stubs={"pickle.loads": _ghost_loads_model, "model.process": _ghost_process, "m.get_baseline": _ghost_baseline},
    ensures=[("C15.baselines_come_from_a_simulated_copy_of_the_model_one_per_measurable_in_order",
              "result == [('baseline of', 0), ('baseline of', 1)] and LOG[0][0] == 'loads' and LOG[1] == ('baseline', MEAS[0], LOG[0][2], True) and LOG[2] == ('baseline', MEAS[1], LOG[0][2], True)")],
    defined_props=["C15"])


def _replay_two_constraints(model, contract):
    """replay on the REAL Optimization.constrain_instructions: two total-spend constraints (2020 and 2025) over three programs adjustable in both years; a proposal that
    breaks the SECOND constraint must come back meeting it"""
    import atomica as at
    import atomica.optimization as ao

    progs = ("a", "b", "c")
    adj = [ao.SpendingAdjustment(p, [2020.0, 2025.0], "abs", 10.0, 500.0) for p in progs]
    cons = [ao.TotalSpendConstraint(total_spend=300.0, t=2020.0), ao.TotalSpendConstraint(total_spend=600.0, t=2025.0)]
    opt = ao.Optimization(name="o", adjustments=adj, measurables=[ao.MaximizeMeasurable("x", 2025)], constraints=cons)
    start = at.ProgramInstructions(start_year=2020, alloc={p: at.TimeSeries([2020.0, 2025.0], [100.0, 200.0]) for p in progs})
    hard = opt.get_hard_constraints([100.0, 200.0] * 3, start)
    proposal = at.ProgramInstructions(start_year=2020, alloc={"a": at.TimeSeries([2020.0, 2025.0], [100.0, 900.0]), "b": at.TimeSeries([2020.0, 2025.0], [100.0, 50.0]), "c": at.TimeSeries([2020.0, 2025.0], [100.0, 1.0])})
    pre = dict(constraints={2020.0: 300.0, 2025.0: 600.0}, bounds=[10.0, 500.0], proposal_2025=[900.0, 50.0, 1.0])
    try:
        opt.constrain_instructions(proposal, hard)
    except ao.FailedConstraint:
        return dict(verdict="holds", detail="the proposal was refused (FailedConstraint)", prestate=pre)
    got = [float(proposal.alloc[p].get(2025.0)) for p in progs]
    if abs(sum(got) - 600.0) > 1e-3 or min(got) < 10.0 - 1e-6 or max(got) > 500.0 + 1e-6:
        return dict(verdict="violates", detail="after constrain_instructions the 2025 allocation is %r: total %r (required 600), bounds [10, 500]" % (got, sum(got)), prestate=pre)
    return dict(verdict="holds", detail="the 2025 allocation %r meets its total and bounds" % got, prestate=pre)


CONTRACTS["optimization:Optimization.constrain_instructions"]["replay_hook"] = _replay_two_constraints


def _replay_objective_sum(model, contract):
    """replay on the REAL Optimization.compute_objective with three real measurables whose values are known: the objective is their sum"""
    import atomica.optimization as ao

    class _M(ao.Measurable):
        def __init__(self, v):
            ao.Measurable.__init__(self, "x", t=2020, weight=1.0)
            self.v = v

        def eval(self, model, baseline):
            return self.v + (baseline or 0.0)

    opt = ao.Optimization(name="o", adjustments=[ao.SpendingAdjustment("a", 2020.0)], measurables=[_M(1.0), _M(20.0), _M(300.0)])
    got = float(opt.compute_objective(None, [0.0, 0.5, 0.25]))
    want = 1.0 + 20.5 + 300.25
    return dict(verdict="holds" if got == want else "violates", detail="three measurables evaluating to 1, 20.5 and 300.25 give the objective %r (their sum is %r)" % (got, want), prestate=dict(values=[1.0, 20.5, 300.25]))


CONTRACTS["optimization:Optimization.compute_objective"]["replay_hook"] = _replay_objective_sum
