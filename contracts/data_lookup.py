"""
ProjectData.get_ts (properties C15: the calibration objective compares with the databook series of the measurable; C20: "cascade values taken from data equal the
sum of the databook entries of each stage's constituents"): which series a (name, key) pair denotes.  A quantity with a table: the population's own row, else the
row entered for `all` / `All`; a transfer or interaction: the series of the (from, to) pair, also when both are packed into the name the model uses
(`age_0-4_to_5-14`); anything else: None.
"""
schema = "covout"
CONTRACTS = {}


def _env(name, key, rows=("adults", "children")):
    def make(it):
        from pyvc.interp import PyObjV
        from pyvc import source

        dm, um, em = source.load("data"), source.load("utils"), source.load("excel")
        ts = lambda tag: PyObjV("TimeSeries", um, {"TAG": tag})
        tdve = PyObjV("TimeDependentValuesEntry", em, {"name": "Quantity", "ts": {r: ts("q/" + r) for r in rows}})
        age = PyObjV("TimeDependentConnections", em, {"code_name": "age", "ts": {("0-4", "5-14"): ts("age/0-4>5-14")}})
        mix = PyObjV("TimeDependentConnections", em, {"code_name": "w_mix", "ts": {("5-14", "0-4"): ts("w_mix/5-14>0-4")}})
        return {"self": PyObjV("ProjectData", dm, {"tdve": {"q": tdve}, "transfers": [age], "interpops": [mix]}), "name": name, "key": key}

    return make


for _tag, _name, _key, _rows, _want in (
        ("own_row", "q", "children", ("adults", "children"), "q/children"), ("own_row_before_the_row_for_all", "q", "adults", ("all", "adults"), "q/adults"),
        ("row_for_all", "q", "children", ("all",), "q/all"), ("capitalised_row_for_all", "q", "children", ("All",), "q/All"),
        ("transfer_by_pair", "age", ("0-4", "5-14"), (), "age/0-4>5-14"), ("transfer_by_model_name", "age_0-4_to_5-14", None, (), "age/0-4>5-14"),
        ("interaction_by_model_name", "w_mix_5-14_to_0-4", None, (), "w_mix/5-14>0-4")):
    CONTRACTS["data:ProjectData.get_ts#%s" % _tag] = dict(
        schema=schema, make_env=_env(_name, _key, _rows), ensures=[("C15+C20.the_series_is_the_one_the_name_and_key_denote", "result is not None and result.TAG == %r" % _want)], defined_props=["C15", "C20"])
for _tag, _name, _key, _rows in (("no_row_for_the_population", "q", "elderly", ("adults", "children")), ("a_pair_without_data", "age", ("5-14", "0-4"), ()), ("an_unknown_name", "nothing", "adults", ()), ("no_name", None, "adults", ())):
    CONTRACTS["data:ProjectData.get_ts#%s" % _tag] = dict(
        schema=schema, make_env=_env(_name, _key, _rows), ensures=[("C15+C20.no_series_means_none", "result is None")], defined_props=["C15", "C20"])
