"""
ProjectData.get_ts (properties C15: the calibration objective compares with the databook series of the measurable; C20: "cascade values taken from data equal the
sum of the databook entries of each stage's constituents"): which series a (name, key) pair denotes.  A quantity with a table: the population's own row, else the
row entered for `all` / `All`; a transfer or interaction: the series of the (from, to) pair, also when both are packed into the name the model uses
(`age_0-4_to_5-14`); anything else: None.
"""
schema = "covout"
CONTRACTS = {}


def _env(name, key, rows=("adults", "children")):
    def make(it):
        from pyvc.interp import PyObjV
        from pyvc import source

        dm, um, em = source.load("data"), source.load("utils"), source.load("excel")
        ts = lambda tag: PyObjV("TimeSeries", um, {"TAG": tag})
        tdve = PyObjV("TimeDependentValuesEntry", em, {"name": "Quantity", "ts": {r: ts("q/" + r) for r in rows}})
        age = PyObjV("TimeDependentConnections", em, {"code_name": "age", "ts": {("0-4", "5-14"): ts("age/0-4>5-14")}})
        mix = PyObjV("TimeDependentConnections", em, {"code_name": "w_mix", "ts": {("5-14", "0-4"): ts("w_mix/5-14>0-4")}})
        return {"self": PyObjV("ProjectData", dm, {"tdve": {"q": tdve}, "transfers": [age], "interpops": [mix]}), "name": name, "key": key}

    return make


for _tag, _name, _key, _rows, _want in (
        ("own_row", "q", "children", ("adults", "children"), "q/children"), ("own_row_before_the_row_for_all", "q", "adults", ("all", "adults"), "q/adults"),
        ("row_for_all", "q", "children", ("all",), "q/all"), ("capitalised_row_for_all", "q", "children", ("All",), "q/All"),
        ("transfer_by_pair", "age", ("0-4", "5-14"), (), "age/0-4>5-14"), ("transfer_by_model_name", "age_0-4_to_5-14", None, (), "age/0-4>5-14"),
        ("interaction_by_model_name", "w_mix_5-14_to_0-4", None, (), "w_mix/5-14>0-4")):
    CONTRACTS["data:ProjectData.get_ts#%s" % _tag] = dict(
        schema=schema, make_env=_env(_name, _key, _rows), ensures=[("C15+C20.the_series_is_the_one_the_name_and_key_denote", "result is not None and result.TAG == %r" % _want)], defined_props=["C15", "C20"])
for _tag, _name, _key, _rows in (("no_row_for_the_population", "q", "elderly", ("adults", "children")), ("a_pair_without_data", "age", ("5-14", "0-4"), ()), ("an_unknown_name", "nothing", "adults", ()), ("no_name", None, "adults", ())):
    CONTRACTS["data:ProjectData.get_ts#%s" % _tag] = dict(
        schema=schema, make_env=_env(_name, _key, _rows), ensures=[("C15+C20.no_series_means_none", "result is None")], defined_props=["C15", "C20"])


# ---- ProjectData.start_year / end_year (C03: the simulation is aligned with the years of the databook): the earliest / latest year column of any table -- quantity tables,
# transfers and interactions alike; tables without year columns do not count
def _env_years(it):
    import numpy as np
    from pyvc.interp import PyObjV
    from pyvc import source

    em = source.load("excel")
    t = lambda cls, years: PyObjV(cls, em, {"tvec": np.array(years, dtype=float)})
    return {"self": PyObjV("ProjectData", source.load("data"), {"tdve": {"q": t("TimeDependentValuesEntry", [2005.0, 2010.0]), "r": t("TimeDependentValuesEntry", [])}, "transfers": [t("TimeDependentConnections", [2001.0, 2003.0])],
                                                                "interpops": [t("TimeDependentConnections", [2004.0, 2012.5])]})}


_all_tables = {"self.tables": (lambda it: list(it.live_env["self"].fields["tdve"].values()) + it.live_env["self"].fields["transfers"] + it.live_env["self"].fields["interpops"]),   # the iterator over all tables is a ghost
               "np.amin": (lambda it, a: float(min(a))), "np.amax": (lambda it, a: float(max(a)))}
CONTRACTS["data:ProjectData.start_year"] = dict(schema=schema, make_env=_env_years, call_stubs=_all_tables, ensures=[("C03+C16.the_start_year_is_the_earliest_year_column_of_any_table", "result == 2001.0")], defined_props=["C03", "C16"])
CONTRACTS["data:ProjectData.end_year"] = dict(schema=schema, make_env=_env_years, call_stubs=_all_tables, ensures=[("C03+C16.the_end_year_is_the_latest_year_column_of_any_table", "result == 2012.5")], defined_props=["C03", "C16"])


# ---- ProjectData.get_tdve_page (C16 / C18: error messages name the sheet a table is on): the sheet whose list holds the code name; NotFoundError when no sheet lists it
def _env_page(code):
    def make(it):
        from pyvc.interp import PyObjV
        from pyvc import source

        return {"self": PyObjV("ProjectData", source.load("data"), {"tdve_pages": {"Stocks": ["sus", "inf"], "Flows": ["rec"], "Empty": []}}), "code_name": code}

    return make


for _code, _sheet in (("sus", "Stocks"), ("rec", "Flows")):
    CONTRACTS["data:ProjectData.get_tdve_page#%s" % _code] = dict(schema=schema, make_env=_env_page(_code), ensures=[("C16+C18.the_page_is_the_sheet_that_lists_the_quantity", "result == %r" % _sheet)], defined_props=["C16", "C18"])
CONTRACTS["data:ProjectData.get_tdve_page#unknown_quantity"] = dict(schema=schema, make_env=_env_page("nothing"), raises={"NotFoundError": "True"}, raises_props=["C18"], ensures=[], defined_props=["C16", "C18"])
