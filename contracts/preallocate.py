"""
Contracts on the preallocate family of model.py (properties C04 "after initialization junction compartments hold nobody", C01 / C02: stocks
and flows start from storage of the right length in which nothing is a left-over number): after preallocate(tvec, dt) every integration
object holds the model's time vector and step, storage with one cell per time point, and

  JunctionCompartment / SourceCompartment: every cell is 0          SinkCompartment: the first cell is 0
  Link: one flow cell per time point                               TimedLink: one row per row of its source, one column per time point
The cells that np.empty / fill(nan) leave are unspecified values in the engine: nothing is claimed about them.
"""
import z3

schema = "covout"
CONTRACTS = {}


def _make_env(cls):
    def make(it):
        from pyvc.interp import PyObjV
        from pyvc.core import LArr
        from pyvc import source

        n = z3.Int("n_times")
        it.facts.append(n >= 1)
        f = z3.Function("tvec_at", z3.IntSort(), z3.RealSort())
        tvec = LArr(n, lambda i: f(i if z3.is_expr(i) else z3.IntVal(i)), fresh_alloc=False)
        fields = {"id": ("pop", "x"), "t": None, "dt": None, "vals": None}
        if cls in ("Link", "TimedLink"):
            fields["id"] = ("pop", "s", "d", "p:flow")
        return {"self": PyObjV(cls, source.load("model"), fields), "tvec": tvec, "dt": z3.Real("dt"), "n": n, "DT": z3.Real("dt")}

    return make


_common = [("C01.storage_has_one_cell_per_time_point_and_the_models_grid", "len(self.vals) == n and self.t is tvec and self.dt == DT")]
for _cls, _extra in (("Compartment", []), ("Parameter", []), ("Link", []),
                     ("JunctionCompartment", [("C04.a_junction_starts_empty_at_every_time_point", "all(self.vals[i] == 0 for i in range(n))")]),
                     ("SourceCompartment", [("C01.a_source_holds_no_counted_people", "all(self.vals[i] == 0 for i in range(n))")]),
                     ("SinkCompartment", [("C01+C02.a_sink_starts_at_zero", "self.vals[0] == 0")])):
    CONTRACTS[("model:Variable.preallocate#%s" % _cls) if _cls in ("Compartment", "Parameter", "Link") else ("model:%s.preallocate" % _cls)] = dict(
        schema=schema, make_env=_make_env(_cls), class_module="model", self_classes=[_cls],
        ensures=_common + _extra, defined_props=["C01", "C04", "C02"])


# TimedLink out of a timed compartment: the flow matrix has the shape of its source's matrix (one row per elapsed-time row: C05)
def _env_timedlink(it):
    from pyvc.interp import PyObjV
    from pyvc.core import LArr, LArr2
    from pyvc import source

    mm = source.load("model")
    n, r = z3.Int("n_times"), z3.Int("n_rows")
    it.facts += [n >= 1, r >= 1]
    f = z3.Function("tvec_at", z3.IntSort(), z3.RealSort())
    g = z3.Function("stock_at", z3.IntSort(), z3.IntSort(), z3.RealSort())
    tvec = LArr(n, lambda i: f(i if z3.is_expr(i) else z3.IntVal(i)), fresh_alloc=False)
    src = PyObjV("TimedCompartment", mm, {"id": ("pop", "s"), "_vals": LArr2(r, n, lambda i, j: g(i if z3.is_expr(i) else z3.IntVal(i), j if z3.is_expr(j) else z3.IntVal(j)))})
    return {"self": PyObjV("TimedLink", mm, {"id": ("pop", "s", "d", "p:flow"), "source": src, "_vals": None, "t": None, "dt": None}), "tvec": tvec, "dt": z3.Real("dt"), "n": n, "r": r, "DT": z3.Real("dt")}


CONTRACTS["model:TimedLink.preallocate#out_of_a_timed_compartment"] = dict(
    schema=schema, make_env=_env_timedlink, class_module="model",
    ensures=[("C05+C01.the_flow_matrix_has_the_shape_of_its_source", "self._vals.shape[0] == r and self._vals.shape[1] == n and self.t is tvec and self.dt == DT")],
    defined_props=["C05", "C01"])


# ---- Model.update_comps (C01: the stock update of a step): every compartment of every population is stepped exactly once, at the current index, population by population
def _env_update_comps(it):
    from pyvc.interp import PyObjV
    from pyvc import source

    mm = source.load("model")
    comps = {n: PyObjV("Compartment", mm, {"name": n}) for n in ("a0", "a1", "b0")}
    pops = [PyObjV("Population", mm, {"name": "a", "comps": [comps["a0"], comps["a1"]]}), PyObjV("Population", mm, {"name": "b", "comps": [comps["b0"]]})]
    return {"self": PyObjV("Model", mm, {"pops": pops, "_t_index": 7}), "STEPPED": []}


CONTRACTS["model:Model.update_comps"] = dict(
    schema=schema, make_env=_env_update_comps, call_stubs={"comp.update": (lambda it, ti: it.live_env["STEPPED"].append((it.stub_receiver.fields["name"], ti)))},
    ensures=[("C01.every_compartment_is_stepped_once_at_the_current_index", "STEPPED == [('a0', 7), ('a1', 7), ('b0', 7)] and self._t_index == 7")], defined_props=["C01"])


# ---- Population.popsize at one time index (C06: the weights of population aggregations): the people in the population's compartments, sources and sinks excluded
def _env_popsize(it):
    import z3
    from pyvc.interp import PyObjV
    from pyvc.core import LArr
    from pyvc import source

    mm = source.load("model")
    v = {n: z3.Real("size_" + n) for n in ("sus", "inf", "births", "dead")}
    mk = lambda cls, n: PyObjV(cls, mm, {"name": n, "vals": LArr(4, lambda i, x=v[n]: x)})
    comps = [mk("Compartment", "sus"), mk("SourceCompartment", "births"), mk("Compartment", "inf"), mk("SinkCompartment", "dead")]
    env = {"self": PyObjV("Population", mm, {"name": "pop", "comps": comps, "popsize_cache_time": None, "popsize_cache_val": None}), "ti": 2}
    env.update({"size_" + n: x for n, x in v.items()})
    return env


CONTRACTS["model:Population.popsize#at_one_time"] = dict(
    schema=schema, make_env=_env_popsize,
    ensures=[("C06.the_population_size_counts_every_compartment_except_sources_and_sinks", "result == size_sus + size_inf")], defined_props=["C06"])
