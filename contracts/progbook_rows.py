"""
The effects sheet of a program book, one row (property C16: "writing ... a program book ... and reading it back yields objects with the same
content (... target and effect ...)"): the body of the loop over populations in ProgramSet._write_effects for a population that has an outcome
entry and for one that has none.  The worksheet is a ghost that records what is written where; formats, cell references, widths and
conditional formats are opaque.  Every visible field of the entry goes into its own column:

   column 1 baseline | 2 coverage interaction (capitalised) | 3 impact interaction | 4 uncertainty | one column per program: its outcome, blank
   for a program without an outcome;   a population without an entry gets blanks and the default "Additive"
"""
import z3

schema = "covout"
CONTRACTS = {}


def _make_env(with_entry, cov, imp, with_sigma):
    def make(it):
        from pyvc.interp import PyObjV
        from pyvc.core import Opaque
        from pyvc import source

        pm = source.load("programs")
        B, S, O0 = z3.Real("baseline"), z3.Real("sigma"), z3.Real("outcome_p0")
        covout = PyObjV("Covout", pm, {"par": "par", "pop": "adults", "baseline": B, "cov_interaction": cov, "imp_interaction": imp, "sigma": S if with_sigma else None, "progs": {"p0": O0}})
        progs = [PyObjV("Program", pm, {"name": "p0"}), PyObjV("Program", pm, {"name": "p1"})]
        self = PyObjV("ProgramSet", pm, {"name": "ps", "pops": {"adults": {"label": "Adults", "type": "default"}}, "_references": Opaque("cell references"), "_formats": Opaque("formats")})
        return {"self": self, "pop_name": "adults", "applicable_covouts": {"adults": covout} if with_entry else {}, "applicable_progs": progs, "prog_col": {"p0": 6, "p1": 7}, "current_row": 3,
                "sheet": PyObjV("Worksheet", pm, {"CELLS": {}}), "widths": {}, "B": B, "S": S, "O0": O0, "par_name": "par"}

    return make


def _write(it, row, col, value, fmt=None):
    it.stub_receiver.fields["CELLS"][(row, col)] = value


_noop = lambda it, *a, **k: None
_stubs = {"sheet.write": _write, "sheet.write_formula": _noop, "sheet.data_validation": _noop, "sheet.conditional_format": _noop, "update_widths": _noop, "xlrc": (lambda it, *a, **k: "A1")}
for _tag, _entry, _cov, _imp, _sig in (("full_entry", True, "random", "p0+p1=0.9", True), ("plain_entry", True, "nested", None, False), ("no_entry", False, None, None, False)):
    if _entry:
        _ens = [("C16.baseline_coverage_interaction_impact_interaction_and_uncertainty_go_into_their_columns",
                 "sheet.CELLS[3, 1] == B and sheet.CELLS[3, 2] == %r and sheet.CELLS[3, 3] == %r and sheet.CELLS[3, 4] == %s" % (_cov.title(), _imp, "S" if _sig else "None")),
                ("C16.each_program_column_holds_that_programs_outcome_or_a_blank", "sheet.CELLS[3, 6] == O0 and sheet.CELLS[3, 7] is None")]
    else:
        _ens = [("C16.a_population_without_an_entry_gets_blanks_and_the_default_interaction",
                 "sheet.CELLS[3, 1] is None and sheet.CELLS[3, 2] == 'Additive' and sheet.CELLS[3, 3] is None and sheet.CELLS[3, 4] is None and sheet.CELLS[3, 6] is None and sheet.CELLS[3, 7] is None")]
    CONTRACTS["programs:ProgramSet._write_effects#row_%s" % _tag] = dict(
        schema=schema, fragment={"iter": "applicable_pops"}, make_env=_make_env(_entry, _cov, _imp, _sig), call_stubs=_stubs,
        ensures=_ens + [("C16.exactly_one_row_is_written", "current_row == 4 and all(k[0] == 3 for k in sheet.CELLS.keys())")],
        defined_props=["C16"])


# ---- the reader of the same sheet, one cell of a row (body of the loop over the cells in ProgramSet._read_effects): the value goes to the field its
# column heading names (in any letter case); a blank heading is ignored; a heading that is neither a field nor a program name is refused
def _env_cell(heading, value):
    def make(it):
        from pyvc.interp import PyObjV
        from pyvc import source

        pm = source.load("programs")
        V = z3.Real("cell_value")
        x = PyObjV("Cell", pm, {"value": V if value == "number" else value, "coordinate": "C5"})
        self = PyObjV("ProgramSet", pm, {"name": "ps", "programs": {"p0": None}})
        return {"self": self, "i": 1, "x": x, "idx_to_header": ({2: heading} if heading is not None else {}), "progs": {}, "baseline": None, "cov_interaction": None, "imp_interaction": None, "uncertainty": None, "V": V}

    return make


_unchanged = lambda skip: " and ".join("%s is None" % f for f in ("baseline", "cov_interaction", "imp_interaction", "uncertainty") if f != skip) + (" and len(progs) == 0" if skip != "progs" else "")
for _tag, _heading, _value, _clause, _exc in (
        ("baseline", "Baseline Value", "number", "baseline == V and " + _unchanged("baseline"), None),
        ("blank_baseline", "baseline value", None, _unchanged(None), None),
        ("coverage_interaction", "Coverage interaction", " Random ", "cov_interaction == 'random' and " + _unchanged("cov_interaction"), None),
        ("impact_interaction", "Impact interaction", " p0+p1=0.9 ", "imp_interaction == 'p0+p1=0.9' and " + _unchanged("imp_interaction"), None),
        ("uncertainty", "Uncertainty", "number", "uncertainty == V and " + _unchanged("uncertainty"), None),
        ("program_outcome", "p0", "number", "progs['p0'] == V and len(progs) == 1 and " + _unchanged("progs"), None),
        ("blank_heading", None, "number", _unchanged(None), None),
        ("unknown_heading", "no such program", "number", None, "Exception")):
    CONTRACTS["programs:ProgramSet._read_effects#cell_%s" % _tag] = dict(
        schema=schema, fragment={"iter": "enumerate(row[1:])"}, make_env=_env_cell(_heading, _value),
        call_stubs={"float": (lambda it, v: v)},
        raises=({_exc: "True"} if _exc else {}), raises_props=["C16", "C18"],
        ensures=([("C16+C12.the_cell_goes_to_the_field_its_heading_names_and_nowhere_else", _clause)] if _clause else []),
        defined_props=["C16", "C18"])


# ---- the targeting sheet, one program row (body of the loop over rows in ProgramSet._read_targeting): the program targets exactly the populations and
# compartments whose cells hold a `y` (any case, blanks around it allowed), mapped from labels to code names; the name "all" is refused
def _env_target_row(marks, short_name="prog"):
    def make(it):
        from pyvc.interp import PyObjV
        from pyvc.core import Opaque
        from pyvc import source

        pm = source.load("programs")
        cell = lambda v: PyObjV("Cell", pm, {"value": v})
        row = [cell(" %s " % short_name), cell(" A program ")] + [cell(m) for m in marks]
        self = PyObjV("ProgramSet", pm, {"name": "ps", "programs": {}})
        return {"self": self, "row": row, "pop_start_idx": 2, "comp_start_idx": 4, "headers": ["abbreviation", "display name", "adults", "children", "susceptible", "infected"],
                "pop_idx": {2: "adults", 3: "children"}, "comp_idx": {4: "susceptible", 5: "infected"}, "pop_codenames": {"adults": "ad", "children": "ch"}, "comp_codenames": {"susceptible": "sus", "infected": "inf"},
                "framework": Opaque("framework")}

    return make


_tr_stubs = {"sc.isstring": (lambda it, v: isinstance(v, str)), "sc.now": (lambda it, *a, **k: "now")}
for _tag, _marks, _pops, _comps in (("some_targets", ("Y", None, " y ", "n"), ["ad"], ["sus"]), ("all_targets", ("y", "Y", "y", "Y"), ["ad", "ch"], ["sus", "inf"]), ("no_targets", (None, "N", "", 1), [], [])):
    CONTRACTS["programs:ProgramSet._read_targeting#row_%s" % _tag] = dict(
        schema=schema, fragment={"iter": "tables[0][2:]"}, make_env=_env_target_row(_marks), call_stubs=_tr_stubs, concrete_new=["Program", "TimeSeries"],
        ensures=[("C16.the_program_targets_exactly_the_marked_populations_and_compartments", "self.programs['prog'].target_pops == %r and self.programs['prog'].target_comps == %r" % (_pops, _comps)),
                 ("C16.the_program_is_stored_under_its_stripped_code_name_with_its_label", "len(self.programs) == 1 and self.programs['prog'].name == 'prog' and self.programs['prog'].label == 'A program'")],
        defined_props=["C16"])
CONTRACTS["programs:ProgramSet._read_targeting#row_named_all"] = dict(
    schema=schema, fragment={"iter": "tables[0][2:]"}, make_env=_env_target_row(("y", None, "y", None), short_name="All"), call_stubs=_tr_stubs, concrete_new=["Program", "TimeSeries"],
    raises={"Exception": "True"}, raises_props=["C18"], ensures=[], defined_props=["C16", "C18"])


# ---- the spending sheet, one program table (body of the loop over tables in ProgramSet._read_spending): each series of the table becomes the program's
# series of that name (legacy names `Total spend` / `Capacity` included); a series read without units keeps the units the program had
def _env_spend_table(legacy):
    def make(it):
        from pyvc.interp import PyObjV
        from pyvc.core import Opaque
        from pyvc import source

        pm, um = source.load("programs"), source.load("utils")
        ts = lambda tag, units, data=True: PyObjV("TimeSeries", um, {"t": [], "vals": [], "units": units, "assumption": (1.0 if data else None), "sigma": None, "_sampled": False, "TAG": tag})
        prog = PyObjV("Program", pm, {"name": "prog", "label": "Prog", "spend_data": ts("old spend", "$/year"), "unit_cost": ts("old unit cost", "$/person (one-off)"), "capacity_constraint": ts("old cc", "people/year"),
                                      "saturation": ts("old sat", "N.A."), "coverage": ts("old cov", "people/year")})
        rows = {("Total spend" if legacy else "Annual spend"): ts("new spend", None), "Unit cost": ts("new unit cost", "$/person/year"), ("Capacity" if legacy else "Capacity constraint"): ts("new cc", None, data=False),
                "Saturation": ts("new sat", None, data=False), "Coverage": ts("new cov", "people", data=False)}
        tdve = PyObjV("TimeDependentValuesEntry", source.load("excel"), {"name": "prog", "ts": rows, "tvec": [2020.0]})
        return {"self": PyObjV("ProgramSet", pm, {"name": "ps", "programs": {"prog": prog}}), "table": Opaque("table"), "start_row": 1, "sheet": Opaque("sheet"), "_allow_missing_data": False, "times": set(), "TDVE": tdve, "PROG": prog}

    return make


for _legacy in (False, True):
    CONTRACTS["programs:ProgramSet._read_spending#table_%s" % ("legacy_names" if _legacy else "current_names")] = dict(
        schema=schema, fragment={"iter": "zip(tables, start_rows)"}, make_env=_env_spend_table(_legacy),
        call_stubs={"TimeDependentValuesEntry.from_rows": (lambda it, table: it.live_env["TDVE"]), "logger.warning": (lambda it, *a, **k: None)},
        ensures=[("C16.each_series_of_the_table_becomes_the_programs_series_of_that_name",
                  "PROG.spend_data.TAG == 'new spend' and PROG.unit_cost.TAG == 'new unit cost' and PROG.capacity_constraint.TAG == 'new cc' and PROG.saturation.TAG == 'new sat' and PROG.coverage.TAG == 'new cov'"),
                 ("C16.a_series_without_units_keeps_the_units_the_program_had", "PROG.spend_data.units == '$/year' and PROG.capacity_constraint.units == 'people/year' and PROG.saturation.units == 'N.A.'"),
                 ("C16.units_read_from_the_table_are_kept", "PROG.unit_cost.units == '$/person/year' and PROG.coverage.units == 'people'"),
                 ("C16.the_years_of_the_table_are_collected", "times == {2020.0}")],
        defined_props=["C16"])


# ---- the writer of the same sheet, one program (body of the loop over programs in ProgramSet._write_spending): the table written for a program holds its
# five series under the row names the reader expects, with the `Assumption` heading and all three optional columns switched on
def _env_spend_write(it):
    from pyvc.interp import PyObjV
    from pyvc.core import Opaque
    from pyvc import source

    pm, um = source.load("programs"), source.load("utils")
    ts = lambda tag: PyObjV("TimeSeries", um, {"units": "u", "TAG": tag})
    prog = PyObjV("Program", pm, {"name": "prog", "spend_data": ts("spend"), "unit_cost": ts("unit cost"), "capacity_constraint": ts("cc"), "saturation": ts("sat"), "coverage": ts("cov")})
    self = PyObjV("ProgramSet", pm, {"name": "ps", "programs": {"prog": prog}, "tvec": Opaque("years"), "currency": "$", "_formats": Opaque("formats"), "_references": Opaque("references")})
    return {"self": self, "prog": prog, "sheet": Opaque("sheet"), "next_row": 0, "widths": {}, "WRITTEN": [], "PROG": prog}


def _ghost_tdve(it, name, tvec=None, **k):
    from pyvc.interp import PyObjV
    from pyvc import source

    return PyObjV("TimeDependentValuesEntry", source.load("excel"), {"name": name, "tvec": tvec, "ts": {}, "assumption_heading": "Constant", "write_assumption": None, "write_units": None, "write_uncertainty": None, "allowed_units": None})


def _ghost_tdve_write(it, sheet, row, *a, **k):
    it.live_env["WRITTEN"].append(it.stub_receiver)
    return row + 10


CONTRACTS["programs:ProgramSet._write_spending#one_program"] = dict(
    schema=schema, fragment={"iter": "self.programs.values()", "body_contains": "Annual spend"}, make_env=_env_spend_write,
    call_stubs={"TimeDependentValuesEntry": _ghost_tdve, "tdve.write": _ghost_tdve_write},
    ensures=[("C16.the_five_series_of_the_program_are_written_under_the_row_names_the_reader_expects",
              "len(WRITTEN) == 1 and WRITTEN[0].name == 'prog' and WRITTEN[0].ts['Annual spend'] is PROG.spend_data and WRITTEN[0].ts['Unit cost'] is PROG.unit_cost and WRITTEN[0].ts['Capacity constraint'] is PROG.capacity_constraint "
              "and WRITTEN[0].ts['Saturation'] is PROG.saturation and WRITTEN[0].ts['Coverage'] is PROG.coverage and len(WRITTEN[0].ts) == 5"),
             ("C16.assumption_units_and_uncertainty_columns_are_always_written", "WRITTEN[0].assumption_heading == 'Assumption' and WRITTEN[0].write_assumption == True and WRITTEN[0].write_units == True and WRITTEN[0].write_uncertainty == True"),
             ("C16.the_next_table_starts_where_this_one_ended", "next_row == 10")],
    defined_props=["C16"])


# ---- the targeting sheet writer, one program row (body of the loop over programs in ProgramSet._write_targeting): code name and label in the first two columns, then a
# `Y` in the column of every targeted population / compartment and an `N` in the column of every other one -- the cells the reader above turns back into the targets
def _env_write_target_row(it):
    from pyvc.interp import PyObjV
    from pyvc.core import Opaque
    from pyvc import source

    pm = source.load("programs")
    prog = PyObjV("Program", pm, {"name": "prog", "label": "A program", "target_pops": ["ch"], "target_comps": ["sus", "rec"]})
    self = PyObjV("ProgramSet", pm, {"name": "ps", "pops": {"ad": {"label": "Adults"}, "ch": {"label": "Children"}}, "programs": {"prog": prog}, "_references": {"reach_pop": {}}, "_formats": Opaque("formats")})
    return {"self": self, "prog": prog, "row": 4, "widths": {}, "pop_col": {"ad": 2, "ch": 3}, "comp_col": {"sus": 5, "inf": 6, "rec": 7}, "comps_to_write": {"sus": {}, "inf": {}, "rec": {}},
            "sheet": PyObjV("Worksheet", pm, {"CELLS": {}, "name": "Program targeting"})}


def _rec_cell(it, row, col, value=None, *a, **k):
    it.stub_receiver.fields["CELLS"][(row, col)] = value


CONTRACTS["programs:ProgramSet._write_targeting#one_program"] = dict(
    schema=schema, fragment={"iter": "self.programs.values()", "body_contains": "reach_pop"}, make_env=_env_write_target_row,
    call_stubs={"sheet.write": _rec_cell, "sheet.data_validation": (lambda it, *a, **k: None), "sheet.conditional_format": (lambda it, *a, **k: None), "update_widths": (lambda it, *a, **k: None), "xlrc": (lambda it, *a, **k: "A1")},
    ensures=[("C16.the_row_starts_with_code_name_and_label", "sheet.CELLS[4, 0] == 'prog' and sheet.CELLS[4, 1] == 'A program'"),
             ("C16.targeted_populations_and_compartments_are_marked_y_and_all_others_n", "sheet.CELLS[4, 2] == 'N' and sheet.CELLS[4, 3] == 'Y' and sheet.CELLS[4, 5] == 'Y' and sheet.CELLS[4, 6] == 'N' and sheet.CELLS[4, 7] == 'Y'"),
             ("C16.one_cell_per_listed_population_and_compartment_and_the_next_program_goes_on_the_next_row", "len(sheet.CELLS) == 7 and row == 5")],
    defined_props=["C16"])


def _replay_zero_outcome(model, contract):
    """replay END TO END: in the tb_simple program book one program's outcome (and one baseline) is set to exactly 0, the book is written and read back"""
    import logging
    import warnings

    import atomica as at

    warnings.filterwarnings("ignore")
    at.logger.setLevel(logging.ERROR)
    P = at.demo("tb_simple", do_run=False)
    ps = P.progsets[0].copy()
    key = next(k for k, c in ps.covouts.items() if len(c.progs) >= 1)
    prog = list(ps.covouts[key].progs.keys())[0]
    ps.covouts[key].progs[prog] = 0.0
    ps.covouts[key].baseline = 0.5
    other = next((k for k in ps.covouts if k != key), None)
    if other is not None:
        ps.covouts[other].baseline = 0.0
    ps2 = at.ProgramSet.from_spreadsheet(ps.to_spreadsheet(), framework=P.framework, data=P.data)
    bad = []
    if ps2.covouts[key].progs.get(prog) != 0.0:
        bad.append("outcome 0 of program %r for %r reads back as %r" % (prog, key, ps2.covouts[key].progs.get(prog)))
    if other is not None and (other not in ps2.covouts or ps2.covouts[other].baseline != 0.0):
        bad.append("baseline 0 of %r reads back as %r" % (other, ps2.covouts[other].baseline if other in ps2.covouts else "no entry"))
    return dict(verdict="violates" if bad else "holds", detail="; ".join(bad) or "an outcome of 0 and a baseline of 0 read back as 0", prestate=dict(program_book="tb_simple", entry=list(key), program=prog))


for _t in ("program_outcome", "baseline"):
    CONTRACTS["programs:ProgramSet._read_effects#cell_%s" % _t]["replay_hook"] = _replay_zero_outcome
