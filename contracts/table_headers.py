"""
The header rule of the databook / program-book tables (properties C16 "writing ... a program book ... and reading it back", C18 "never by
silently accepting ... / rejecting a valid file with the wrong reason"): the statement

    if not times and "constant" not in headings: raise Exception("Could not find an assumption or time-specific value ...")

of TimeDependentValuesEntry.from_rows and TimeDependentConnections.from_tables.  A table is refused exactly when it has neither a year column
nor an assumption column -- and the assumption column may be headed "Constant" (databooks) or "Assumption" (the spending tables of a
program book, which the library's own writer produces).
"""
schema = "covout"
CONTRACTS = {}


def _make_env(headings, times):
    def make(it):
        return {"headings": dict(headings), "times": dict(times), "rows": None, "tables": None, "cls": None, "known_headings": set()}

    return make


_CASES = [("years_only", {"units": 1}, {2020.0: 4}, False), ("constant_only", {"units": 1, "constant": 3}, {}, False), ("assumption_only", {"units": 1, "uncertainty": 2, "assumption": 3}, {}, False),
          ("neither", {"units": 1, "uncertainty": 2}, {}, True)]
for _fn in ("excel:TimeDependentValuesEntry.from_rows", "excel:TimeDependentConnections.from_tables"):
    for _tag, _h, _t, _refused in _CASES:
        CONTRACTS["%s#header_%s" % (_fn, _tag)] = dict(
            schema=schema, fragment={"stmt_top": "if not times and"}, make_env=_make_env(_h, _t),
            raises=({"Exception": "True"} if _refused else {}), raises_props=["C16", "C18"],
            ensures=([] if _refused else [("C16+C18.a_table_with_a_year_or_an_assumption_column_is_read", "True")]),
            defined_props=["C16", "C18"])


def _replay(model, contract):
    """replay END TO END: the udt program set with every spending series reduced to its assumption and no year columns (tvec empty) is
    written with the library's own writer (heading "Assumption") and read back"""
    import logging
    import warnings

    import numpy as np
    import atomica as at

    warnings.filterwarnings("ignore")
    at.logger.setLevel(logging.ERROR)
    P = at.demo("udt", do_run=False)
    ps = P.progsets[0].copy()
    want = {}
    for prog in ps.programs.values():
        for ts in (prog.spend_data, prog.unit_cost, prog.capacity_constraint, prog.saturation, prog.coverage):
            if ts.has_time_data:
                v = ts.vals[-1]
                ts.t, ts.vals, ts.assumption = [], [], v
        want[prog.name] = prog.spend_data.assumption
    ps.tvec = np.array([])
    pre = dict(project="udt", program_book="spending tables with an Assumption column and no year columns", spending=want)
    try:
        ps2 = at.ProgramSet.from_spreadsheet(ps.to_spreadsheet(), P.framework, P.data)
    except Exception as e:  # noqa
        return dict(verdict="violates", raised=type(e).__name__, detail="the program book written by the library cannot be read back: %s: %s" % (type(e).__name__, str(e)[-160:]), prestate=pre)
    got = {k: v.spend_data.assumption for k, v in ps2.programs.items()}
    bad = [k for k in want if got.get(k) != want[k]]
    return dict(verdict="violates" if bad else "holds", detail=("spending of %r reads back as %r" % (bad, [got.get(k) for k in bad])) if bad else "the program book reads back with the same spending", prestate=pre)


for _k, _c in CONTRACTS.items():
    if _k.endswith("header_assumption_only"):
        _c["replay_hook"] = _replay
