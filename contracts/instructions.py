"""
Contracts on programs.ProgramInstructions.__init__ (property C11: "explicit coverage, capacity and spending overwrites take precedence",
C09): the bodies of the three loops that store the overwrites, for ONE entry whose value is a scalar S (any real number, 0 included),
or -- for spending -- None.  A scalar overwrite is stored as a one-point series (start year, S) WHATEVER its value: an overwrite
of 0 (defunding a program) is an overwrite.  The TimeSeries constructor and insert() are the real ones, executed on an object of
concrete shape.
"""
import z3

schema = "timeseries"
CONTRACTS = {}


def _env(field, value):
    def make(it):
        from pyvc.interp import PyObjV
        from pyvc import source

        S, Y = z3.Real("S"), z3.Real("Y")
        self = PyObjV("ProgramInstructions", source.load("programs"), {"start_year": Y, "stop_year": z3.Real("stop"), "alloc": {}, "capacity": {}, "coverage": {}})
        v = S if value == "scalar" else None
        return {"self": self, "prog_name": "p", "spending": v, "vals": v, "S": S, "Y": Y, "STORE": self.fields[field]}

    return make


def _replay(field):
    def replay(model, contract):
        """replay on the REAL constructor: a scalar overwrite of 0 and one of 5 for two programs"""
        import atomica as at

        ins = at.ProgramInstructions(start_year=2020, **{field: {"zero": 0.0, "five": 5.0}})
        store = getattr(ins, field)
        got = {k: (list(map(float, store[k].t)), list(map(float, store[k].vals))) for k in store.keys()}
        want = {"zero": ([2020.0], [0.0]), "five": ([2020.0], [5.0])}
        bad = ["%s overwrite %r: stored %r, given %r" % (field, k, got.get(k), w) for k, w in want.items() if got.get(k) != w]
        return dict(verdict="violates" if bad else "holds", detail="; ".join(bad) or "both scalar overwrites are stored", prestate=dict(start_year=2020, overwrites={"zero": 0.0, "five": 5.0}, kind=field))

    return replay


for _field, _iter in (("alloc", "alloc.items()"), ("capacity", "capacity.items()"), ("coverage", "coverage.items()")):
    CONTRACTS["programs:ProgramInstructions.__init__#scalar_%s_overwrite" % _field] = dict(
        schema=schema, fragment={"iter": _iter}, make_env=_env(_field, "scalar"), concrete_new=["TimeSeries"], replay_hook=_replay(_field),
        ensures=[
            ("C11+C09.a_scalar_overwrite_is_stored_whatever_its_value", "'p' in STORE"),
            ("C11+C09.it_is_one_point_at_the_start_year", "'p' in STORE and len(STORE['p'].t) == 1 and len(STORE['p'].vals) == 1 and STORE['p'].t[0] == Y and STORE['p'].vals[0] == S"),
        ],
        defined_props=["C11", "C09"])

CONTRACTS["programs:ProgramInstructions.__init__#no_alloc_overwrite"] = dict(
    schema=schema, fragment={"iter": "alloc.items()"}, make_env=_env("alloc", "none"), concrete_new=["TimeSeries"],
    ensures=[("C11+C09.none_is_not_an_overwrite", "'p' not in STORE")],
    defined_props=["C11", "C09"])
