"""
Contracts on programs.ProgramInstructions.__init__ (property C11: "explicit coverage, capacity and spending overwrites take precedence",
C09): the bodies of the three loops that store the overwrites, for ONE entry whose value is a scalar S (any real number, 0 included),
or -- for spending -- None.  A scalar overwrite is stored as a one-point series (start year, S) WHATEVER its value: an overwrite
of 0 (defunding a program) is an overwrite.  The TimeSeries constructor and insert() are the real ones, executed on an object of
concrete shape.
"""
import z3

schema = "timeseries"
CONTRACTS = {}


def _env(field, value):
    def make(it):
        from pyvc.interp import PyObjV
        from pyvc import source

        S, Y = z3.Real("S"), z3.Real("Y")
        self = PyObjV("ProgramInstructions", source.load("programs"), {"start_year": Y, "stop_year": z3.Real("stop"), "alloc": {}, "capacity": {}, "coverage": {}})
        v = S if value == "scalar" else None
        return {"self": self, "prog_name": "p", "spending": v, "vals": v, "S": S, "Y": Y, "STORE": self.fields[field]}

    return make


def _replay(field):
    def replay(model, contract):
        """replay on the REAL constructor: a scalar overwrite of 0 and one of 5 for two programs"""
        import atomica as at

        ins = at.ProgramInstructions(start_year=2020, **{field: {"zero": 0.0, "five": 5.0}})
        store = getattr(ins, field)
        got = {k: (list(map(float, store[k].t)), list(map(float, store[k].vals))) for k in store.keys()}
        want = {"zero": ([2020.0], [0.0]), "five": ([2020.0], [5.0])}
        bad = ["%s overwrite %r: stored %r, given %r" % (field, k, got.get(k), w) for k, w in want.items() if got.get(k) != w]
        return dict(verdict="violates" if bad else "holds", detail="; ".join(bad) or "both scalar overwrites are stored", prestate=dict(start_year=2020, overwrites={"zero": 0.0, "five": 5.0}, kind=field))

    return replay


for _field, _iter in (("alloc", "alloc.items()"), ("capacity", "capacity.items()"), ("coverage", "coverage.items()")):
    CONTRACTS["programs:ProgramInstructions.__init__#scalar_%s_overwrite" % _field] = dict(
        schema=schema, fragment={"iter": _iter}, make_env=_env(_field, "scalar"), concrete_new=["TimeSeries"], replay_hook=_replay(_field),
        ensures=[
            ("C11+C09.a_scalar_overwrite_is_stored_whatever_its_value", "'p' in STORE"),
            ("C11+C09.it_is_one_point_at_the_start_year", "'p' in STORE and len(STORE['p'].t) == 1 and len(STORE['p'].vals) == 1 and STORE['p'].t[0] == Y and STORE['p'].vals[0] == S"),
        ],
        defined_props=["C11", "C09"])

CONTRACTS["programs:ProgramInstructions.__init__#no_alloc_overwrite"] = dict(
    schema=schema, fragment={"iter": "alloc.items()"}, make_env=_env("alloc", "none"), concrete_new=["TimeSeries"],
    ensures=[("C11+C09.none_is_not_an_overwrite", "'p' not in STORE")],
    defined_props=["C11", "C09"])


# ---- Program.get_spend / Program.is_one_off (C11, C13, C09): program-book spending is read stepwise (the value in force, not a ramp); `total` adds the
# baseline spending; a unit cost per person is one-off, a unit cost per person per year is continuous
def _env_spend(it):
    from pyvc.interp import PyObjV
    from pyvc.core import Opaque
    from pyvc import source

    um = source.load("utils")
    mk = lambda n: PyObjV("TimeSeries", um, {"units": n, "TAG": n})
    return {"self": PyObjV("Program", source.load("programs"), {"name": "prog", "spend_data": mk("spend"), "baseline_spend": mk("baseline")}), "year": Opaque("years"), "CALLS": []}


def _ghost_interp(it, year, method=None):
    it.live_env["CALLS"].append((it.stub_receiver.fields["TAG"], year, method))
    return z3.Real("value_of_" + it.stub_receiver.fields["TAG"])


for _total in (False, True):
    CONTRACTS["programs:Program.get_spend#%s" % ("with_baseline" if _total else "programmatic_only")] = dict(
        schema=schema, make_env=_env_spend, ghost_params={"total": "const:%r" % _total, "value_of_spend": "real", "value_of_baseline": "real"},
        call_stubs={"self.spend_data.interpolate": _ghost_interp, "self.baseline_spend.interpolate": _ghost_interp},
        ensures=[("C11+C13+C09.book_spending_is_the_value_in_force_in_each_year", "all(c[1] is year and c[2] == 'previous' for c in CALLS) and CALLS[0][0] == 'spend'"),
                 ("C11+C13.total_spending_adds_the_baseline" if _total else "C11+C13.programmatic_spending_excludes_the_baseline", "result == value_of_spend + value_of_baseline and len(CALLS) == 2" if _total else "result == value_of_spend and len(CALLS) == 1")],
        defined_props=["C11", "C13", "C09"])


def _env_one_off(units):
    def make(it):
        from pyvc.interp import PyObjV
        from pyvc import source

        return {"self": PyObjV("Program", source.load("programs"), {"name": "prog", "unit_cost": PyObjV("TimeSeries", source.load("utils"), {"units": units})})}

    return make


for _tag, _units, _want in (("per_person", "$/person (one-off)", True), ("per_person_per_year", "$/person/year", False)):
    CONTRACTS["programs:Program.is_one_off#%s" % _tag] = dict(
        schema=schema, make_env=_env_one_off(_units),
        ensures=[("C11.a_unit_cost_per_person_is_one_off_and_per_person_per_year_is_continuous", "result == %r" % _want)], defined_props=["C11", "C13"])


# ---- ProgramInstructions.scale_alloc (C11 / C14: budget scenarios and budget factors scale the whole allocation): a NEW set of instructions in which every spending
# series -- values, assumption and uncertainty -- is the original times the factor; the instructions it is called on are left as they were
def _copy(v):
    from pyvc.interp import PyObjV

    if isinstance(v, PyObjV):
        return PyObjV(v.cls, v.module, {k: _copy(x) for k, x in v.fields.items()})
    if isinstance(v, dict):
        return {k: _copy(x) for k, x in v.items()}
    if isinstance(v, list):
        return [_copy(x) for x in v]
    return v


def _env_scale(it):
    from pyvc.interp import PyObjV
    from pyvc import source

    um = source.load("utils")
    a0, a1, b0, asm, sg, k = z3.Real("a0"), z3.Real("a1"), z3.Real("b0"), z3.Real("assumption"), z3.Real("sigma"), it.pre_env["scale_factor"]
    A = PyObjV("TimeSeries", um, {"t": [2020.0, 2025.0], "vals": [a0, a1], "units": "$", "assumption": None, "sigma": sg, "_sampled": False})
    B = PyObjV("TimeSeries", um, {"t": [2020.0], "vals": [b0], "units": "$", "assumption": asm, "sigma": None, "_sampled": False})
    self = PyObjV("ProgramInstructions", source.load("programs"), {"start_year": 2020.0, "stop_year": 2030.0, "alloc": {"a": A, "b": B}, "capacity": {}, "coverage": {}})
    return {"self": self, "a0": a0, "a1": a1, "b0": b0, "asm": asm, "sg": sg, "A": A, "B": B}


CONTRACTS["programs:ProgramInstructions.scale_alloc"] = dict(
    schema=schema, ghost_params={"scale_factor": "real"}, make_env=_env_scale, requires=["scale_factor >= 0"], call_stubs={"sc.dcp": (lambda it, x: _copy(x))},
    ensures=[("C11+C14.every_spending_value_is_scaled_by_the_factor", "result.alloc['a'].vals[0] == a0 * scale_factor and result.alloc['a'].vals[1] == a1 * scale_factor and result.alloc['b'].vals[0] == b0 * scale_factor and len(result.alloc) == 2"),
             ("C11+C14.assumption_and_uncertainty_are_scaled_too_and_absent_ones_stay_absent", "result.alloc['b'].assumption == asm * scale_factor and result.alloc['a'].sigma == sg * scale_factor and result.alloc['a'].assumption is None and result.alloc['b'].sigma is None"),
             ("C11+C14.years_and_period_are_kept", "result.alloc['a'].t == [2020.0, 2025.0] and result.start_year == 2020.0 and result.stop_year == 2030.0"),
             ("C11+C14+C08.the_instructions_it_is_called_on_are_unchanged", "result is not self and self.alloc['a'] is A and self.alloc['b'] is B and A.vals[0] == a0 and A.vals[1] == a1 and B.vals[0] == b0 and B.assumption == asm and A.sigma == sg")],
    defined_props=["C11", "C14"])
