"""
ProjectData.validate, the check of ONE framework quantity against its databook table (property C18: "never by silently accepting a file that ... [has]
missing required data"): the body of the loop over the quantities of the framework, for a quantity that has a databook page and a table in the book.
Two populations of the table's type are defined.  The table is accepted when it has a row with data and the right units (the databook units of the quantity in any letter case, or -- for parameters -- its standard unit) for each of them, or a row for
`all`; it is refused with InvalidDatabook when the row of a required population is missing, and with the data / units message when a row is empty or
in other units.  The framework's unit lookup and the page lookup are ghosts.
"""
import z3

schema = "covout"
CONTRACTS = {}


def _make_env(rows, units="Probability (per year)", with_data=True, obj_type="pars", timed="n", time_data=False):
    def make(it):
        from pyvc.interp import PyObjV
        from pyvc.core import Opaque
        from pyvc import source

        dm, um, em = source.load("data"), source.load("utils"), source.load("excel")
        ts = lambda: PyObjV("TimeSeries", um, {"t": [2020.0] if time_data else [], "vals": [0.5] if time_data else [], "units": units, "assumption": 0.1 if with_data and not time_data else None, "sigma": None, "_sampled": False})
        tdve = PyObjV("TimeDependentValuesEntry", em, {"name": "Quantity", "ts": {r: ts() for r in rows}, "pop_type": "default"})
        self = PyObjV("ProjectData", dm, {"pops": {"adults": {"label": "Adults", "type": "default"}, "children": {"label": "Children", "type": "default"}, "env": {"label": "Environment", "type": "other"}},
                                          "_pop_types": ["default", "other"], "tdve": {"q": tdve}, "tdve_pages": {"Sheet": ["q"]}})
        return {"self": self, "framework": Opaque("framework"), "obj_type": obj_type, "spec_name": "q", "df": Opaque("df"),
                "spec": {"databook page": "sheet", "default value": float("nan"), "display name": "Quantity", "population type": "default", "guidance": None, "timed": timed, "format": "probability"}}

    return make


_stubs = {"pd.isna": (lambda it, v: v is None or (isinstance(v, float) and v != v)), "framework.get_databook_units": (lambda it, name: "probability (per year)"), "self.get_tdve_page": (lambda it, name: "Sheet"),
          "logger.warning": (lambda it, *a, **k: None)}
_frag = {"iter": "zip(df.index, df.to_dict(orient='records'))"}
for _tag, _rows in (("every_population_has_a_row", ["adults", "children"]), ("a_row_for_all_populations", ["all"]), ("a_capitalised_row_for_all", ["All"]), ("rows_of_other_population_types_do_not_matter", ["adults", "children", "env"])):
    CONTRACTS["data:ProjectData.validate#table_%s" % _tag] = dict(
        schema=schema, fragment=_frag, make_env=_make_env(_rows), call_stubs=_stubs,
        ensures=[("C18.a_complete_table_is_accepted_and_left_as_it_is", "len(self.tdve) == 1 and len(self.tdve['q'].ts) == %d" % len(_rows))], defined_props=["C18"], raises_props=["C18"])
for _tag, _rows in (("second_population_missing", ["adults"]), ("first_population_missing", ["children"]), ("only_a_population_of_another_type", ["env"]), ("no_rows", [])):
    CONTRACTS["data:ProjectData.validate#table_%s" % _tag] = dict(
        schema=schema, fragment=_frag, make_env=_make_env(_rows), call_stubs=_stubs,
        raises={"InvalidDatabook": "True"}, raises_props=["C18"], ensures=[], defined_props=["C18"])
CONTRACTS["data:ProjectData.validate#table_in_the_standard_unit_of_the_quantity"] = dict(   # legacy databooks give the standard unit without the timescale
    schema=schema, fragment=_frag, make_env=_make_env(["adults", "children"], units=" Probability "), call_stubs=_stubs,
    ensures=[("C18.a_complete_table_is_accepted_and_left_as_it_is", "len(self.tdve) == 1 and len(self.tdve['q'].ts) == 2")], defined_props=["C18"], raises_props=["C18"])
for _tag, _kw in (("row_without_data", dict(with_data=False)), ("row_in_other_units", dict(units="number")), ("compartment_not_in_the_exact_units", dict(units="Probability", obj_type="comps")),
                  ("timed_parameter_with_time_dependent_values", dict(timed="y", time_data=True))):
    CONTRACTS["data:ProjectData.validate#table_%s" % _tag] = dict(
        schema=schema, fragment=_frag, make_env=_make_env(["adults", "children"], **_kw), call_stubs=_stubs,
        raises={"AssertionError": "True"}, raises_props=["C18"], ensures=[], defined_props=["C18"])


def _replay_missing_row(model, contract):
    """replay on the REAL ProjectData.validate: the tb databook with the row of one population removed from one table"""
    import logging
    import warnings

    warnings.filterwarnings("ignore")
    import atomica as at

    at.logger.setLevel(logging.ERROR)
    F = at.ProjectFramework(at.LIBRARY_PATH / "tb_framework.xlsx")
    D = at.ProjectData.from_spreadsheet(at.LIBRARY_PATH / "tb_databook.xlsx", framework=F)
    name = next(k for k, v in D.tdve.items() if len(v.ts) > 2 and "all" not in v.ts and "All" not in v.ts)
    gone = list(D.tdve[name].ts.keys())[1]
    D.tdve[name].ts.pop(gone)
    pre = dict(databook="tb", table=name, removed_row=gone)
    try:
        D.validate(F)
    except at.InvalidDatabook as e:
        return dict(verdict="holds", detail="refused: %s" % str(e)[:160], prestate=pre)
    except Exception as e:
        return dict(verdict="violates", detail="refused with %s instead of InvalidDatabook: %s" % (type(e).__name__, str(e)[:120]), prestate=pre)
    return dict(verdict="violates", detail="the databook was accepted although table %r has no row for population %r" % (name, gone), prestate=pre)


for _tag in ("second_population_missing", "first_population_missing", "only_a_population_of_another_type", "no_rows"):
    CONTRACTS["data:ProjectData.validate#table_%s" % _tag]["replay_hook"] = _replay_missing_row


# ---- ProjectData.from_spreadsheet, one table of a quantity sheet (body of the loop over the tables of a sheet; C18: "duplicate names"): the table is looked up in the framework by
# its name, stored under the quantity's CODE name and listed on the sheet it was found on, with the framework's units, population type and guidance; a second table for the same
# code name is refused with InvalidDatabook; a table the framework does not know is refused.  from_rows and the framework are ghosts.
def _env_table(existing_keys, known=True):
    def make(it):
        from pyvc.interp import PyObjV
        from pyvc import source

        dm, um, em = source.load("data"), source.load("utils"), source.load("excel")
        ts = PyObjV("TimeSeries", um, {"units": "probability", "t": [], "vals": [], "assumption": 0.5, "sigma": None})
        tdve = PyObjV("TimeDependentValuesEntry", em, {"name": "Quantity", "ts": {"adults": ts}, "allowed_units": None, "pop_type": None, "comment": None})
        sheet = PyObjV("Worksheet", dm, {"title": "Sheet A"})
        self = PyObjV("ProjectData", dm, {"tdve": {k: "earlier table" for k in existing_keys}, "tdve_pages": {"Sheet A": [k for k in existing_keys]}})
        return {"self": self, "table": "ROWS", "start_row": 7, "sheet": sheet, "framework": "FRAMEWORK", "TDVE": tdve, "SPEC": PyObjV("Series", dm, {"name": "q"}), "KNOWN": known, "TS": ts}

    return make


def _ghost_get_variable(it, name):
    from pyvc.interp import _Raise

    if not it.live_env["KNOWN"]:
        raise _Raise("NotFoundError")
    return (it.live_env["SPEC"], "par")


_tbl_calls = {"TimeDependentValuesEntry.from_rows": (lambda it, table: it.live_env["TDVE"]), "framework.get_variable": _ghost_get_variable, "framework.get_databook_units": (lambda it, code: "probability"),
              "logger.warning": (lambda it, *a, **k: None)}
_tbl_stubs = {"spec['population type']": "POPTYPE", "spec['databook page']": "PAGE", "spec['guidance']": "GUIDANCE"}
_tbl_extra = {"POPTYPE": "hum", "PAGE": "sheet_a", "GUIDANCE": "a note"}
CONTRACTS["data:ProjectData.from_spreadsheet#table_of_a_new_quantity"] = dict(
    schema=schema, fragment={"iter": "zip(tables, start_rows)", "body_contains": "from_rows"}, make_env=(lambda it: dict(_env_table(["Quantity", "other"])(it), **_tbl_extra)), call_stubs=_tbl_calls, stubs=_tbl_stubs,
    ensures=[("C18+C16.the_table_is_stored_under_the_code_name_of_its_quantity_and_listed_on_its_sheet", "self.tdve['q'] is TDVE and len(self.tdve) == 3 and self.tdve_pages['Sheet A'] == ['Quantity', 'other', 'q']"),
             ("C18+C16.it_gets_the_frameworks_units_population_type_and_guidance", "TDVE.allowed_units == ['probability'] and TDVE.pop_type == 'hum' and TDVE.comment == 'a note' and TS.units == 'probability'")],
    defined_props=["C18", "C16"], raises_props=["C18"])
CONTRACTS["data:ProjectData.from_spreadsheet#second_table_for_the_same_quantity"] = dict(
    schema=schema, fragment={"iter": "zip(tables, start_rows)", "body_contains": "from_rows"}, make_env=(lambda it: dict(_env_table(["q"])(it), **_tbl_extra)), call_stubs=_tbl_calls, stubs=_tbl_stubs,
    raises={"InvalidDatabook": "True"}, raises_props=["C18"], ensures=[], defined_props=["C18", "C16"])
CONTRACTS["data:ProjectData.from_spreadsheet#table_the_framework_does_not_know"] = dict(
    schema=schema, fragment={"iter": "zip(tables, start_rows)", "body_contains": "from_rows"}, make_env=(lambda it: dict(_env_table([], known=False)(it), **_tbl_extra)), call_stubs=_tbl_calls, stubs=_tbl_stubs,
    raises={"InvalidDatabook": "True"}, raises_props=["C18"], ensures=[], defined_props=["C18", "C16"])
