"""
ProjectData.validate, the check of ONE framework quantity against its databook table (property C18: "never by silently accepting a file that ... [has]
missing required data"): the body of the loop over the quantities of the framework, for a quantity that has a databook page and a table in the book.
Two populations of the table's type are defined.  The table is accepted when it has a row with data and the right units (the databook units of the quantity in any letter case, or -- for parameters -- its standard unit) for each of them, or a row for
`all`; it is refused with InvalidDatabook when the row of a required population is missing, and with the data / units message when a row is empty or
in other units.  The framework's unit lookup and the page lookup are ghosts.
"""
import z3

schema = "covout"
CONTRACTS = {}


def _make_env(rows, units="Probability (per year)", with_data=True, obj_type="pars", timed="n", time_data=False):
    def make(it):
        from pyvc.interp import PyObjV
        from pyvc.core import Opaque
        from pyvc import source

        dm, um, em = source.load("data"), source.load("utils"), source.load("excel")
        ts = lambda: PyObjV("TimeSeries", um, {"t": [2020.0] if time_data else [], "vals": [0.5] if time_data else [], "units": units, "assumption": 0.1 if with_data and not time_data else None, "sigma": None, "_sampled": False})
        tdve = PyObjV("TimeDependentValuesEntry", em, {"name": "Quantity", "ts": {r: ts() for r in rows}, "pop_type": "default"})
        self = PyObjV("ProjectData", dm, {"pops": {"adults": {"label": "Adults", "type": "default"}, "children": {"label": "Children", "type": "default"}, "env": {"label": "Environment", "type": "other"}},
                                          "_pop_types": ["default", "other"], "tdve": {"q": tdve}, "tdve_pages": {"Sheet": ["q"]}})
        return {"self": self, "framework": Opaque("framework"), "obj_type": obj_type, "spec_name": "q", "df": Opaque("df"),
                "spec": {"databook page": "sheet", "default value": float("nan"), "display name": "Quantity", "population type": "default", "guidance": None, "timed": timed, "format": "probability"}}

    return make


_stubs = {"pd.isna": (lambda it, v: v is None or (isinstance(v, float) and v != v)), "framework.get_databook_units": (lambda it, name: "probability (per year)"), "self.get_tdve_page": (lambda it, name: "Sheet"),
          "logger.warning": (lambda it, *a, **k: None)}
_frag = {"iter": "zip(df.index, df.to_dict(orient='records'))"}
for _tag, _rows in (("every_population_has_a_row", ["adults", "children"]), ("a_row_for_all_populations", ["all"]), ("a_capitalised_row_for_all", ["All"]), ("rows_of_other_population_types_do_not_matter", ["adults", "children", "env"])):
    CONTRACTS["data:ProjectData.validate#table_%s" % _tag] = dict(
        schema=schema, fragment=_frag, make_env=_make_env(_rows), call_stubs=_stubs,
        ensures=[("C18.a_complete_table_is_accepted_and_left_as_it_is", "len(self.tdve) == 1 and len(self.tdve['q'].ts) == %d" % len(_rows))], defined_props=["C18"], raises_props=["C18"])
for _tag, _rows in (("second_population_missing", ["adults"]), ("first_population_missing", ["children"]), ("only_a_population_of_another_type", ["env"]), ("no_rows", [])):
    CONTRACTS["data:ProjectData.validate#table_%s" % _tag] = dict(
        schema=schema, fragment=_frag, make_env=_make_env(_rows), call_stubs=_stubs,
        raises={"InvalidDatabook": "True"}, raises_props=["C18"], ensures=[], defined_props=["C18"])
CONTRACTS["data:ProjectData.validate#table_in_the_standard_unit_of_the_quantity"] = dict(   # legacy databooks give the standard unit without the timescale
    schema=schema, fragment=_frag, make_env=_make_env(["adults", "children"], units=" Probability "), call_stubs=_stubs,
    ensures=[("C18.a_complete_table_is_accepted_and_left_as_it_is", "len(self.tdve) == 1 and len(self.tdve['q'].ts) == 2")], defined_props=["C18"], raises_props=["C18"])
for _tag, _kw in (("row_without_data", dict(with_data=False)), ("row_in_other_units", dict(units="number")), ("compartment_not_in_the_exact_units", dict(units="Probability", obj_type="comps")),
                  ("timed_parameter_with_time_dependent_values", dict(timed="y", time_data=True))):
    CONTRACTS["data:ProjectData.validate#table_%s" % _tag] = dict(
        schema=schema, fragment=_frag, make_env=_make_env(["adults", "children"], **_kw), call_stubs=_stubs,
        raises={"AssertionError": "True"}, raises_props=["C18"], ensures=[], defined_props=["C18"])


def _replay_missing_row(model, contract):
    """replay on the REAL ProjectData.validate: the tb databook with the row of one population removed from one table"""
    import logging
    import warnings

    warnings.filterwarnings("ignore")
    import atomica as at

    at.logger.setLevel(logging.ERROR)
    F = at.ProjectFramework(at.LIBRARY_PATH / "tb_framework.xlsx")
    D = at.ProjectData.from_spreadsheet(at.LIBRARY_PATH / "tb_databook.xlsx", framework=F)
    name = next(k for k, v in D.tdve.items() if len(v.ts) > 2 and "all" not in v.ts and "All" not in v.ts)
    gone = list(D.tdve[name].ts.keys())[1]
    D.tdve[name].ts.pop(gone)
    pre = dict(databook="tb", table=name, removed_row=gone)
    try:
        D.validate(F)
    except at.InvalidDatabook as e:
        return dict(verdict="holds", detail="refused: %s" % str(e)[:160], prestate=pre)
    except Exception as e:
        return dict(verdict="violates", detail="refused with %s instead of InvalidDatabook: %s" % (type(e).__name__, str(e)[:120]), prestate=pre)
    return dict(verdict="violates", detail="the databook was accepted although table %r has no row for population %r" % (name, gone), prestate=pre)


for _tag in ("second_population_missing", "first_population_missing", "only_a_population_of_another_type", "no_rows"):
    CONTRACTS["data:ProjectData.validate#table_%s" % _tag]["replay_hook"] = _replay_missing_row
