"""
Contracts on Covout.update_outcomes / compute_impact_interaction (property C12, last sentence): the cache that get_outcome
reads.  Concrete shape (n programs with concrete names), symbolic contents (baseline, program outcomes, explicit interaction
outcomes are arbitrary reals).  `sorted` with a symbolic key forks over the orderings; complete for each n.

What it discharges: (a) a combination's cached outcome is the explicitly specified value where one is given and otherwise the
member delta farthest from baseline; (b) the cache invariant that the get_outcome contracts (contracts/covout.py) assume:
the cached outcome of the single-program combination {i} is the delta of the i-th cached program.
"""
import itertools

import numpy as np
import z3

SCHEMA = {"__families__": []}
schema = "covout"
CONTRACTS = {}


def _make_env(n, explicit):
    def make(it):
        from pyvc.interp import PyObjV
        from pyvc import source

        names = ["p%d" % i for i in range(n)]
        outs = {nm: z3.Real("out_%s" % nm) for nm in names}
        baseline = z3.Real("baseline")
        inter = {}
        if explicit:
            # one explicit interaction outcome for the combination of all programs (stored relative to baseline, as __init__ does)
            inter[frozenset(names)] = z3.Real("inter_all")
        fields = {"baseline": baseline, "progs": dict(outs), "_interactions": inter, "imp_interaction": None,
                  "cov_interaction": "additive", "_cached_progs": None, "_deltas": None, "combinations": None, "_combination_outcomes": None}
        self = PyObjV("Covout", source.load("programs"), fields)
        return {"self": self, "names": names, "outs": [outs[nm] for nm in names], "n": n, "inter": inter}

    return make


def _clauses(n, explicit):
    combos = [bin(x)[2:].rjust(n, "0") for x in range(2 ** n)]
    ens = [("C12.empty_combination_has_no_effect", "self._combination_outcomes[0] == 0")]
    # the cached programs are a permutation of the programs, in order of decreasing distance from baseline
    ens.append(("C12.cache_holds_every_program_once", "sorted(self._cached_progs.keys()) == sorted(names)"))
    ens.append(("C12.cached_delta_is_outcome_minus_baseline",
                " and ".join("self._deltas[%d] == self._cached_progs[list(self._cached_progs.keys())[%d]] - self.baseline" % (i, i) for i in range(n))))
    ens.append(("C12.cached_values_are_the_program_outcomes",
                " and ".join("self._cached_progs[names[%d]] == outs[%d]" % (i, i) for i in range(n))))
    for c in range(1, 2 ** n):
        members = [i for i in range(n) if combos[c][i] == "1"]
        if explicit and len(members) == n:
            ens.append(("C12.explicit_interaction_outcome_is_used", "self._combination_outcomes[%d] == inter[frozenset(names)]" % c))
            continue
        ens.append(("C12.combination_%s_takes_the_member_farthest_from_baseline" % combos[c],
                    "(" + " or ".join("self._combination_outcomes[%d] == self._deltas[%d]" % (c, i) for i in members) + ") and " +
                    " and ".join("abs(self._combination_outcomes[%d]) >= abs(self._deltas[%d])" % (c, i) for i in members)))
    # invariant assumed by the get_outcome contracts
    if not (explicit and n == 1):
        ens.append(("C12.single_program_combination_is_its_delta",
                    " and ".join("self._combination_outcomes[%d] == self._deltas[%d]" % (2 ** (n - 1 - i), i) for i in range(n))))
    return ens


for _n in (1, 2, 3, 4):
    for _e in (False, True):
        CONTRACTS["programs:Covout.update_outcomes#n%d%s" % (_n, "_explicit" if _e else "")] = dict(
            schema=schema, make_env=_make_env(_n, _e), ensures=_clauses(_n, _e), defined_props=["C12"], n=_n, explicit=_e,
            tiers=(["quick", "thorough"] if _n <= 3 else ["thorough"]))


def _replay(model, contract):
    """replay on the REAL Covout: a Covout with the model's baseline / program outcomes / explicit interaction outcome is built
    without its constructor, the real update_outcomes() runs, and every clause is re-evaluated on the real cache"""
    import atomica.programs as ap
    import sciris as sc
    from pyvc import replay

    n, explicit = contract["n"], contract["explicit"]

    def val(name):
        v = model.eval(z3.Real(name), model_completion=True)
        try:
            return float(v.numerator_as_long()) / float(v.denominator_as_long())
        except Exception:
            v = v.approx(12)
            return float(v.numerator_as_long()) / float(v.denominator_as_long())

    names = ["p%d" % i for i in range(n)]
    outs = [val("out_%s" % nm) for nm in names]
    baseline = val("baseline")
    inter = {frozenset(names): val("inter_all")} if explicit else {}
    cv = object.__new__(ap.Covout)
    cv.par, cv.pop, cv.cov_interaction, cv.imp_interaction, cv.sigma = "par", "pop", "additive", None, None
    cv.baseline = baseline
    cv.progs = sc.odict((nm, o) for nm, o in zip(names, outs))
    cv._interactions = dict(inter)
    pre = dict(n=n, explicit=explicit, baseline=baseline, program_outcomes=outs, interaction_outcomes={"+".join(sorted(k)): v for k, v in inter.items()})
    try:
        cv.update_outcomes()
    except Exception as e:
        return dict(verdict="violates", detail="real update_outcomes raised %s: %s" % (type(e).__name__, e), prestate=pre)
    env = {"self": cv, "names": names, "outs": outs, "inter": inter, "n": n}
    bad = []
    for name, expr in contract["ensures"]:
        try:
            ok = bool(replay.eval_spec(expr, env, {}))
        except Exception as e:
            ok = False
            name += " (%s: %s)" % (type(e).__name__, e)
        if not ok:
            bad.append(name)
    pre["cache"] = dict(order=list(cv._cached_progs.keys()), deltas=[float(x) for x in cv._deltas], combination_outcomes=[float(x) for x in cv._combination_outcomes])
    return dict(verdict="violates" if bad else "holds", detail=("clauses failing on the real code: %s" % bad) if bad else "all clauses hold on the real code for this input", prestate=pre)


for _c in CONTRACTS.values():
    _c["replay_hook"] = _replay
