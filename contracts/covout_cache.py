"""
Contracts on Covout.update_outcomes / compute_impact_interaction (property C12, last sentence): the cache that get_outcome
reads.  Concrete shape (n programs with concrete names), symbolic contents (baseline, program outcomes, explicit interaction
outcomes are arbitrary reals).  `sorted` with a symbolic key forks over the orderings; complete for each n.

What it discharges: (a) a combination's cached outcome is the explicitly specified value where one is given and otherwise the
member delta farthest from baseline; (b) the cache invariant that the get_outcome contracts (contracts/covout.py) assume:
the cached outcome of the single-program combination {i} is the delta of the i-th cached program.
"""
import itertools

import numpy as np
import z3

SCHEMA = {"__families__": []}
schema = "covout"
CONTRACTS = {}


def _make_env(n, explicit):
    def make(it):
        from pyvc.interp import PyObjV
        from pyvc import source

        names = ["p%d" % i for i in range(n)]
        outs = {nm: z3.Real("out_%s" % nm) for nm in names}
        baseline = z3.Real("baseline")
        inter = {}
        if explicit:
            # one explicit interaction outcome for the combination of all programs (stored relative to baseline, as __init__ does)
            inter[frozenset(names)] = z3.Real("inter_all")
        fields = {"baseline": baseline, "progs": dict(outs), "_interactions": inter, "imp_interaction": None,
                  "cov_interaction": "additive", "_cached_progs": None, "_deltas": None, "combinations": None, "_combination_outcomes": None}
        self = PyObjV("Covout", source.load("programs"), fields)
        return {"self": self, "names": names, "outs": [outs[nm] for nm in names], "n": n, "inter": inter}

    return make


def _clauses(n, explicit):
    combos = [bin(x)[2:].rjust(n, "0") for x in range(2 ** n)]
    ens = [("C12+C13.empty_combination_has_no_effect", "self._combination_outcomes[0] == 0")]
    # the cached programs are a permutation of the programs, in order of decreasing distance from baseline
    ens.append(("C12+C13.cache_holds_every_program_once", "sorted(self._cached_progs.keys()) == sorted(names)"))
    if n >= 2:
        # (the additive and nested interactions fill coverage in this order: the strongest program first)
        ens.append(("C12+C13.programs_are_cached_in_order_of_decreasing_distance_from_baseline", " and ".join("abs(self._deltas[%d]) >= abs(self._deltas[%d])" % (i, i + 1) for i in range(n - 1))))
    ens.append(("C12+C13.cached_delta_is_outcome_minus_baseline",
                " and ".join("self._deltas[%d] == self._cached_progs[list(self._cached_progs.keys())[%d]] - self.baseline" % (i, i) for i in range(n))))
    ens.append(("C12+C13.cached_values_are_the_program_outcomes",
                " and ".join("self._cached_progs[names[%d]] == outs[%d]" % (i, i) for i in range(n))))
    for c in range(1, 2 ** n):
        members = [i for i in range(n) if combos[c][i] == "1"]
        if explicit and len(members) == n:
            ens.append(("C12+C13.explicit_interaction_outcome_is_used", "self._combination_outcomes[%d] == inter[frozenset(names)]" % c))
            continue
        ens.append(("C12+C13.combination_%s_takes_the_member_farthest_from_baseline" % combos[c],
                    "(" + " or ".join("self._combination_outcomes[%d] == self._deltas[%d]" % (c, i) for i in members) + ") and " +
                    " and ".join("abs(self._combination_outcomes[%d]) >= abs(self._deltas[%d])" % (c, i) for i in members)))
    # invariant assumed by the get_outcome contracts
    if not (explicit and n == 1):
        ens.append(("C12+C13.single_program_combination_is_its_delta",
                    " and ".join("self._combination_outcomes[%d] == self._deltas[%d]" % (2 ** (n - 1 - i), i) for i in range(n))))
    return ens


for _n in (1, 2, 3, 4):
    for _e in (False, True):
        CONTRACTS["programs:Covout.update_outcomes#n%d%s" % (_n, "_explicit" if _e else "")] = dict(
            schema=schema, make_env=_make_env(_n, _e), ensures=_clauses(_n, _e), defined_props=["C12"], n=_n, explicit=_e,
            tiers=(["quick", "thorough"] if _n <= 3 else ["thorough"]))


def _replay(model, contract):
    """replay on the REAL Covout: a Covout with the model's baseline / program outcomes / explicit interaction outcome is built
    without its constructor, the real update_outcomes() runs, and every clause is re-evaluated on the real cache"""
    import atomica.programs as ap
    import sciris as sc
    from pyvc import replay

    n, explicit = contract["n"], contract["explicit"]

    def val(name):
        v = model.eval(z3.Real(name), model_completion=True)
        try:
            return float(v.numerator_as_long()) / float(v.denominator_as_long())
        except Exception:
            v = v.approx(12)
            return float(v.numerator_as_long()) / float(v.denominator_as_long())

    names = ["p%d" % i for i in range(n)]
    outs = [val("out_%s" % nm) for nm in names]
    baseline = val("baseline")
    inter = {frozenset(names): val("inter_all")} if explicit else {}
    cv = object.__new__(ap.Covout)
    cv.par, cv.pop, cv.cov_interaction, cv.imp_interaction, cv.sigma = "par", "pop", "additive", None, None
    cv.baseline = baseline
    cv.progs = sc.odict((nm, o) for nm, o in zip(names, outs))
    cv._interactions = dict(inter)
    pre = dict(n=n, explicit=explicit, baseline=baseline, program_outcomes=outs, interaction_outcomes={"+".join(sorted(k)): v for k, v in inter.items()})
    try:
        cv.update_outcomes()
    except Exception as e:
        return dict(verdict="violates", detail="real update_outcomes raised %s: %s" % (type(e).__name__, e), prestate=pre)
    env = {"self": cv, "names": names, "outs": outs, "inter": inter, "n": n}
    bad = []
    for name, expr in contract["ensures"]:
        try:
            ok = bool(replay.eval_spec(expr, env, {}))
        except Exception as e:
            ok = False
            name += " (%s: %s)" % (type(e).__name__, e)
        if not ok:
            bad.append(name)
    pre["cache"] = dict(order=list(cv._cached_progs.keys()), deltas=[float(x) for x in cv._deltas], combination_outcomes=[float(x) for x in cv._combination_outcomes])
    return dict(verdict="violates" if bad else "holds", detail=("clauses failing on the real code: %s" % bad) if bad else "all clauses hold on the real code for this input", prestate=pre)


for _c in CONTRACTS.values():
    _c["replay_hook"] = _replay


# ---- ProgramSet.remove_program (property C16: an object behaves as its visible data after library operations): the cache of every
# affected Covout must follow its programs, otherwise the next simulation reads outcomes of a program that no longer exists
def _env_remove(n):
    def make(it):
        from pyvc.interp import PyObjV
        from pyvc.core import LArr
        from pyvc import source

        pm = source.load("programs")
        names = ["p%d" % i for i in range(n)]
        outs = {nm: z3.Real("out_%s" % nm) for nm in names}
        baseline = z3.Real("baseline")
        combos = [bin(x)[2:].rjust(n, "0") for x in range(2 ** n)]
        cv = PyObjV("Covout", pm, {
            "par": "par", "pop": "pop", "baseline": baseline, "progs": dict(outs), "_interactions": {}, "imp_interaction": None, "cov_interaction": "additive", "sigma": None,
            # a cache that is consistent with the n programs (contents arbitrary, shape as update_outcomes leaves it)
            "_cached_progs": dict(outs), "_deltas": LArr(n, it._list_reader([z3.Real("d_%d" % i) for i in range(n)])),
            "combinations": np.array([list(int(y) for y in x) for x in combos]), "_combination_outcomes": LArr(2 ** n, it._list_reader([z3.Real("co_%d" % i) for i in range(2 ** n)])),
        })
        progset = PyObjV("ProgramSet", pm, {"programs": {nm: None for nm in names}, "pars": ["par"], "pops": ["pop"], "covouts": {("par", "pop"): cv}})
        return {"self": progset, "cv": cv, "names": names, "name": "p0"}

    return make


for _n in (2, 3):
    CONTRACTS["programs:ProgramSet.remove_program#n%d" % _n] = dict(
        schema=schema, make_env=_env_remove(_n), ghost_params={"CODE": "const:'p0'"}, stubs={"self._get_code_name(name)": "CODE"},
        ensures=[
            ("C16.program_is_gone_from_the_program_set_and_its_outcomes", "'p0' not in self.programs and 'p0' not in cv.progs"),
            ("C16.covout_cache_follows_its_remaining_programs", "sorted(cv._cached_progs.keys()) == sorted(cv.progs.keys())"),
            ("C16.covout_cache_has_the_shape_of_its_remaining_programs", "len(cv._deltas) == len(cv.progs) and len(cv._combination_outcomes) == 2 ** len(cv.progs) and len(cv.combinations) == 2 ** len(cv.progs)"),
        ],
        defined_props=["C16"], n=_n, explicit=False)


def _replay_remove(model, contract):
    """replay on a REAL ProgramSet shell holding a real Covout (built by its constructor): remove_program('p0') runs, then the real
    Covout.get_outcome is asked for an outcome with coverages of the remaining programs -- what the next simulation step does"""
    import atomica.programs as ap
    import sciris as sc

    n = contract["n"]

    def val(name):
        v = model.eval(z3.Real(name), model_completion=True)
        try:
            return float(v.numerator_as_long()) / float(v.denominator_as_long())
        except Exception:
            v = v.approx(12)
            return float(v.numerator_as_long()) / float(v.denominator_as_long())

    names = ["p%d" % i for i in range(n)]
    outs = [val("out_%s" % nm) for nm in names]
    baseline = val("baseline")
    cv = ap.Covout(par="par", pop="pop", progs={nm: o for nm, o in zip(names, outs)}, baseline=baseline)
    ps = object.__new__(ap.ProgramSet)
    ps.programs = sc.odict((nm, None) for nm in names)
    ps.pars, ps.pops, ps.comps = sc.odict([("par", {"label": "par"})]), sc.odict([("pop", {"label": "pop"})]), sc.odict()
    ps.covouts = sc.odict([(("par", "pop"), cv)])
    pre = dict(n=n, programs=names, outcomes=outs, baseline=baseline, removed="p0")
    try:
        ps.remove_program("p0")
    except Exception as e:
        return dict(verdict="violates", detail="real remove_program raised %s: %s" % (type(e).__name__, e), prestate=pre)
    bad = []
    if sorted(cv._cached_progs.keys()) != sorted(cv.progs.keys()):
        bad.append("cache still lists %r, programs are %r" % (list(cv._cached_progs.keys()), list(cv.progs.keys())))
    if len(cv._deltas) != len(cv.progs) or len(cv._combination_outcomes) != 2 ** len(cv.progs):
        bad.append("cache has %d deltas / %d combination outcomes for %d programs" % (len(cv._deltas), len(cv._combination_outcomes), len(cv.progs)))
    try:
        out = cv.get_outcome({nm: np.array([0.5]) for nm in cv.progs.keys()})
        pre["outcome_after"] = [float(x) for x in np.atleast_1d(out)]
    except Exception as e:
        bad.append("get_outcome with the remaining programs raised %s: %s" % (type(e).__name__, str(e)[:120]))
    return dict(verdict="violates" if bad else "holds", detail="; ".join(bad) or "cache follows the remaining programs and get_outcome works", prestate=pre)


for _k, _c in CONTRACTS.items():
    if "remove_program" in _k:
        _c["replay_hook"] = _replay_remove


# ---- ProgramSet.remove_pop (C16): the outcome objects of the removed population must go with it (they are keyed by (parameter, population))
def _env_remove_pop(it):
    from pyvc.interp import PyObjV
    from pyvc.core import Opaque
    from pyvc import source

    pm = source.load("programs")
    prog = PyObjV("Program", pm, {"name": "prog", "target_pops": ["pop", "other"]})
    progset = PyObjV("ProgramSet", pm, {"programs": {"prog": prog}, "pars": {"par": None}, "pops": {"pop": None, "other": None},
                                         "covouts": {("par", "pop"): Opaque("covout of the removed population"), ("par", "other"): Opaque("covout of another population")}})
    return {"self": progset, "prog": prog, "name": "pop"}


CONTRACTS["programs:ProgramSet.remove_pop#one_parameter_two_populations"] = dict(
    schema=schema, make_env=_env_remove_pop, ghost_params={"CODE": "const:'pop'"}, stubs={"self._get_code_name(name)": "CODE"},
    ensures=[
        ("C16.population_is_gone_from_the_program_set_and_the_targets", "'pop' not in self.pops and 'pop' not in prog.target_pops"),
        ("C16.no_outcome_is_left_for_the_removed_population", "all(k[1] != 'pop' for k in self.covouts.keys())"),
        ("C16.outcomes_of_other_populations_are_kept", "('par', 'other') in self.covouts and 'other' in self.pops and 'other' in prog.target_pops"),
    ],
    defined_props=["C16"])


def _replay_remove_pop(model, contract):
    """replay on a REAL ProgramSet shell with a real Program-like target list and two real Covouts"""
    import atomica.programs as ap
    import sciris as sc

    class _Prog:
        name = "prog"

        def __init__(self):
            self.target_pops = ["pop", "other"]

    ps = object.__new__(ap.ProgramSet)
    ps.programs = sc.odict([("prog", _Prog())])
    ps.pars, ps.comps = sc.odict([("par", {"label": "par"})]), sc.odict()
    ps.pops = sc.odict([("pop", {"label": "pop"}), ("other", {"label": "other"})])
    ps.covouts = sc.odict([(("par", "pop"), ap.Covout("par", "pop", {"prog": 0.5}, baseline=0.1)), (("par", "other"), ap.Covout("par", "other", {"prog": 0.5}, baseline=0.1))])
    pre = dict(pops=["pop", "other"], covouts=[["par", "pop"], ["par", "other"]], removed="pop")
    try:
        ps.remove_pop("pop")
    except Exception as e:
        return dict(verdict="violates", detail="real remove_pop raised %s: %s" % (type(e).__name__, e), prestate=pre)
    left = [list(k) for k in ps.covouts.keys()]
    bad = [k for k in left if k[1] == "pop"]
    return dict(verdict="violates" if bad else "holds", detail="covouts after remove_pop('pop'): %r (populations left: %r)" % (left, list(ps.pops.keys())), prestate=pre)


CONTRACTS["programs:ProgramSet.remove_pop#one_parameter_two_populations"]["replay_hook"] = _replay_remove_pop


# ---- ProgramSet.remove_par / remove_comp (C16): what belongs to the removed item goes with it, everything else stays
def _env_remove_par(it):
    from pyvc.interp import PyObjV
    from pyvc.core import Opaque
    from pyvc import source

    pm = source.load("programs")
    prog = PyObjV("Program", pm, {"name": "prog", "target_pops": ["pop"], "target_comps": ["comp", "other_comp"]})
    progset = PyObjV("ProgramSet", pm, {"programs": {"prog": prog}, "pars": {"par": None, "other_par": None}, "pops": {"pop": None, "other": None}, "comps": {"comp": None, "other_comp": None},
                                         "covouts": {("par", "pop"): Opaque("a"), ("par", "other"): Opaque("b"), ("other_par", "pop"): Opaque("c")}})
    return {"self": progset, "prog": prog, "name": "x"}


CONTRACTS["programs:ProgramSet.remove_par#two_parameters_two_populations"] = dict(
    schema=schema, make_env=_env_remove_par, ghost_params={"CODE": "const:'par'"}, stubs={"self._get_code_name(name)": "CODE"},
    ensures=[
        ("C16.parameter_and_all_its_outcomes_are_gone", "'par' not in self.pars and all(k[0] != 'par' for k in self.covouts.keys())"),
        ("C16.other_parameters_keep_their_outcomes", "'other_par' in self.pars and ('other_par', 'pop') in self.covouts and len(self.covouts) == 1 and len(self.pops) == 2"),
    ],
    defined_props=["C16"])
CONTRACTS["programs:ProgramSet.remove_comp#two_compartments"] = dict(
    schema=schema, make_env=_env_remove_par, ghost_params={"CODE": "const:'comp'"}, stubs={"self._get_code_name(name)": "CODE"},
    ensures=[
        ("C16.compartment_is_gone_from_the_program_set_and_the_targets", "'comp' not in self.comps and 'comp' not in prog.target_comps"),
        ("C16.other_compartments_stay_targeted", "'other_comp' in self.comps and prog.target_comps == ['other_comp'] and len(self.covouts) == 3"),
    ],
    defined_props=["C16"])


# ---- Covout.__init__ (C12 "a combination's outcome is the explicitly specified value where given"; C16: how an effects row becomes an object): the
# interaction text `p0 + p1 = 0.9, p0+p2=0.5` becomes one explicit outcome per named combination, stored RELATIVE to the baseline; a name that is
# not a program of the entry is refused; the default coverage interaction is additive and an unknown one is refused; the outcome cache is built
def _env_covout_init(cov, imp, progs=("p0", "p1", "p2")):
    def make(it):
        from pyvc.interp import PyObjV
        from pyvc import source

        B = z3.Real("baseline")
        outs = {p: z3.Real("out_%s" % p) for p in progs}
        return {"self": PyObjV("Covout", source.load("programs"), {}), "par": "par", "pop": "adults", "progs": dict(outs), "cov_interaction": cov, "imp_interaction": imp,
                "uncertainty": z3.Real("sigma"), "baseline": B, "B": B, "OUTS": outs, "BUILT": []}

    return make


def _ghost_update_outcomes(it):
    it.live_env["BUILT"].append(dict(it.stub_receiver.fields["_interactions"]))


_cs = {"self.update_outcomes": _ghost_update_outcomes, "float": (lambda it, s: float(s) if isinstance(s, str) else s)}
for _tag, _cov, _imp, _exc, _clauses in (
        ("two_explicit_outcomes", None, "p0 + p1 = 0.9, p0+p2=0.5", None,
         [("C12.each_named_combination_gets_its_explicit_outcome_relative_to_baseline", "len(self._interactions) == 2 and self._interactions[frozenset(['p0', 'p1'])] == 0.9 - B and self._interactions[frozenset(['p0', 'p2'])] == 0.5 - B"),
          ("C12.the_default_coverage_interaction_is_additive", "self.cov_interaction == 'additive'")]),
        ("no_interaction_text", "nested", None, None, [("C12.no_explicit_outcomes_without_an_interaction_text", "len(self._interactions) == 0 and self.cov_interaction == 'nested'")]),
        ("best_keyword", "random", "Best", None, [("C12.the_keyword_best_means_no_explicit_outcome", "len(self._interactions) == 0 and self.cov_interaction == 'random'")]),
        ("unknown_program_in_the_text", None, "p0+p9=0.9", "AssertionError", []),
        ("unknown_coverage_interaction", "sequential", None, "AssertionError", [])):
    CONTRACTS["programs:Covout.__init__#%s" % _tag] = dict(
        schema=schema, make_env=_env_covout_init(_cov, _imp), call_stubs=_cs,
        raises=({_exc: "True"} if _exc else {}), raises_props=["C12", "C18"],
        ensures=_clauses + ([] if _exc else [("C12+C16.the_entry_keeps_what_it_was_given_and_builds_its_outcome_cache_last",
                                              "self.par == 'par' and self.pop == 'adults' and self.baseline == B and self.progs == OUTS and self.progs is not progs and len(BUILT) == 1 and BUILT[0] == self._interactions")]),
        defined_props=["C12", "C16", "C18"])


def _replay_covout_init(model, contract):
    """replay on the REAL Covout constructor: two explicit combination outcomes, and a look at what each combination is given"""
    import atomica as at

    c = at.programs.Covout(par="par", pop="adults", cov_interaction=None, imp_interaction="p0 + p1 = 0.9, p0+p2=0.5", baseline=0.25, progs={"p0": 0.5, "p1": 0.75, "p2": 0.375})
    want = {frozenset(["p0", "p1"]): 0.9 - 0.25, frozenset(["p0", "p2"]): 0.5 - 0.25}
    got = {k: float(v) for k, v in c._interactions.items()}
    bad = ["%s: given %r, stored %r" % ("+".join(sorted(k)), w, got.get(k)) for k, w in want.items() if got.get(k) != w] + ["unexpected entry %s" % "+".join(sorted(k)) for k in got if k not in want]
    return dict(verdict="violates" if bad else "holds", detail="; ".join(bad) or "both explicit outcomes are stored relative to the baseline", prestate=dict(imp_interaction="p0 + p1 = 0.9, p0+p2=0.5", baseline=0.25))


CONTRACTS["programs:Covout.__init__#two_explicit_outcomes"]["replay_hook"] = _replay_covout_init


def _replay_remove_comp_by_label(model, contract):
    """replay on the REAL ProgramSet.remove_comp, called with the compartment's full name (which the method accepts): afterwards no program targets the compartment"""
    import logging
    import warnings

    warnings.filterwarnings("ignore")
    import atomica as at

    at.logger.setLevel(logging.ERROR)
    P = at.demo("tb_simple", do_run=False)
    ps = P.progsets[0].copy()
    code = next(c for c in ps.comps if any(c in p.target_comps for p in ps.programs.values()))
    label = ps.comps[code]["label"]
    ps.remove_comp(label)
    still = [p.name for p in ps.programs.values() if code in p.target_comps]
    pre = dict(program_book="tb_simple", removed_by_label=label, code_name=code)
    if code in ps.comps or still:
        return dict(verdict="violates", detail="after remove_comp(%r) the compartment %r is %s and still targeted by %r" % (label, code, "listed" if code in ps.comps else "no longer listed", still), prestate=pre)
    return dict(verdict="holds", detail="the compartment is gone from the table and from every program's targets", prestate=pre)


CONTRACTS["programs:ProgramSet.remove_comp#two_compartments"]["replay_hook"] = _replay_remove_comp_by_label
