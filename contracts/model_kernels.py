"""
Contracts on the per-step numerical kernels of atomica/model.py (properties C01 C02 C03 C04 C05).

Clause names are "<property>.<what>"; a clause belongs to the property in its prefix ("C01+C02.x" to both).
Top-level postconditions are taken from the property statements; requires / frames / shapes from the code and
its call sites (Model.update_links, Model.update_comps, Model.process).
"""
schema = "model_schema"

# well-formedness of `self` as a compartment at time index ti (type/shape invariants established by preallocate)
_ti_ok = ["0 <= ti", "ti < len(self.vals)"]
_links_ti_ok = "all(ti < len(l.vals) for l in self.outlinks)"
_plain_out = "all(not isinstance(l, TimedLink) for l in self.outlinks)"

CONTRACTS = {}

CONTRACTS["model:Compartment.resolve_outflows"] = dict(
    schema=schema,
    params={"ti": "int"},
    requires=_ti_ok + [_links_ti_ok, _plain_out,
                       "self.vals[ti] >= 0",                                   # state_ok(ti): stocks are non-negative
                       "all(l._cache >= 0 for l in self.outlinks)"],           # update_links: fractions are non-negative
    modifies=["self._cached_outflow", "l.vals[ti] for l in self.outlinks"],
    ensures=[
        ("C01.outflow_is_sum_of_links", "self._cached_outflow == sum(l.vals[ti] for l in self.outlinks)"),
        ("C02.flows_nonneg", "all(l.vals[ti] >= 0 for l in self.outlinks)"),
        ("C02.no_overdraw", "self._cached_outflow <= self.vals[ti]"),
        ("C02.common_rescale", "all(a.vals[ti] * b._cache == b.vals[ti] * a._cache for a in self.outlinks for b in self.outlinks)"),
        ("C03.fraction_to_people", "all(l.vals[ti] * max(1, sum(x._cache for x in self.outlinks)) == l._cache * self.vals[ti] for l in self.outlinks)"),
    ],
    frame_props=["C01", "C02"],
    defined_props=["C02"],
)

CONTRACTS["model:SourceCompartment.resolve_outflows"] = dict(
    schema=schema,
    params={"ti": "int"},
    requires=["0 <= ti", _links_ti_ok, _plain_out, "all(l._cache >= 0 for l in self.outlinks)"],
    modifies=["l.vals[ti] for l in self.outlinks"],
    ensures=[
        ("C03.source_emits_cache", "all(l.vals[ti] == l._cache for l in self.outlinks)"),
        ("C02.flows_nonneg", "all(l.vals[ti] >= 0 for l in self.outlinks)"),
    ],
    frame_props=["C01", "C02", "C03"],
    defined_props=["C02"],
)

# x(ti) = x(ti-1) - outflow(ti-1) + inflow(ti-1); under state_ok the clip branch is not taken, so the balance is exact
CONTRACTS["model:Compartment.update"] = dict(
    schema=schema,
    params={"ti": "int"},
    requires=["1 <= ti", "ti < len(self.vals)", "all(ti - 1 < len(l.vals) for l in self.inlinks)",
              "self.vals[ti - 1] >= 0", "self._cached_outflow <= self.vals[ti - 1]", "self._cached_outflow >= 0",
              "all(l.vals[ti - 1] >= 0 for l in self.inlinks)"],
    modifies=["self.vals[ti]"],
    ensures=[
        ("C01.balance", "self.vals[ti] == self.vals[ti - 1] - self._cached_outflow + sum(l.vals[ti - 1] for l in self.inlinks)"),
        ("C02.stock_nonneg", "self.vals[ti] >= 0"),
    ],
    frame_props=["C01", "C02"],
    defined_props=["C02"],
)

CONTRACTS["model:SinkCompartment.update"] = dict(
    schema=schema,
    params={"ti": "int"},
    requires=["1 <= ti", "ti < len(self.vals)", "all(ti - 1 < len(l.vals) for l in self.inlinks)",
              "self.vals[ti - 1] >= 0", "all(l.vals[ti - 1] >= 0 for l in self.inlinks)"],
    modifies=["self.vals[ti]"],
    ensures=[
        ("C01.balance", "self.vals[ti] == self.vals[ti - 1] + sum(l.vals[ti - 1] for l in self.inlinks)"),
        ("C02.stock_nonneg", "self.vals[ti] >= 0"),
    ],
    frame_props=["C01", "C02"],
    defined_props=["C02"],
)
