"""
Contracts on the per-step numerical kernels of atomica/model.py (properties C01 C02 C03 C04 C05).

Clause names are "<property>.<what>"; a clause belongs to the property in its prefix ("C01+C02.x" to both).
Top-level postconditions are taken from the property statements; requires / frames / shapes from the code and
its call sites (Model.update_links, Model.update_comps, Model.process).
"""
schema = "model_schema"

# well-formedness of `self` as a compartment at time index ti (type/shape invariants established by preallocate)
_ti_ok = ["0 <= ti", "ti < len(self.vals)"]
_links_ti_ok = "all(ti < len(l.vals) for l in self.outlinks)"
_plain_out = "all(not isinstance(l, TimedLink) for l in self.outlinks)"

CONTRACTS = {}

CONTRACTS["model:Compartment.resolve_outflows"] = dict(
    schema=schema,
    params={"ti": "int"},
    requires=_ti_ok + [_links_ti_ok, _plain_out,
                       "self.vals[ti] >= 0",                                   # state_ok(ti): stocks are non-negative
                       "all(l._cache >= 0 for l in self.outlinks)"],           # update_links: fractions are non-negative
    modifies=["self._cached_outflow", "l.vals[ti] for l in self.outlinks"],
    ensures=[
        ("C01.outflow_is_sum_of_links", "self._cached_outflow == sum(l.vals[ti] for l in self.outlinks)"),
        ("C02.flows_nonneg", "all(l.vals[ti] >= 0 for l in self.outlinks)"),
        ("C01+C02.no_overdraw", "self._cached_outflow <= self.vals[ti]"),   # Compartment.update relies on it: the clip branch is then dead
        # (stated over the fractions the function was GIVEN: old(...) -- a change that tampers with the cached fractions before using
        # them must fail these clauses, not only the frame)
        ("C02.common_rescale", "all(a.vals[ti] * old(b._cache) == b.vals[ti] * old(a._cache) for a in self.outlinks for b in self.outlinks)"),
        ("C03.fraction_to_people", "all(l.vals[ti] * max(1, old(sum(x._cache for x in self.outlinks))) == old(l._cache) * self.vals[ti] for l in self.outlinks)"),
    ],
    frame_props=["C01", "C02", "C03"],
    defined_props=["C02"],
)

CONTRACTS["model:SourceCompartment.resolve_outflows"] = dict(
    schema=schema,
    params={"ti": "int"},
    requires=["0 <= ti", _links_ti_ok, _plain_out, "all(l._cache >= 0 for l in self.outlinks)"],
    modifies=["l.vals[ti] for l in self.outlinks"],
    ensures=[
        ("C03.source_emits_cache", "all(l.vals[ti] == old(l._cache) for l in self.outlinks)"),
        ("C02.flows_nonneg", "all(l.vals[ti] >= 0 for l in self.outlinks)"),
    ],
    frame_props=["C01", "C02", "C03"],
    defined_props=["C02"],
)

# x(ti) = x(ti-1) - outflow(ti-1) + inflow(ti-1); under state_ok the clip branch is not taken, so the balance is exact
CONTRACTS["model:Compartment.update"] = dict(
    schema=schema,
    params={"ti": "int"},
    requires=["1 <= ti", "ti < len(self.vals)", "all(ti - 1 < len(l.vals) for l in self.inlinks)",
              "self.vals[ti - 1] >= 0", "self._cached_outflow <= self.vals[ti - 1]", "self._cached_outflow >= 0",
              "all(l.vals[ti - 1] >= 0 for l in self.inlinks)"],
    modifies=["self.vals[ti]"],
    ensures=[
        ("C01.balance", "self.vals[ti] == self.vals[ti - 1] - self._cached_outflow + sum(l.vals[ti - 1] for l in self.inlinks)"),
        ("C02.stock_nonneg", "self.vals[ti] >= 0"),
    ],
    frame_props=["C01", "C02"],
    defined_props=["C02"],
)

CONTRACTS["model:SinkCompartment.update"] = dict(
    schema=schema,
    params={"ti": "int"},
    requires=["1 <= ti", "ti < len(self.vals)", "all(ti - 1 < len(l.vals) for l in self.inlinks)",
              "self.vals[ti - 1] >= 0", "all(l.vals[ti - 1] >= 0 for l in self.inlinks)"],
    modifies=["self.vals[ti]"],
    ensures=[
        ("C01.balance", "self.vals[ti] == self.vals[ti - 1] + sum(l.vals[ti - 1] for l in self.inlinks)"),
        ("C02.stock_nonneg", "self.vals[ti] >= 0"),
    ],
    frame_props=["C01", "C02"],
    defined_props=["C02"],
)

# ------------------------------------------------------------------------------------------------ junctions
# Plain junction outside a duration group.  Domain restriction of C01/C04: when people enter, sum(p) > 0.
_j_common = ["0 <= ti", "all(l.parameter is not None for l in self.outlinks)",
             "all(ti < len(l.parameter.vals) for l in self.outlinks)",
             "all(l.parameter.vals[ti] >= 0 for l in self.outlinks)"]            # proportions are clipped to [0, inf) by the framework limits
_inflow = "sum(il.vals[ti] for il in self.inlinks)"
_psum = "sum(l.parameter.vals[ti] for l in self.outlinks)"

CONTRACTS["model:JunctionCompartment.balance#plain"] = dict(
    schema=schema,
    self_classes=["JunctionCompartment"],
    params={"ti": "int"},
    requires=_j_common + ["self.duration_group is None", _plain_out, _links_ti_ok,
                          "all(ti < len(il.vals) for il in self.inlinks)",
                          "all(il.vals[ti] >= 0 for il in self.inlinks)",
                          "all(not isinstance(il, TimedLink) for il in self.inlinks)",
                          "implies(%s > 0, %s > 0)" % (_inflow, _psum)],
    modifies=["l.vals[ti] for l in self.outlinks"],
    ensures=[
        ("C04.split_by_normalised_proportion", "all(l.vals[ti] * old(%s) == old(%s) * old(l.parameter.vals[ti]) for l in self.outlinks)" % (_psum, _inflow)),
        ("C01+C04.passes_on_what_it_receives", "implies(old(%s) > 0, sum(l.vals[ti] for l in self.outlinks) == old(%s))" % (_psum, _inflow)),
        ("C02.flows_nonneg", "all(l.vals[ti] >= 0 for l in self.outlinks)"),
    ],
    frame_props=["C01", "C02", "C04"],
    defined_props=["C02"],
)

# Junction inside a duration group: every link in and out is a TimedLink with the group's number of rows R; the split is per row.
_inflow_row = "sum(il._vals[i, ti] for il in self.inlinks)"
CONTRACTS["model:JunctionCompartment.balance#group"] = dict(
    schema=schema,
    self_classes=["JunctionCompartment"],
    params={"ti": "int"},
    ghost_params={"R": "int"},
    requires=_j_common + ["self.duration_group is not None", "self.duration_group != ''", "R >= 1",
                          "all(isinstance(l, TimedLink) for l in self.outlinks)", "all(isinstance(il, TimedLink) for il in self.inlinks)",
                          "all(l._vals.shape[0] == R and ti < l._vals.shape[1] for l in self.outlinks)",
                          "all(il._vals.shape[0] == R and ti < il._vals.shape[1] for il in self.inlinks)",
                          "all(il._vals[i, ti] >= 0 for il in self.inlinks for i in range(R))",
                          "all(implies(%s > 0, %s > 0) for i in range(R))" % (_inflow_row, _psum)],
    modifies=["l._vals[:, ti] for l in self.outlinks"],
    ensures=[
        ("C04+C05.split_per_row", "all(l._vals[i, ti] * old(%s) == old(%s) * old(l.parameter.vals[ti]) for l in self.outlinks for i in range(R))" % (_psum, _inflow_row)),
        ("C01+C04.passes_on_per_row", "all(implies(old(%s) > 0, sum(l._vals[i, ti] for l in self.outlinks) == old(%s)) for i in range(R))" % (_psum, _inflow_row)),
        ("C02.flows_nonneg", "all(l._vals[i, ti] >= 0 for l in self.outlinks for i in range(R))"),
    ],
    frame_props=["C01", "C02", "C04"],
    defined_props=["C02"],
)

# ------------------------------------------------------------------------------------------------ unit conversion (C03)
# Contract on the body of the loop `for par in self._exec_order['transition_pars']` of Model.update_links, for an arbitrary
# transition parameter.  The documented conversion (docs/general/Parameters.rst, property C03):
#   probability / rate p, timescale T:  fraction p*dt/T        duration d: fraction dt/(d*T)
#   number N: N*dt/T people, shared over the source compartments in proportion to their size (fraction N*dt/T / total size,
#   0 if nobody is there); a source compartment emits N*dt/T itself.   A negative value moves nobody.
_conv_requires = ["0 <= ti", "ti < len(par.vals)", "self.dt > 0", "par.timescale > 0", "len(par.links) > 0",
                  "all(implies(not isinstance(l.source, TimedCompartment) and not isinstance(l.source, SourceCompartment), ti < len(l.source.vals) and l.source.vals[ti] >= 0) for l in par.links)",
                  "all(implies(isinstance(l.source, SourceCompartment), ti < len(l.source.vals) and l.source.vals[ti] == 0) for l in par.links)",   # SourceCompartment.preallocate fills 0
                  "all(implies(isinstance(l.source, TimedCompartment), ti < l.source._vals.shape[1] and l.source._vals.shape[0] >= 1) for l in par.links)",
                  "all(l.source._vals[i, ti] >= 0 for l in par.links if isinstance(l.source, TimedCompartment) for i in range(l.source._vals.shape[0]))",
                  # representation invariant of the source-size cache: an entry for this time index holds the current total of the
                  # parameter's source compartments (its establishment is an obligation of whoever changes compartment sizes at ti:
                  # see Model.flush_junctions below)
                  "implies(par._source_popsize_cache_time is not None and par._source_popsize_cache_time == ti, par._source_popsize_cache_val == sum(l.source[ti] for l in par.links))"]
_popsize = "sum(l.source[ti] for l in par.links)"
CONTRACTS["model:Model.update_links#conversion"] = dict(
    schema=schema,
    fragment={"iter": "self._exec_order['transition_pars']"},
    params={"par": "obj:Parameter", "ti": "int"},
    requires=_conv_requires,
    modifies=["l._cache for l in par.links", "par._source_popsize_cache_time", "par._source_popsize_cache_val"],
    raises={"ModelError": "par.units != 'rate' and par.units != 'probability' and par.units != 'number' and par.units != 'duration' and par.vals[ti] > 0"},
    ensures=[
        ("C03.rate_probability", "implies(par.units == 'rate' or par.units == 'probability', all(l._cache == max(0, old(par.vals[ti])) * self.dt / par.timescale for l in par.links))"),
        ("C03.duration", "implies(par.units == 'duration', all(l._cache == (self.dt / (old(par.vals[ti]) * par.timescale) if old(par.vals[ti]) > 0 else 0) for l in par.links))"),
        ("C03.number_from_source", "implies(par.units == 'number' and isinstance(par.links[0].source, SourceCompartment), par.links[0]._cache == max(0, old(par.vals[ti])) * self.dt / par.timescale)"),
        ("C03.number_shared", "implies(par.units == 'number' and not isinstance(par.links[0].source, SourceCompartment) and old(par.vals[ti]) > 0, "
                              "all(l._cache * old(%s) == (old(par.vals[ti]) * self.dt / par.timescale if old(%s) != 0 else 0) for l in par.links))" % (_popsize, _popsize)),
        ("C01+C02+C03.negative_moves_nobody", "implies(old(par.vals[ti]) <= 0, all(l._cache == 0 for l in par.links))"),
        ("C01+C02.fraction_nonneg", "implies(not (par.units == 'number' and isinstance(par.links[0].source, SourceCompartment)), all(l._cache >= 0 for l in par.links))"),
    ],
    frame_props=["C01", "C02", "C03"],
    defined_props=["C02"],
    raises_props=["C03"],
)

# ------------------------------------------------------------------------------------------------ timed compartments
# The keyring matrix _vals has R rows (elapsed-time bins); row 0 is about to be flushed, arrivals enter row R-1.
_timed_self = ["R >= 1", "self._vals.shape[0] == R", "0 <= ti", "ti < self._vals.shape[1]"]
_timed_out = ["all(implies(isinstance(l, TimedLink), l._vals.shape[0] == R and ti < l._vals.shape[1]) for l in self.outlinks)",
              "all(implies(not isinstance(l, TimedLink), ti < len(l.vals)) for l in self.outlinks)",
              "self.flush_link in self.outlinks", "not isinstance(self.flush_link, TimedLink)", "ti < len(self.flush_link.vals)"]

CONTRACTS["model:TimedCompartment.resolve_outflows"] = dict(
    schema=schema,
    params={"ti": "int"},
    ghost_params={"R": "int"},
    requires=_timed_self + _timed_out + [
        "all(self._vals[i, ti] >= 0 for i in range(R))",
        "all(l._cache >= 0 for l in self.outlinks)"],
    modifies=["self._cached_outflow", "self.flush_link._cache", "l.vals[ti] for l in self.outlinks", "l._vals[:, ti] for l in self.outlinks"],
    ensures=[
        ("C02.timed_flows_nonneg", "all(l._vals[i, ti] >= 0 for l in self.outlinks if isinstance(l, TimedLink) for i in range(R))"),
        ("C02.plain_flows_nonneg", "all(implies(not isinstance(l, TimedLink), l.vals[ti] >= 0) for l in self.outlinks)"),
        ("C01+C02.no_overdraw_per_row", "all(self._cached_outflow[i] <= self._vals[i, ti] for i in range(1, R))"),   # row 0: C05.row0_emptied
        ("C01+C05.row0_emptied", "self._cached_outflow[0] == self._vals[0, ti]"),
        ("C01+C05.timed_links_skip_row0", "all(implies(isinstance(l, TimedLink), l._vals[0, ti] == 0) for l in self.outlinks)"),
        ("C02.common_rescale_per_row", "all(a._vals[i, ti] * b._cache == b._vals[i, ti] * a._cache for a in self.outlinks if isinstance(a, TimedLink) for b in self.outlinks if isinstance(b, TimedLink) for i in range(1, R))"),
    ],
    frame_props=["C01", "C02"],
    defined_props=["C02"],
)

# Stock update of a timed compartment: every row loses its cached outflow, duration-preserving inflows keep their row, the
# keyring advances by one row and all other inflows enter the last row.  Stated on the total (C01) and per row (C05).
_tr = "ti - 1"
CONTRACTS["model:TimedCompartment.update"] = dict(
    schema=schema,
    params={"ti": "int"},
    ghost_params={"R": "int"},
    requires=["R >= 1", "self._vals.shape[0] == R", "1 <= ti", "ti < self._vals.shape[1]", "len(self._cached_outflow) == R",
              "all(self._vals[i, ti - 1] >= 0 for i in range(R))",
              "all(self._cached_outflow[i] >= 0 and self._cached_outflow[i] <= self._vals[i, ti - 1] for i in range(R))",
              "self._cached_outflow[0] == self._vals[0, ti - 1]",                                   # TimedCompartment.resolve_outflows: C05.row0_emptied
              # duration-preserving inflows come from the same duration group: same number of rows.  (The two branches of the code
              # for a source group with a different duration -- transfers between populations with different durations -- are
              # outside this contract and listed as not decided.)
              "all(implies(isinstance(l, TimedLink), l._vals.shape[0] == R and ti - 1 < l._vals.shape[1]) for l in self.inlinks)",
              "all(l._vals[i, ti - 1] >= 0 for l in self.inlinks if isinstance(l, TimedLink) for i in range(l._vals.shape[0]))",
              "all(implies(isinstance(l, TimedLink), l._vals[0, ti - 1] == 0) for l in self.inlinks)",     # resolve_outflows / balance: C05.timed_links_skip_row0
              "all(implies(not isinstance(l, TimedLink), ti - 1 < len(l.vals) and l.vals[ti - 1] >= 0) for l in self.inlinks)"],
    modifies=["self._vals[:, ti]"],
    ensures=[
        ("C02.rows_nonneg", "all(self._vals[i, ti] >= 0 for i in range(R))"),
        # C01 for a timed compartment is stated row by row (the three clauses below determine every row of the new column from
        # recorded quantities only); adding the rows up needs an index shift and an exchange of two finite sums, which is not
        # mechanised here (DESIGN.md, C01 "not decided").
        ("C01.single_row_balance", "implies(R == 1, self._vals[0, ti] == old(self._vals[0, ti - 1]) - self._cached_outflow[0] + sum(l._vals[0, ti - 1] for l in self.inlinks if isinstance(l, TimedLink)) + sum(l.vals[ti - 1] for l in self.inlinks if not isinstance(l, TimedLink)))"),
        ("C01+C05.last_row_holds_only_restarting_arrivals", "implies(R >= 2, self._vals[R - 1, ti] == sum(l.vals[ti - 1] for l in self.inlinks if not isinstance(l, TimedLink)))"),
        ("C01+C05.keyring_advances_one_row", "all(self._vals[j, ti] == old(self._vals[j + 1, ti - 1]) - self._cached_outflow[j + 1] + sum(l._vals[j + 1, ti - 1] for l in self.inlinks if isinstance(l, TimedLink)) for j in range(R - 1))"),
    ],
    frame_props=["C01", "C02", "C05"],
    defined_props=["C02"],
)

# Residual junction outside a duration group: stated proportions (scaled to 1 when they sum above 1), remainder to the residual link.
_res_P = "sum(l.parameter.vals[ti] for l in self.outlinks if l.parameter is not None)"
CONTRACTS["model:ResidualJunctionCompartment.balance#plain"] = dict(
    schema=schema,
    params={"ti": "int"},
    requires=["0 <= ti", "self.duration_group is None", _plain_out, _links_ti_ok,
              "all(implies(l.parameter is not None, ti < len(l.parameter.vals) and l.parameter.vals[ti] >= 0) for l in self.outlinks)",
              "sum(1 for l in self.outlinks if l.parameter is None) == 1",            # exactly one residual outflow (Population.build)
              "all(ti < len(il.vals) and il.vals[ti] >= 0 for il in self.inlinks)",
              "all(not isinstance(il, TimedLink) for il in self.inlinks)"],
    modifies=["l.vals[ti] for l in self.outlinks"],
    ensures=[
        ("C04.stated_proportion_scaled_to_one", "all(implies(l.parameter is not None, l.vals[ti] * max(1, old(%s)) == old(%s) * old(l.parameter.vals[ti])) for l in self.outlinks)" % (_res_P, _inflow)),
        ("C04.residual_gets_remainder", "all(implies(l.parameter is None, l.vals[ti] == old(%s) * max(0, 1 - old(%s))) for l in self.outlinks)" % (_inflow, _res_P)),
        ("C02.flows_nonneg", "all(l.vals[ti] >= 0 for l in self.outlinks)"),
        # C01 "a junction passes on exactly what it receives"; for C02 this is the junction's form of "the people leaving never exceed the people present"
        ("C01+C02+C04.passes_on_exactly_what_it_receives", "sum(l.vals[ti] for l in self.outlinks) == old(%s)" % _inflow),
    ],
    frame_props=["C01", "C02", "C04"],
    defined_props=["C02"],
)

# Residual junction inside a duration group: the same rule per elapsed-time row (every link in and out is a TimedLink with R rows)
CONTRACTS["model:ResidualJunctionCompartment.balance#group"] = dict(
    schema=schema,
    params={"ti": "int"},
    ghost_params={"R": "int"},
    requires=["0 <= ti", "self.duration_group is not None", "self.duration_group != ''", "R >= 1",
              "all(isinstance(l, TimedLink) for l in self.outlinks)", "all(isinstance(il, TimedLink) for il in self.inlinks)",
              "all(l._vals.shape[0] == R and ti < l._vals.shape[1] for l in self.outlinks)",
              "all(il._vals.shape[0] == R and ti < il._vals.shape[1] for il in self.inlinks)",
              "all(implies(l.parameter is not None, ti < len(l.parameter.vals) and l.parameter.vals[ti] >= 0) for l in self.outlinks)",
              "sum(1 for l in self.outlinks if l.parameter is None) == 1",
              "all(il._vals[i, ti] >= 0 for il in self.inlinks for i in range(R))"],
    modifies=["l._vals[:, ti] for l in self.outlinks"],
    ensures=[
        ("C04+C05.stated_proportion_scaled_to_one_per_row", "all(implies(l.parameter is not None, l._vals[i, ti] * max(1, old(%s)) == old(%s) * old(l.parameter.vals[ti])) for l in self.outlinks for i in range(R))" % (_res_P, _inflow_row)),
        ("C01+C04.residual_gets_the_remainder_of_its_own_row", "all(implies(l.parameter is None, l._vals[i, ti] == old(%s) * max(0, 1 - old(%s))) for l in self.outlinks for i in range(R))" % (_inflow_row, _res_P)),
        ("C02.flows_nonneg", "all(l._vals[i, ti] >= 0 for l in self.outlinks for i in range(R))"),
        ("C01+C02+C04+C05.passes_on_exactly_what_it_receives_per_row", "all(sum(l._vals[i, ti] for l in self.outlinks) == old(%s) for i in range(R))" % _inflow_row),
    ],
    frame_props=["C01", "C02", "C04"],
    defined_props=["C02"],
)

# ------------------------------------------------------------------------------------------------ number of rows (C05, FPSTD)
# rows = max(1, n) with n in the band around q = D/dt (D = duration * timescale * scale factor, exact reals), m = max(1, q):
#   q - 1e-6*m <= n < q + 1 - 1e-12*m      (n = k when D is exactly k steps; ceil(q) away from integers; grey zone in between)
_D = "(self.parameter.vals[0] * self.parameter.timescale * self.parameter.scale_factor)"
CONTRACTS["model:TimedCompartment.preallocate"] = dict(
    schema=schema, mode="FPSTD",
    params={"tvec": "arr1", "dt": "real"},
    requires=["len(self.parameter.vals) >= 1", "dt >= 1/1000", "dt <= 100", "self.parameter.vals[0] >= 0", "self.parameter.vals[0] <= 10000",
              "self.parameter.timescale >= 1/1000", "self.parameter.timescale <= 1000", "self.parameter.scale_factor >= 1/1000", "self.parameter.scale_factor <= 1000",
              "%s / dt <= 500" % _D],     # up to 500 rows: the code snaps to a whole number of steps within an absolute 1e-9, the band is relative
    modifies=["self._vals", "self.t", "self.dt"],
    raises={"AssertionError": "not all(self.parameter.vals[i] == self.parameter.vals[0] for i in range(len(self.parameter.vals)))"},
    ensures=[
        ("C05.at_least_one_row", "self._vals.shape[0] >= 1"),
        ("C05.no_fewer_rows_than_steps", "self._vals.shape[0] >= %s / dt - max(1, %s / dt) / 1000000" % (_D, _D)),
        # "a whole number of steps is not rounded up" (n = k when D is k steps up to rounding error) and "D < dt gives one row":
        # the FPSTD obligations of the ceil() branch stay undecided in z3/cvc5 (ToInt mixed with products of rounding terms);
        # they are covered by the BOUNDED sweep _bounded_row_count below -- labelled bounded, not counted as proved.
        ("C05.one_column_per_time_point", "self._vals.shape[1] == len(tvec)"),
    ],
    frame_props=["C05"],
    defined_props=["C05"],
    raises_props=["C05"],
)


def _bounded_row_count(tier="quick", seed=0):
    """BOUNDED stand-in for the row count of timed compartments / timed links on real doubles (exact rational oracle)"""
    import math, random, time
    from fractions import Fraction as F
    from types import SimpleNamespace
    import numpy as np
    import atomica.model as am

    t0 = time.time()
    rng = random.Random(seed)
    cases = [(5 / 12, 1 / 12), (1.0, 0.25), (0.5, 0.25), (0.3, 0.1), (0.7, 0.1), (2.0, 1 / 12), (1 / 12, 1 / 12), (0.01, 0.25), (3.0, 0.3), (10.0, 1 / 52), (0.25, 0.25), (1.1, 0.1), (0.0, 0.25)]
    for _ in range(300 if tier == "quick" else 6000):
        dt = rng.choice([1 / 12, 0.25, 0.1, 0.2, 0.05, 1 / 52, 1 / 365, 0.3, 0.7, 1.0])
        k = rng.randint(1, 400)
        cases.append((k * dt, dt))
        cases.append((k * dt * rng.uniform(1.001, 1.9) if k == 1 else (k - rng.uniform(0.01, 0.99)) * dt, dt))
    bad = []
    for D, dt in cases:
        pop = SimpleNamespace(name="pop", links=[], link_lookup={}, par_lookup={})
        par = am.Parameter(pop, "dur")
        tvec = np.arange(0, 5) * dt
        par.preallocate(tvec, dt)
        par.vals[:] = D
        comp = am.TimedCompartment(pop, "c", par)
        comp.preallocate(tvec, dt)
        rows = comp._vals.shape[0]
        q = F(D) / F(dt)
        k = round(q)
        if abs(q - k) <= max(1, k) * F(1, 10 ** 12):
            want = {max(1, k)}
        elif q < 1:
            want = {1}
        else:
            want = {math.ceil(q)} | ({math.ceil(q) - 1} if q - (math.ceil(q) - 1) <= max(F(1), q) / 10 ** 6 else set())
        if rows not in want:
            bad.append(dict(duration=D, dt=dt, rows=rows, expected=sorted(want), exact_quotient=float(q)))
    ob = dict(function="model:TimedCompartment.preallocate (bounded sweep)", name="BOUNDED.row_count_on_%d_double_inputs" % len(cases), kind="bounded", status="proved" if not bad else "refuted",
              seconds=round(time.time() - t0, 2), backend="bounded-enumeration", note="bounded stand-in: %d concrete (duration, dt) pairs on real TimedCompartment objects, exact rational oracle; not counted as proved" % len(cases))
    if bad:
        ob["replay"] = dict(verdict="violates", detail="first failing inputs: %r" % bad[:3], prestate=bad[0])
    return [ob]


EXTRA_CHECKS = {"C05": _bounded_row_count}


# ------------------------------------------------------------------------------------------------ initialisation (C07)
# Contract on the body of `for i, obj in enumerate(b_objs)` of Population.initialize_compartments for a characteristic with a
# denominator: the target value is  value * y_factor * meta_y_factor  of the characteristic times the same product of its
# denominator (every factor taken from the right parameter).  ParameterSet lookups are external: stubbed by ghost values.
def _b_env(it):
    from pyvc.interp import PyObjV
    from pyvc.core import Opaque
    from pyvc import source

    m = source.load("model")
    denom = PyObjV("Characteristic", m, {"name": "denominator", "denominator": None})
    obj = PyObjV("Characteristic", m, {"name": "charac", "denominator": denom})
    selfp = PyObjV("Population", m, {"name": "pop"})
    return {"obj": obj, "self": selfp, "parset": Opaque("parset"), "t_init": 2000.0, "comp_indices": {}, "A": Opaque("A"), "PAR": Opaque("par"), "DPAR": Opaque("denom_par"), "NOCOMPS": []}


class _NS:
    pass


def _prep_target(env):
    """replay: real Characteristic objects and a stand-in ParameterSet whose entries answer with the ghost values"""
    import numpy as np
    import atomica.model as am

    def par(v, yf, myf):
        p = _NS()
        p.interpolate = lambda t, pop_name=None, v=v: np.array([v], dtype=float)
        p.y_factor = {"pop": yf}
        p.meta_y_factor = myf
        return p

    denom = object.__new__(am.Characteristic)
    denom.id, denom.includes, denom.denominator, denom._vals = ("pop", "denominator"), [], None, None
    obj = object.__new__(am.Characteristic)
    obj.id, obj.includes, obj.denominator, obj._vals = ("pop", "charac"), [], denom, None
    parset = _NS()
    parset.pars = {"charac": par(env.get("V", 0.0), env.get("YF", 1.0), env.get("MYF", 1.0)), "denominator": par(env.get("DV", 0.0), env.get("DYF", 1.0), env.get("DMYF", 1.0))}
    pop = _NS()
    pop.name = "pop"
    n = max(1, len(env.get("b", [0.0])))
    env.update(obj=obj, parset=parset, self=pop, t_init=2000.0, comp_indices={}, A=np.zeros((n, 1)), b=np.array(env.get("b", [0.0]), dtype=float), Characteristic=am.Characteristic)


CONTRACTS["model:Population.initialize_compartments#target_of_fraction"] = dict(
    replay_prepare=_prep_target,
    schema=schema, fragment={"iter": "enumerate(b_objs)"}, make_env=_b_env,
    params={"b": "arr1", "i": "int"},
    ghost_params={"V": "real", "YF": "real", "MYF": "real", "DV": "real", "DYF": "real", "DMYF": "real"},
    stubs={"parset.pars[obj.name]": "PAR", "parset.pars[obj.denominator.name]": "DPAR", "obj.get_included_comps()": "NOCOMPS",
           "par.interpolate(t_init, pop_name=self.name)[0]": "V", "par.y_factor[self.name]": "YF", "par.meta_y_factor": "MYF",
           "denom_par.interpolate(t_init, pop_name=self.name)[0]": "DV", "denom_par.y_factor[self.name]": "DYF", "denom_par.meta_y_factor": "DMYF"},
    requires=["0 <= i", "i < len(b)"],
    ensures=[("C07+C06.fraction_target_is_value_times_factors_times_calibrated_denominator", "b[i] == V * YF * MYF * (DV * DYF * DMYF)")],
    defined_props=["C07", "C06"])


# Characteristic.update: value = sum of the included quantities, divided by the denominator (0 for 0/0, inf for x/0)
CONTRACTS["model:Characteristic.update"] = dict(
    schema=schema,
    schema_override={"Characteristic": {"includes": "list:Compartment", "denominator": "ref?:Compartment"}},
    params={"ti": "int"},
    requires=["0 <= ti", "self._vals is not None", "ti < len(self._vals)",
              "all(not isinstance(c, TimedCompartment) and ti < len(c.vals) and c.vals[ti] >= 0 for c in self.includes)",   # (timed members: the row sum, covered by C01 row contracts)
              "self.denominator is None or (not isinstance(self.denominator, TimedCompartment) and ti < len(self.denominator.vals) and self.denominator.vals[ti] > 0)"],
    modifies=["self._vals[ti]"],
    ensures=[
        ("C07.characteristic_is_sum_of_members", "implies(self.denominator is None, self._vals[ti] == sum(c.vals[ti] for c in self.includes))"),
        ("C07.characteristic_is_sum_over_denominator", "implies(self.denominator is not None, self._vals[ti] * self.denominator.vals[ti] == sum(c.vals[ti] for c in self.includes))"),
    ],
    frame_props=["C07"], defined_props=["C07"])


# ------------------------------------------------------------------------------------------------ initial flush (C04, C10)
# An empty junction flushes nothing: no compartment (in particular no elapsed-time row of a timed compartment) is touched.
# This is the clause a restart relies on (C10): after apply(from_result(...)) every junction holds 0, so the start-up sequence
# update_pars -> flush_junctions -> update_pars -> update_links leaves all stocks exactly as saved.
for _cls in ("JunctionCompartment", "ResidualJunctionCompartment"):
    CONTRACTS["model:%s.initial_flush#empty" % _cls] = dict(
        schema=schema,
        params={},
        requires=["len(self.vals) >= 1", "self.vals[0] == 0"] + (["all(l.parameter is not None for l in self.outlinks)"] if _cls == "JunctionCompartment" else []) + [
                  "all(implies(l.parameter is not None, len(l.parameter.vals) >= 1 and l.parameter.vals[0] >= 0) for l in self.outlinks)",
                  "all(implies(not isinstance(l.dest, TimedCompartment), len(l.dest.vals) >= 1) for l in self.outlinks)",
                  "all(implies(isinstance(l.dest, TimedCompartment), l.dest._vals.shape[0] >= 1 and l.dest._vals.shape[1] >= 1) for l in self.outlinks)"],
        modifies=[],
        ensures=[("C04+C10.empty_junction_stays_empty", "self.vals[0] == 0")],
        frame_props=["C04", "C10"], defined_props=["C04"])

    # the same clause with the number of outgoing links fixed (n = 1, 2) and the loop unrolled: a flush that runs although the
    # junction is empty is then executed link by link (it re-spreads the rows of a timed destination) instead of being undecided
    for _n in (1, 2):
        CONTRACTS["model:%s.initial_flush#empty_n%d" % (_cls, _n)] = dict(
            CONTRACTS["model:%s.initial_flush#empty" % _cls], unroll_max=3,
            requires=CONTRACTS["model:%s.initial_flush#empty" % _cls]["requires"] + ["len(self.outlinks) == %d" % _n])


# The non-empty flush, complete for each number of outgoing links n = 1, 2 (the list length is fixed by the precondition and
# the loop is unrolled: `unroll_max`); destinations may be plain, junction or timed compartments and may coincide.
_flush_req = ["len(self.vals) >= 1", "self.vals[0] > 0",
              "all(l.dest is not self for l in self.outlinks)",
              "all(implies(not isinstance(l.dest, TimedCompartment), len(l.dest.vals) >= 1) for l in self.outlinks)",
              "all(implies(isinstance(l.dest, TimedCompartment), l.dest._vals.shape[0] >= 1 and l.dest._vals.shape[1] >= 1) for l in self.outlinks)"]
for _n in (1, 2):
    CONTRACTS["model:JunctionCompartment.initial_flush#n%d" % _n] = dict(
        schema=schema, params={}, unroll_max=3, self_classes=["JunctionCompartment"],
        requires=_flush_req + ["len(self.outlinks) == %d" % _n,
                               "all(l.parameter is not None and len(l.parameter.vals) >= 1 and l.parameter.vals[0] >= 0 for l in self.outlinks)",
                               "sum(l.parameter.vals[0] for l in self.outlinks) > 0"],
        modifies=["self.vals[0]", "l.dest.vals[0] for l in self.outlinks if not isinstance(l.dest, TimedCompartment)",
                  "l.dest._vals[:, 0] for l in self.outlinks if isinstance(l.dest, TimedCompartment)"],
        ensures=[
            ("C04.junction_is_empty_after_the_flush", "self.vals[0] == 0"),
        ] + [
            # one clause per outgoing link (smaller solver queries than one conjunction over the links)
            ("C04+C07+C02.flushed_by_stated_proportions_link%d" % _k,
             "self.outlinks[%d].dest[0] == old(self.outlinks[%d].dest[0]) + old(self.vals[0]) * sum(m.parameter.vals[0] for m in self.outlinks if m.dest is self.outlinks[%d].dest) / sum(m.parameter.vals[0] for m in self.outlinks)" % (_k, _k, _k))
            for _k in range(_n)
        ],
        frame_props=["C04", "C07", "C10"], defined_props=["C04"])

_T = "sum(m.parameter.vals[0] for m in self.outlinks if m.parameter is not None)"
for _n in (1, 2):
    CONTRACTS["model:ResidualJunctionCompartment.initial_flush#n%d" % _n] = dict(
        schema=schema, params={}, unroll_max=3,
        requires=_flush_req + ["len(self.outlinks) == %d" % _n,
                               "all(implies(l.parameter is not None, len(l.parameter.vals) >= 1 and l.parameter.vals[0] >= 0) for l in self.outlinks)"],
        modifies=["self.vals[0]", "l.dest.vals[0] for l in self.outlinks if not isinstance(l.dest, TimedCompartment)",
                  "l.dest._vals[:, 0] for l in self.outlinks if isinstance(l.dest, TimedCompartment)"],
        ensures=[
            ("C04.junction_is_empty_after_the_flush", "self.vals[0] == 0"),
        ] + [
            # stated proportions (scaled down to 1 when they exceed it) to the parameter links, the remainder to the residual link;
            # one clause per outgoing link
            ("C04+C07+C02.flushed_by_stated_proportions_remainder_to_residual_link%d" % _k,
             "self.outlinks[%d].dest[0] == old(self.outlinks[%d].dest[0]) + old(self.vals[0]) * sum((m.parameter.vals[0] / max(1, %s) if m.parameter is not None else max(0, 1 - %s)) for m in self.outlinks if m.dest is self.outlinks[%d].dest)" % (_k, _k, _T, _T, _k))
            for _k in range(_n)
        ],
        frame_props=["C04", "C07", "C10"], defined_props=["C04"])



# ---- Model.flush_junctions must leave the source-size cache of every parameter valid (the precondition of the conversion contract
# above): the flush changes compartment sizes at time index 0 AFTER Model.process has already run update_pars() once, which fills
# the cache of a program-targeted number parameter for index 0.  One junction with one outgoing link, one population with one
# parameter with one link (lists of fixed length, unrolled); everything else symbolic, the parameter's source may be the flush target.
def _env_flushj(it):
    self = it.new_obj("self", ["Model"])
    J = it.new_obj("J", ["JunctionCompartment"])
    it.facts.append(core_typeof_exact(J, "JunctionCompartment"))
    return {"self": self, "J": J, "JUNCS": [J]}


def core_typeof_exact(o, cls):
    from pyvc.core import CLASSES

    return CLASSES.classset_term(o.ref, [cls])


_q = "self.pops[0].pars[0]"
_cache_ok = ("implies(%s._source_popsize_cache_time is not None and %s._source_popsize_cache_time == 0, "
             "%s._source_popsize_cache_val == %s.links[0].source.vals[0])" % (_q, _q, _q, _q))
CONTRACTS["model:Model.flush_junctions#cache_invariant"] = dict(
    schema=schema, make_env=_env_flushj, unroll_max=3, stubs={"self._exec_order['junctions']": "JUNCS"},
    requires=["len(self.pops) == 1", "len(self.pops[0].pars) == 1", "len(%s.links) == 1" % _q,
              "not isinstance(%s.links[0].source, TimedCompartment)" % _q, "len(%s.links[0].source.vals) >= 1" % _q,
              "len(J.outlinks) == 1", "len(J.vals) >= 1", "J.vals[0] >= 0", "J.outlinks[0].dest is not J",
              "J.outlinks[0].parameter is not None and len(J.outlinks[0].parameter.vals) >= 1 and J.outlinks[0].parameter.vals[0] > 0",
              "not isinstance(J.outlinks[0].dest, TimedCompartment)", "len(J.outlinks[0].dest.vals) >= 1",
              _cache_ok],
    ensures=[("C03+C13.source_size_cache_is_valid_after_the_flush", _cache_ok)],
    defined_props=["C03"])



def _replay_flush_cache(model, contract):
    """replay of the history that Model.process runs at the first time index, on REAL objects: a junction J (holding people) flushes
    into compartment A; a number parameter q has its only link out of A.  update_pars() asks q.source_popsize(0) for a
    program-targeted number parameter BEFORE the flush; update_links() asks again AFTER it and divides the requested number by it."""
    import numpy as np
    import z3
    import atomica.model as am
    from pyvc import core

    def num(t, default):
        try:
            v = model.eval(t, model_completion=True)
            return float(v.numerator_as_long()) / float(v.denominator_as_long())
        except Exception:
            return default

    vals = z3.Function("h.Compartment.vals[]", core.Ref, z3.IntSort(), z3.RealSort())
    dest = z3.Function("h.Link.dest:ref", core.Ref, core.Ref)
    elem = z3.Function("outlinks[]", core.Ref, z3.IntSort(), core.Ref)
    J_ = z3.Const("J", core.Ref)
    j0 = num(vals(J_, z3.IntVal(0)), 50.0)
    a0 = num(vals(dest(elem(J_, z3.IntVal(0))), z3.IntVal(0)), 100.0)
    if j0 <= 0:
        j0 = 50.0
    pop = type("Pop", (), {"name": "pop"})()

    def comp(cls, name, v):
        c = object.__new__(cls)
        c.id, c.pop, c.vals, c.outlinks, c.inlinks, c.units = ("pop", name), pop, np.array([v, 0.0]), [], [], "Number of people"
        return c

    def par(name, v):
        p = object.__new__(am.Parameter)
        p.id, p.pop, p.vals, p.links, p.units, p.timescale = ("pop", name), pop, np.array([v, v]), [], "number", 1.0
        p._source_popsize_cache_time, p._source_popsize_cache_val = None, None
        return p

    def link(name, src, dst, p):
        l = object.__new__(am.Link)
        l.id, l.pop, l.vals, l.source, l.dest, l.parameter = ("pop", name), pop, np.zeros(2), src, dst, p
        src.outlinks.append(l)
        dst.inlinks.append(l)
        if p is not None:
            p.links.append(l)
        return l

    A, B = comp(am.Compartment, "A", a0), comp(am.Compartment, "B", 0.0)
    J = comp(am.JunctionCompartment, "J", j0)
    J.duration_group = None
    pj, q = par("pj", 1.0), par("q", 10.0)
    link("J_A", J, A, pj)
    link("A_B", A, B, q)
    m = object.__new__(am.Model)
    m._exec_order = {"junctions": [J]}
    pop.pars = [pj, q]
    m.pops = [pop]
    pre = dict(junction=j0, source_compartment_before_flush=a0, parameter="number of people per year out of A")
    before = float(q.source_popsize(0))          # update_pars(), program overwrite of a number parameter
    try:
        m.flush_junctions()                       # Model.process, first time index
    except Exception as e:
        return dict(verdict="error", detail="flush_junctions raised %s: %s" % (type(e).__name__, e), prestate=pre)
    after = float(q.source_popsize(0))           # update_links(), conversion of the number parameter
    actual = float(A.vals[0])
    pre.update(source_size_seen_by_update_pars=before, source_size_seen_by_update_links=after, source_compartment_after_flush=actual)
    ok = abs(after - actual) <= 1e-9 * max(1.0, abs(actual))
    return dict(verdict="holds" if ok else "violates",
                detail="after the flush A holds %r people but update_links is told %r (the size cached before the flush): a number parameter of N people/yr then moves N*dt*%r/%r instead of N*dt" % (actual, after, actual, after)
                if not ok else "update_links sees the current source size %r" % after, prestate=pre)


CONTRACTS["model:Model.flush_junctions#cache_invariant"]["replay_hook"] = _replay_flush_cache



# ---- TimedCompartment as a number: its size is the sum of its elapsed-time rows, and assigning a size at the initial time spreads it
# uniformly over the rows ("initial occupants are spread uniformly over the duration", C05; C07 initial sizes)
CONTRACTS["model:TimedCompartment.__getitem__"] = dict(
    schema=schema, params={"ti": "int"},
    requires=["0 <= ti", "ti < self._vals.shape[1]", "self._vals.shape[0] >= 1"],
    modifies=[],
    ensures=[("C01+C05.size_is_the_sum_over_elapsed_time_rows", "result == sum(self._vals[r, ti] for r in range(self._vals.shape[0]))")],
    frame_props=["C05"], defined_props=["C05"])
CONTRACTS["model:TimedCompartment.__setitem__"] = dict(
    schema=schema, params={"ti": "int", "value": "real"},
    requires=["self._vals.shape[0] >= 1", "self._vals.shape[1] >= 1"],
    modifies=["self._vals[:, 0]"],
    raises={"ModelError": "ti != 0"},
    ensures=[
        ("C05+C07.initial_occupants_are_spread_uniformly_over_the_rows", "all(self._vals[r, 0] * self._vals.shape[0] == value for r in range(self._vals.shape[0]))"),
        ("C05+C07.assigned_size_is_the_total", "sum(self._vals[r, 0] for r in range(self._vals.shape[0])) == value"),
    ],
    frame_props=["C05"], defined_props=["C05"], raises_props=["C05"])


# ------------------------------------------------------------------------------------------------ limits (C06)
_lim_ok = "implies(self.limits is not None, len(self.limits) == 2 and self.limits[0] <= self.limits[1])"
CONTRACTS["model:Parameter.constrain#index"] = dict(
    schema=schema, params={"ti": "int"},
    requires=["0 <= ti", "ti < len(self.vals)", _lim_ok],
    modifies=["self.vals[ti]"],
    ensures=[
        ("C06.clipped_into_limits", "implies(self.limits is not None, self.vals[ti] == min(max(old(self.vals[ti]), self.limits[0]), self.limits[1]))"),
        ("C06.identity_without_limits", "implies(self.limits is None, self.vals[ti] == old(self.vals[ti]))"),
    ],
    frame_props=["C06"], defined_props=["C06"])
CONTRACTS["model:Parameter.constrain#vector"] = dict(
    schema=schema, params={"ti": "const:None"},
    requires=[_lim_ok],
    modifies=["self.vals"],
    ensures=[
        ("C06.all_values_clipped_into_limits", "implies(self.limits is not None, all(self.vals[i] == min(max(old(self.vals[i]), self.limits[0]), self.limits[1]) for i in range(len(self.vals))))"),
        ("C06.length_preserved", "len(self.vals) == old(len(self.vals))"),
        ("C06.identity_without_limits", "implies(self.limits is None, all(self.vals[i] == old(self.vals[i]) for i in range(len(self.vals))))"),
    ],
    frame_props=["C06"], defined_props=["C06"])


# ---- Characteristic.vals after the run (reporting, C07): the sum of the member compartments, divided by the denominator where one is
# defined, reported as 0 when the NUMERATOR is below 1e-6 people.  One time point, two members, symbolic sizes.
def _env_charac_vals(with_denominator):
    def make(it):
        import z3
        from pyvc.interp import PyObjV
        from pyvc.core import LArr
        from pyvc import source

        mm = source.load("model")
        a, b, d = z3.Real("size_a"), z3.Real("size_b"), z3.Real("size_denominator")
        it.pc.append(z3.And(a >= 0, b >= 0, d > 0))
        comp = lambda nm, v: PyObjV("Compartment", mm, {"id": ("pop", nm), "vals": LArr(1, lambda i, v=v: v)})
        self = PyObjV("Characteristic", mm, {"id": ("pop", "ch"), "_vals": None, "t": LArr(1, lambda i: 2000.0), "includes": [comp("a", a), comp("b", b)],
                                             "denominator": comp("d", d) if with_denominator else None})
        return {"self": self, "a": a, "b": b, "d": d}

    return make


CONTRACTS["model:Characteristic.vals#with_denominator"] = dict(
    schema=schema, make_env=_env_charac_vals(True),
    ensures=[("C07.reported_fraction_is_members_over_denominator", "implies(a + b >= 1e-06, result[0] == (a + b) / d)"),
             ("C07.numerator_below_a_millionth_of_a_person_is_reported_as_zero", "implies(a + b < 1e-06, result[0] == 0)")],
    defined_props=["C07"])
CONTRACTS["model:Characteristic.vals#without_denominator"] = dict(
    schema=schema, make_env=_env_charac_vals(False),
    ensures=[("C07.reported_characteristic_is_the_sum_of_its_members", "result[0] == a + b")],
    defined_props=["C07"])


def _replay_charac_vals(model, contract):
    """replay on REAL Characteristic / Compartment objects with the model's sizes"""
    import numpy as np
    import z3
    import atomica.model as am

    def val(name):
        v = model.eval(z3.Real(name), model_completion=True)
        try:
            return float(v.numerator_as_long()) / float(v.denominator_as_long())
        except Exception:
            v = v.approx(15)
            return float(v.numerator_as_long()) / float(v.denominator_as_long())

    a, b, d = val("size_a"), val("size_b"), val("size_denominator")

    def comp(nm, v):
        c = object.__new__(am.Compartment)
        c.id, c.vals = ("pop", nm), np.array([v], dtype=float)
        return c

    ch = object.__new__(am.Characteristic)
    ch.id, ch._vals, ch.t, ch.includes = ("pop", "ch"), None, np.array([2000.0]), [comp("a", a), comp("b", b)]
    ch.denominator = comp("d", d) if contract["with_denominator"] else None
    got = float(ch.vals[0])
    want = (a + b) if not contract["with_denominator"] else (0.0 if a + b < 1e-6 else (a + b) / d)
    ok = abs(got - want) <= 1e-9 * max(1.0, abs(want))
    return dict(verdict="holds" if ok else "violates", detail="members %r + %r, denominator %r: reported %r, documented %r" % (a, b, d if contract["with_denominator"] else None, got, want),
                prestate=dict(size_a=a, size_b=b, denominator=d if contract["with_denominator"] else None))


for _k, _wd in (("model:Characteristic.vals#with_denominator", True), ("model:Characteristic.vals#without_denominator", False)):
    CONTRACTS[_k]["replay_hook"] = _replay_charac_vals
    CONTRACTS[_k]["with_denominator"] = _wd


# ---- the stepping methods that must do nothing: a junction is empty at every step (C04), a source is an unlimited reservoir whose
# recorded size never changes (C01: "sources excluded"), a sink emits nothing, a junction's flows are set by balance() only
for _cls, _meth, _props in (("JunctionCompartment", "update", ["C04", "C01"]), ("SourceCompartment", "update", ["C01"]),
                            ("SinkCompartment", "resolve_outflows", ["C01", "C02"]), ("JunctionCompartment", "resolve_outflows", ["C04", "C01"])):
    CONTRACTS["model:%s.%s" % (_cls, _meth)] = dict(
        schema=schema, params={"ti": "int"}, self_classes=[_cls] if _cls != "JunctionCompartment" else ["JunctionCompartment", "ResidualJunctionCompartment"],
        requires=["0 <= ti"], modifies=[], ensures=[("%s.nothing_is_written" % "+".join(_props), "True")],
        frame_props=_props, defined_props=_props)


# ---- Parameter.source_popsize (C03: "a number N moves N*dt/T people shared over the parameter's source compartments in proportion to
# their sizes"): the denominator of that sharing.  Under the cache invariant (an entry for index ti holds the current total) the
# result IS the current total size of the source compartments of all links of the parameter, and the invariant holds afterwards.
_src_total = "sum(l.source.vals[ti] for l in self.links)"
_pop_cache_ok = "implies(self._source_popsize_cache_time is not None and self._source_popsize_cache_time == ti, self._source_popsize_cache_val == %s)" % _src_total
CONTRACTS["model:Parameter.source_popsize"] = dict(
    schema=schema, params={"ti": "int"},
    requires=["0 <= ti", "all(not isinstance(l.source, TimedCompartment) for l in self.links)", "all(ti < len(l.source.vals) for l in self.links)", _pop_cache_ok],
    modifies=["self._source_popsize_cache_time", "self._source_popsize_cache_val"],
    raises={"ModelError": "len(self.links) == 0 and not (self._source_popsize_cache_time is not None and self._source_popsize_cache_time == ti)"}, raises_props=["C03"],
    ensures=[("C03.denominator_is_the_current_total_of_the_source_compartments", "result == %s" % _src_total),
             ("C03.the_cache_stays_valid", "self._source_popsize_cache_time == ti and self._source_popsize_cache_val == %s" % _src_total)],
    frame_props=["C03"], defined_props=["C03"])


# the same contracts with the number of INFLOW links fixed (2) and the accumulation loop unrolled: a body the loop summary cannot treat
# (an accumulator that is overwritten instead of added to) is then executed link by link and decided instead of left undecided
for _q in ("model:JunctionCompartment.balance#group", "model:ResidualJunctionCompartment.balance#group"):
    CONTRACTS[_q + "_two_inflows"] = dict(CONTRACTS[_q], unroll_max=3, requires=CONTRACTS[_q]["requires"] + ["len(self.inlinks) == 2"])
