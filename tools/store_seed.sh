#!/bin/sh
# tools/store_seed.sh <worktree> <id> "<props broken>" "<caught by>" [round-name] : confirm a seeded change (tools/confirm_seed.sh), write meta.json from the
# author's meta.txt and my confirmation, and remove the scratch worktree
WT=$1; ID=$2; BREAKS=$3; CAUGHT=$4; ROUND=${5:-fifth}
tools/confirm_seed.sh $WT $ID || exit 1
cp $WT/meta.txt seeded/$ID/meta.txt
/venv/bin/python - "$ID" "$BREAKS" "$CAUGHT" "$ROUND" "$WT" <<'PY'
import json, sys
id_, breaks, caught, rnd, wt = sys.argv[1:6]
d = '/verif/seeded/' + id_
txt = open(d + '/meta.txt').read().strip().split('\n')
needs = next((l for l in txt if l.lower().startswith('trigger')), txt[1] if len(txt) > 1 else txt[0])
json.dump({"id": id_, "breaks": breaks.split(),
           "origin": "sub-agent seed-%s-%s (%s round, independent of /verif; told the property text and the locations already used)" % (rnd, id_[:3], rnd),
           "needs": needs[:400], "confirmed_by_me": json.load(open(d + '/confirm.json')),
           "what_i_ran": "tools/confirm_seed.sh %s %s : demo on the clean worktree, demo with patch.diff applied, full pytest suite with the patch applied compared with BASELINE.json stable_pass" % (wt, id_),
           "caught_by": caught}, open(d + '/meta.json', 'w'), indent=1)
PY
git -C /repo worktree remove --force $WT
cat seeded/$ID/confirm.json | tr '\n' ' '; echo
