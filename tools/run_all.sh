#!/bin/sh
# tools/run_all.sh [tier]: every check on /repo's current tree, then every stored seed against the properties it breaks
cd /verif
T=${1:-quick}
for p in $(python3 -c "import json;print(' '.join(c['property_id'] for c in json.load(open('MANIFEST.json'))['checks']))"); do
  /usr/bin/time -f "%es" ./check $p --tier $T 2>&1 | grep -E "VIOL|^property|UNDEC|CHECK|s$" | cut -c1-160 | tr '\n' ' '; echo
done
echo "---- seeds"
for d in seeded/*/; do
  id=$(basename $d)
  props=$(python3 -c "import json;print(' '.join(json.load(open('$d/meta.json'))['breaks']))")
  pf=$d/patch.diff; [ -f $d/patch_rebased.diff ] && pf=$d/patch_rebased.diff
  echo "== seed $id (breaks $props)"
  tests/seed.sh /verif/$pf $props 2>&1 | grep -E "^VIOLATION|^UNDECIDED|^property|PATCH" | cut -c1-200 | sort | uniq -c | cut -c1-210
done
