#!/bin/sh
# tools/confirm_seed.sh <worktree> <id> : confirm a seeded change independently (demo fails with it / passes without it, stable tests pass with it)
WT=$1; ID=$2; OUT=/verif/seeded/$ID
mkdir -p $OUT
cd $WT || exit 9
DEMO=$(ls demo_*.py | head -1)
cp patch.diff $OUT/patch.diff; cp $DEMO $OUT/$DEMO
git checkout -q -- atomica
PYTHONPATH=$WT /venv/bin/python $DEMO > $OUT/demo_without.log 2>&1; W0=$?
git apply patch.diff || exit 8
PYTHONPATH=$WT /venv/bin/python $DEMO > $OUT/demo_with.log 2>&1; W1=$?
PYTHONPATH=$WT /venv/bin/python -m pytest -q -p no:cacheprovider --timeout=900 --continue-on-collection-errors --junitxml=$OUT/junit.xml tests > $OUT/pytest.log 2>&1 <&- || true
/venv/bin/python - "$OUT" "$W0" "$W1" <<'PY'
import json, sys, xml.etree.ElementTree as ET
out, w0, w1 = sys.argv[1], int(sys.argv[2]), int(sys.argv[3])
stable = set(json.load(open('/root/.vp/BASELINE.json'))['stable_pass'])
passed = set()
for tc in ET.parse(out + '/junit.xml').getroot().iter('testcase'):
    name = tc.get('classname') + '::' + tc.get('name')
    if not any(c.tag in ('failure', 'error', 'skipped') for c in tc):
        passed.add(name)
missing = sorted(stable - passed)
json.dump({'demo_exit_without_change': w0, 'demo_exit_with_change': w1, 'stable_tests_passing_with_change': len(stable & passed), 'stable_tests_not_passing': missing}, open(out + '/confirm.json', 'w'), indent=1)
print(out, w0, w1, len(stable & passed), missing)
PY
rm -f $OUT/junit.xml test.xlsx
