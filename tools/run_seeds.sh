#!/bin/sh
# tools/run_seeds.sh [N]: every stored seed against the properties it breaks, N seeds at a time (default 4); one line per (seed, property)
cd /verif
N=${1:-4}
ls -d seeded/*/ | xargs -P "$N" -I{} sh -c '
  d={}; id=$(basename $d)
  props=$(python3 -c "import json;print(\" \".join(json.load(open(\"$d/meta.json\"))[\"breaks\"]))")
  pf=$d/patch.diff; [ -f $d/patch_rebased.diff ] && pf=$d/patch_rebased.diff
  for p in $props; do
    r=$(tests/seed.sh /verif/$pf $p 2>&1 | grep -E "^property|PATCH" | cut -c1-150)
    echo "$id $p :: $r"
  done'
