"""What MANIFEST.json claims, per property (edited by hand; tools/gen_manifest.py turns it into MANIFEST.json)."""
_REAL = "Python floats treated as mathematical reals (REAL mode); wf(model) schema of contracts/model_schema.py assumed on the pre-state; numpy/builtin semantics of pyvc/lib.py assumed; obligations are per function (callers see contracts), the composition over the integration loop is argued in DESIGN.md, not machine-checked"
CLAIMS = {
    "C01": dict(
        text="Unbounded proof, per kernel, that stock updates equal old stock minus the cached outflow plus the recorded inflows, that the cached outflow is exactly the sum of the outgoing link values, and that nothing outside the stated frame changes: for any number of links and any real values. Obligations are regenerated from /repo's source on every run.",
        note=_REAL),
    "C02": dict(
        text="Unbounded proof, per kernel, of sign, no-over-draw, common rescaling (ratio preservation) and definedness (no division by zero, indices in range) for any number of links and any non-negative real inputs however large.",
        note=_REAL + "; overflow to inf is not modelled"),
    "C03": dict(
        text="Unbounded proof that the people moved equal fraction x stock / max(1, sum of fractions) and that a source compartment emits exactly the cached amount; the dt-grid (FPSTD) and unit-conversion clauses are added as their contracts are built.",
        note=_REAL),
}
CLAIMS["C04"] = dict(
    text="Unbounded proof that a plain junction (outside and inside a duration group, per elapsed-time row) assigns inflow * p_i / sum(p) to each outflow, passes on exactly what it receives whenever sum(p) > 0 and never produces a negative or undefined flow under the property's domain restriction; residual junctions, the initial flush and the topological order are added as their contracts are built.",
    note=_REAL)
CLAIMS["C05"] = dict(
    text="Unbounded proof (any number of rows, links and any real values) of the keyring mechanics of timed compartments: row 0 is emptied exactly each step, duration-preserving links never leave from row 0, every other row moves down by exactly one row per step keeping its content minus recorded outflows plus duration-preserving inflows, and all other inflows enter the last row. The row count (FPSTD) clause is added with TimedCompartment.preallocate.",
    note=_REAL + "; duration-preserving inflows are assumed to come from a group with the same number of rows (the unequal-rows branches of TimedCompartment.update are not under contract)")
CLAIMS["C11"] = dict(
    text="Proof over all real inputs (spending, unit cost, capacity constraint, saturation, number eligible, step size) that Program.get_capacity and Program.get_prop_covered return a capacity that is spending(*dt for one-off)/unit cost capped by the constraint, and a coverage in [0,1] that is capacity/eligible when unconstrained and below 1, 1 (or min(saturation,1)) when nobody is eligible, never above the saturation level, and monotone in spending/capacity (relational obligation over two executions); the caller's spending array is not modified.",
    note="REAL arithmetic; verified for arrays of length 1 with symbolic contents -- the step to any length assumes numpy ufuncs act element-wise; TimeSeries.interpolate/has_data/units are replaced by ghost values (assumed external contract); exp is uninterpreted with the axioms exp>0, exp(0)=1, monotone; +-inf handled by path splitting on the mask of np.divide; overwrite precedence in ProgramSet.get_* is not yet under contract")
CLAIMS["C12"] = dict(
    text="Complete proof, for each number of programs n and each of the three coverage interactions, over all coverage vectors in [0,1]^n and all real baselines and combination outcomes, that Covout.get_outcome returns baseline + sum of weight x combination outcome with weights that are non-negative, sum to at most 1 (rest on the empty combination) and have marginals equal to each program's coverage; baseline at zero coverage; baseline + c*delta for one program. The loops run over the concrete 2^n table and are unrolled; nested explores all n! orders. quick: n = 1..4, thorough: n = 1..5 (the property's whole range).",
    note="REAL arithmetic; weights are read off as coefficients of the symbolic combination outcomes (the result is linear in them); the cache invariant 'outcome of the single-program combination {i} is its delta' is assumed (update_outcomes / the 'best' rule are not yet under contract); np.argsort is assumed to return some sorting permutation")
CLAIMS["C19"] = dict(
    text="Exhaustive over the ast node classes of the running interpreter (every class that can occur in an expression tree) and symbolic identifiers: the per-node check of parse_function lets a node pass only if it is not an attribute access, lambda, comprehension, generator, walrus, await/yield or starred node, a call passes only if its target is a plain name in the whitelist, and exactly the non-whitelisted names are reported as dependencies; plus functional contracts for the division rewrite and sdiv. Tree depth is unbounded because the check is per node of ast.walk.",
    note="ast.walk is assumed to yield every node of the tree; evaluation of an accepted tree by eval() with the whitelist as locals is assumed to be ordinary arithmetic; f-strings, subscripts, tuples/lists/dicts and conditional expressions are classified neutral (accepted, not claimed)")
NOT_APPLICABLE = {}
NOTES = "Checks exit 0 (all obligations discharged), 1 (a registered obligation refuted: VIOLATION line, replay on real objects), 2 (undecided: unknown/unsupported, never reported as a violation), 3 (checker error: vacuity, zero obligations, internal error)."
