"""What MANIFEST.json claims, per property (edited by hand; tools/gen_manifest.py turns it into MANIFEST.json)."""
_REAL = "Python floats treated as mathematical reals (REAL mode); wf(model) schema of contracts/model_schema.py assumed on the pre-state; numpy/builtin semantics of pyvc/lib.py assumed; obligations are per function (callers see contracts), the composition over the integration loop is argued in DESIGN.md, not machine-checked"
CLAIMS = {
    "C01": dict(
        text="Unbounded proof, per kernel, that stock updates equal old stock minus the cached outflow plus the recorded inflows, that the cached outflow is exactly the sum of the outgoing link values, and that nothing outside the stated frame changes: for any number of links and any real values. Obligations are regenerated from /repo's source on every run.",
        note=_REAL),
    "C02": dict(
        text="Unbounded proof, per kernel, of sign, no-over-draw, common rescaling (ratio preservation) and definedness (no division by zero, indices in range) for any number of links and any non-negative real inputs however large.",
        note=_REAL + "; overflow to inf is not modelled"),
    "C03": dict(
        text="Unbounded proof that the people moved equal fraction x stock / max(1, sum of fractions) and that a source compartment emits exactly the cached amount; the dt-grid (FPSTD) and unit-conversion clauses are added as their contracts are built.",
        note=_REAL),
}
CLAIMS["C04"] = dict(
    text="Unbounded proof that a plain junction (outside and inside a duration group, per elapsed-time row) assigns inflow * p_i / sum(p) to each outflow, passes on exactly what it receives whenever sum(p) > 0 and never produces a negative or undefined flow under the property's domain restriction; residual junctions, the initial flush and the topological order are added as their contracts are built.",
    note=_REAL)
CLAIMS["C05"] = dict(
    text="Unbounded proof (any number of rows, links and any real values) of the keyring mechanics of timed compartments: row 0 is emptied exactly each step, duration-preserving links never leave from row 0, every other row moves down by exactly one row per step keeping its content minus recorded outflows plus duration-preserving inflows, and all other inflows enter the last row. The row count (FPSTD) clause is added with TimedCompartment.preallocate.",
    note=_REAL + "; duration-preserving inflows are assumed to come from a group with the same number of rows (the unequal-rows branches of TimedCompartment.update are not under contract)")
CLAIMS["C11"] = dict(
    text="Proof over all real inputs (spending, unit cost, capacity constraint, saturation, number eligible, step size) that Program.get_capacity and Program.get_prop_covered return a capacity that is spending(*dt for one-off)/unit cost capped by the constraint, and a coverage in [0,1] that is capacity/eligible when unconstrained and below 1, 1 (or min(saturation,1)) when nobody is eligible, never above the saturation level, and monotone in spending/capacity (relational obligation over two executions); the caller's spending array is not modified.",
    note="REAL arithmetic; verified for arrays of length 1 with symbolic contents -- the step to any length assumes numpy ufuncs act element-wise; TimeSeries.interpolate/has_data/units are replaced by ghost values (assumed external contract); exp is uninterpreted with the axioms exp>0, exp(0)=1, monotone; +-inf handled by path splitting on the mask of np.divide; overwrite precedence in ProgramSet.get_* is not yet under contract")
CLAIMS["C12"] = dict(
    text="Complete proof, for each number of programs n and each of the three coverage interactions, over all coverage vectors in [0,1]^n and all real baselines and combination outcomes, that Covout.get_outcome returns baseline + sum of weight x combination outcome with weights that are non-negative, sum to at most 1 (rest on the empty combination) and have marginals equal to each program's coverage; baseline at zero coverage; baseline + c*delta for one program. The loops run over the concrete 2^n table and are unrolled; nested explores all n! orders. quick: n = 1..4, thorough: n = 1..5 (the property's whole range).",
    note="REAL arithmetic; weights are read off as coefficients of the symbolic combination outcomes (the result is linear in them); the cache invariant 'outcome of the single-program combination {i} is its delta' is assumed (update_outcomes / the 'best' rule are not yet under contract); np.argsort is assumed to return some sorting permutation")
CLAIMS["C19"] = dict(
    text="Exhaustive over the ast node classes of the running interpreter (every class that can occur in an expression tree) and symbolic identifiers: the per-node check of parse_function lets a node pass only if it is not an attribute access, lambda, comprehension, generator, walrus, await/yield or starred node, a call passes only if its target is a plain name in the whitelist, and exactly the non-whitelisted names are reported as dependencies; plus functional contracts for the division rewrite and sdiv. Tree depth is unbounded because the check is per node of ast.walk.",
    note="ast.walk is assumed to yield every node of the tree; evaluation of an accepted tree by eval() with the whitelist as locals is assumed to be ordinary arithmetic; f-strings, subscripts, tuples/lists/dicts and conditional expressions are classified neutral (accepted, not claimed)")
CLAIMS["C14"] = dict(
    text="Unbounded proof (any number of programs, any real proposal, total and bounds) that constrain_sum_bounded, whatever scipy's SLSQP returns (its result is havocked), either signals failure (FailedConstraint when SLSQP reports failure, AssertionError when the clipped solution misses the total) or returns amounts inside every lower/upper bound whose sum is within the code's own tolerance of the total; that a proposal already satisfying total and bounds is returned unchanged, and that the purely multiplicative path meets the total exactly.",
    note="REAL arithmetic, finite bounds and total > 0 (a zero total takes the AssertionError path: a signal, not a silent value); the property's 1e-6 relative figure is tighter than the code's guard (np.isclose rtol 1e-5) and is NOT provable without a contract on SLSQP: not decided; TotalSpendConstraint / SpendingPackageAdjustment are not yet under contract")
CLAIMS["C17"] = dict(
    text="Definedness and functional contracts on the sampling entry points: Covout.sample completes for every covout (with and without explicit interaction outcomes, sigma None or a number) and perturbs each outcome by sigma x draw, leaving outcomes untouched when there is no uncertainty; the pool initializer re-seeds the process-global generator from OS entropy (ghost state rng_reseeded), which is the contract form of 'workers do not inherit the same generator state'.",
    note="np.random.randn and np.random.seed are external (stubbed / stated semantics); fork copies the parent's generator state and fresh OS-entropy seeds are distinct (assumed); scheduling of samples to workers, Ensemble.run_sims (sciris parallelize) and the frames of ParameterSet.sample / ProgramSet.sample (sc.dcp) are not decided")
_STRUCT = "decided on the AST of the real functions (re-read from /repo on every run): the clause is a statement about every path and does not depend on input values; it covers only the mechanism named, the remaining clauses of the property are listed as not decided in DESIGN.md"
CLAIMS["C16"] = dict(
    text="Definite-assignment obligation on ParameterSet.load_calibration: every name read by an exception handler is bound even when the exception is raised by the statement that would have bound it (so unknown entries are skipped, not crashed on). Spreadsheet and binary round trips are outside the technique.",
    note=_STRUCT, technique="contract-based: structural (definite-assignment / frame) obligations decided on the real AST; replay on a real project")
CLAIMS["C18"] = dict(
    text="Definedness of every error path of 13 modules: each '%'-format and str.format message is given as many arguments as it has fields and .format is never called on an exception object, so the dedicated error (not TypeError/AttributeError) is what escapes; handlers read only bound names. Decided for all inputs because message arity does not depend on the input.",
    note=_STRUCT + "; totality over all malformed workbooks and 'accepted implies runnable' depend on pandas/openpyxl and are not decided", technique="contract-based: definedness obligations on message construction and handlers, decided on the real AST")
CLAIMS["C20"] = dict(
    text="Order/subset independence of default aggregation in PlotData.__init__ as a loop-invariance obligation (the arguments that select the aggregation method are never assigned inside a loop, so the method applied to output k is a function of the argument and of output k only) and an ownership obligation on get_cascade_data / get_cascade_vals (an array bound to an element of another container is never updated in place).",
    note=_STRUCT + "; sums/averages of the aggregated values, time aggregation numerics and matplotlib are not decided", technique="contract-based: loop-invariance and ownership (frame) obligations decided on the real AST; replays on the udt project")
CLAIMS["C08"] = dict(
    text="Inverse-pair structure of unlink/relink for every integration class: the set of attributes that unlink() replaces by ids is exactly the set relink() restores, and both chain to the base class; plus the frame clause of Program.get_capacity (works on a copy of the spending array).",
    note=_STRUCT + "; determinism across processes, pickle/deepcopy internals and Result save/load are not decided", technique="contract-based: frame / inverse-pair obligations decided on the real AST plus the get_capacity frame clause (z3)")
CLAIMS["C06"] = dict(
    text="Call-site obligation for the dynamic/precompute classification: every recursive call of Parameter.set_dynamic passes the caller's progset on (the callee's contract needs it to see program-targeted dependencies), so a function of a program-targeted parameter is re-evaluated during integration.",
    note=_STRUCT + "; Parameter.constrain/update and the order inside update_pars are not yet under contract", technique="contract-based: call-site precondition obligation decided on the real AST")
CLAIMS["C09"] = dict(
    text="The program gate: do_program_overwrite is exactly 'programs active and start_year <= t[ti] <= stop_year', and every statement of Model.update_pars that reads the program outcomes or coverages is dominated by 'if do_program_overwrite' -- so with the gate false the step reads no program state.",
    note=_STRUCT + "; parameter scenarios (get_parset), stepped interpolation and the end-year extension are not decided", technique="contract-based: guard/dominance obligations decided on the real AST")
CLAIMS["C13"] = dict(
    text="Same gate obligations as C09 seen from inside the window: program outcomes are read only under the gate, whose definition is the documented closed interval; the conversion of the outcome (x source_popsize/dt, /dt) is not yet under contract.",
    note=_STRUCT, technique="contract-based: guard/dominance obligations decided on the real AST")
CLAIMS["C15"] = dict(
    text="Exception safety of calibrate() w.r.t. the temporarily shortened end year: the original sim_end is saved, the statement right after the change is a try whose finally restores it, so an exception at ANY evaluation (every k) restores the caller's settings; together with the bounded sweep showing the sim_end setter is idempotent on doubles.",
    note=_STRUCT + "; 'never worse' rests on sciris asd (external, not decided); the objective formula and copies made by optimize are not yet under contract", technique="contract-based: restore-on-every-exit obligation decided on the real AST + bounded sweep (labelled bounded) for setter idempotence")
NOT_APPLICABLE = {
    "C07": "not yet under contract (planned: fragment contract on the b-vector of initialize_compartments and Characteristic.update)",
    "C10": "not yet under contract (planned: inverse pair Initialization.from_result / apply)",
}
NOTES = "Checks exit 0 (all obligations discharged), 1 (a registered obligation refuted: VIOLATION line, replay on real objects), 2 (undecided: unknown/unsupported, never reported as a violation), 3 (checker error: vacuity, zero obligations, internal error)."
