#!/usr/bin/env python3
"""Regenerates MANIFEST.json from tools/claims.py (kept valid at every commit)."""
import json, os, sys
ROOT = os.path.dirname(os.path.dirname(os.path.abspath(__file__)))
sys.path.insert(0, os.path.join(ROOT, "tools"))
import claims
props = [json.loads(l) for l in open(os.path.join(ROOT, "properties.jsonl"))]
checks = []
na = []
for p in props:
    pid = p["id"]
    c = claims.CLAIMS.get(pid)
    if c is None:
        na.append({"property_id": pid, "reason": claims.NOT_APPLICABLE.get(pid, "check not built yet (framework under construction); see DESIGN.md section 6")})
        continue
    checks.append({
        "property_id": pid,
        "quick_cmd": "./check %s --tier quick" % pid,
        "thorough_cmd": "./check %s --tier thorough" % pid,
        "evidence_file": "evidence/%s.json" % pid,
        "replay_cmd_template": "./check %s --replay {path}" % pid,
        "engine": "pyvc",
        "level_claimed": {"category": "proof", "text": c["text"], "design_ref": c.get("design_ref", "DESIGN.md section 6 " + pid)},
        "level_note": c["note"],
        "technique": c.get("technique", "contract-based deductive verification: sidecar contracts on the real functions, VCs generated from the ast in /repo at run time, discharged by z3 (cvc5 on unknown)"),
    })
m = {
    "version": 1,
    "setup_cmd": "./setup.sh",
    "hooks": {"guard": "ATOMICA_VERIF", "enable": "no source hooks: contracts are sidecar files in /verif/contracts, the verified text is parsed from /repo's working tree by every check", "baseline_off_cmd": "cd /repo && /venv/bin/python -m pytest -ra -q -p no:cacheprovider --timeout=900 --continue-on-collection-errors", "source_commits": [], "add_only": True},
    "engines": [{"name": "pyvc", "path": "pyvc", "serves_properties": sorted(claims.CLAIMS), "kind_free_text": "self-built VC generator: symbolic execution of the real function ASTs under sidecar contracts (pre/post/frame/definedness/loop-summary obligations), discharged by z3/cvc5; refuting models are replayed on real atomica objects"}],
    "checks": checks,
    "not_applicable": na,
    "notes": claims.NOTES,
}
json.dump(m, open(os.path.join(ROOT, "MANIFEST.json"), "w"), indent=1)
print("MANIFEST.json: %d checks, %d not applicable" % (len(checks), len(na)))
