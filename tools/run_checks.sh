#!/bin/sh
# tools/run_checks.sh [tier] [N]: every check on /repo's current tree, N at a time (default 5); one summary line per property
cd /verif
T=${1:-quick}; N=${2:-5}
python3 -c "import json;print('\n'.join(c['property_id'] for c in json.load(open('MANIFEST.json'))['checks']))" | xargs -P "$N" -I{} sh -c "./check {} --tier $T 2>&1 | grep -E 'VIOL|^property|UNDEC|CHECK|KNOWN' | cut -c1-220 | tr '\n' ' '; echo"
