#!/bin/sh
# Build the overlay interpreter: /venv's packages (atomica, numpy, ...) + z3-solver + cvc5 from the offline wheelhouse.
set -e
cd "$(dirname "$0")"
if [ ! -x .venv/bin/python ] || ! .venv/bin/python -c "import z3, cvc5, atomica" >/dev/null 2>&1; then
  rm -rf .venv
  /venv/bin/python -m venv .venv
  PIP_NO_INDEX=1 .venv/bin/pip install -q --no-index --find-links /opt/veriftools/wheels z3-solver cvc5
  echo "import site; site.addsitedir('/venv/lib/python3.12/site-packages')" > .venv/lib/python3.12/site-packages/_overlay.pth
fi
.venv/bin/python -c "import z3, cvc5, atomica, numpy; print('pyvc interpreter ready: z3', z3.get_version_string())"
