"""
pyvc.replay -- turn a refuting z3 model into a concrete pre-state of REAL atomica objects, run the REAL function on it
and evaluate the contract clauses concretely.

A pre-state is a JSON document:
  {"function": "model:Compartment.resolve_outflows",
   "objects": {"o0": {"class": "Compartment", "fields": {...}}, ...},   field values: number | str | bool | None |
               {"ref": "o1"} | {"list": ["o1", ...]} | {"arr1": [...]} | {"arr2": [[...], ...]}
   "self": "o0", "args": {"ti": 3}}
Objects are created with object.__new__ (no constructor) and their attributes set from the document, so the replay
does not depend on being able to load a workbook.  Requires-clauses are re-checked concretely first: a model that does
not satisfy them concretely (abstraction artefact, real vs float) is not a counterexample.
"""
import ast
import copy
import importlib
import json
import math
import sys

import numpy as np

TOL = 1e-9


# ------------------------------------------------------------------------------------------------ extraction from a model
_SKIP = object()


class _OpaqueStandIn:
    """stands for a collaborator the contract never looks into"""

    def __init__(self, what):
        self.what = what

    def __repr__(self):
        return "<%s>" % self.what


def extract_state(model, it_facts, fi, self_obj, env, schema, mro_fn, max_len=40):
    """walk the object graph reachable from self/args in the model"""
    import z3
    from . import core

    def ev(t):
        return model.eval(t, model_completion=True)

    def num(t):
        v = ev(t)
        if z3.is_int_value(v):
            return v.as_long()
        if z3.is_rational_value(v):
            return float(v.numerator_as_long()) / float(v.denominator_as_long())
        if z3.is_algebraic_value(v):
            return float(v.approx(20).numerator_as_long()) / float(v.approx(20).denominator_as_long())
        if z3.is_true(v):
            return True
        if z3.is_false(v):
            return False
        return None

    class_by_id = {i: c for c, i in core.CLASSES.ids.items()}
    objects = {}
    names = {}
    str_names = {}
    for s, c in core._str_consts.items():
        str_names[str(ev(c))] = s

    def kind_of(cls, field):
        for anc in mro_fn(cls):
            if anc in schema and field in schema[anc]:
                return schema[anc][field]
        return None

    def all_fields(cls):
        out = {}
        for anc in reversed(mro_fn(cls)):
            out.update(schema.get(anc, {}))
        return out

    fams = schema.get("__families__") or []

    def fq(cls, field):
        for fam in fams:
            if fam in mro_fn(cls):
                return "%s.%s" % (fam, field)
        return field

    F = lambda name, *sig: z3.Function(name, *sig)
    R, I, Re, B = core.Ref, z3.IntSort(), z3.RealSort(), z3.BoolSort()
    idx_hint = set()
    for k, v in env.items():
        if z3.is_expr(v) and z3.is_int(v):
            n = num(v)
            if isinstance(n, int):
                idx_hint.add(n)
    need = (max(idx_hint) + 2) if idx_hint else 2

    def visit(refval):
        key = str(refval)
        if key in names:
            return names[key]
        if refval.eq(ev(core.NONE)):
            return None
        oid = "o%d" % len(names)
        names[key] = oid
        cid = num(core.typeof(refval))
        cls = class_by_id.get(cid)
        obj = {"class": cls, "fields": {}}
        objects[oid] = obj
        if cls is None:
            return oid
        for field0, kind in all_fields(cls).items():
            field = fq(cls, field0)
            if kind in ("real", "int"):
                obj["fields"][field0] = num(F("h.%s:%s" % (field, kind), R, Re if kind == "real" else I)(refval))
            elif kind == "bool":
                obj["fields"][field0] = bool(num(F("h.%s:bool" % field, R, B)(refval)))
            elif kind == "str" or kind == "str?":
                if kind == "str?" and num(F("h.%s?none:bool" % field, R, B)(refval)):
                    obj["fields"][field0] = None
                else:
                    sv = str(ev(F("h.%s:str" % field, R, core.Str)(refval)))
                    obj["fields"][field0] = str_names.get(sv, "s_" + sv)
            elif kind in ("real?", "int?"):
                base = kind[:-1]
                if num(F("h.%s?none:bool" % field, R, B)(refval)):
                    obj["fields"][field0] = None
                else:
                    obj["fields"][field0] = num(F("h.%s:%s" % (field, base), R, Re if base == "real" else I)(refval))
            elif kind.startswith("ref"):
                tgt = ev(F("h.%s:ref" % field, R, R)(refval))
                t = visit(tgt)
                obj["fields"][field0] = {"ref": t} if t is not None else None
            elif kind.startswith("list:"):
                n = num(F("len(%s)" % field0, R, I)(refval))
                n = max(0, min(n if isinstance(n, int) else 0, max_len))
                elems = []
                for k in range(n):
                    e = ev(F("%s[]" % field0, R, I, R)(refval, z3.IntVal(k)))
                    elems.append(visit(e))
                obj["fields"][field0] = {"list": elems}
            elif kind in ("arr1", "arr1?"):
                if kind == "arr1?" and num(F("h.%s?none:bool" % field, R, B)(refval)):
                    obj["fields"][field0] = None
                    continue
                n = num(F("h.len(%s)" % field, R, I)(refval))
                n = n if isinstance(n, int) else need
                n = max(0, min(n, max(need, 8)))
                obj["fields"][field0] = {"arr1": [num(F("h.%s[]" % field, R, I, Re)(refval, z3.IntVal(i))) for i in range(n)]}
            elif kind == "arr2":
                nr = num(F("h.rows(%s)" % field, R, I)(refval))
                nc = num(F("h.cols(%s)" % field, R, I)(refval))
                nr = max(0, min(nr if isinstance(nr, int) else 1, 12))
                nc = max(0, min(nc if isinstance(nc, int) else need, max(need, 8)))
                obj["fields"][field0] = {"arr2": [[num(F("h.%s[,]" % field, R, I, I, Re)(refval, z3.IntVal(i), z3.IntVal(j))) for j in range(nc)] for i in range(nr)]}
        return oid

    pyobjs = {}

    def conv(v):
        """values of contract-built environments (objects of concrete shape, containers of terms): a JSON-able description"""
        from .core import ObjV, LArr, LArr2, Opaque
        from .interp import PyObjV, ClassV

        if isinstance(v, PyObjV):
            if id(v) not in pyobjs:
                oid = "p%d" % len(pyobjs)
                pyobjs[id(v)] = oid
                o = {"class": v.cls, "module": getattr(v.module, "name", None), "fields": {}}
                objects[oid] = o
                for f, fv in v.fields.items():
                    c = conv(fv)
                    if c is not _SKIP:
                        o["fields"][f] = c
            return {"ref": pyobjs[id(v)]}
        if isinstance(v, ObjV):
            oid = visit(ev(v.ref))
            return {"ref": oid} if oid is not None else None
        if isinstance(v, bool) or v is None or isinstance(v, (int, float, str)):
            return v
        if z3.is_expr(v):
            return num(v)
        if isinstance(v, LArr):
            n = num(z3.IntVal(v.n) if isinstance(v.n, int) else v.n)
            n = max(0, min(n if isinstance(n, int) else 0, max_len))
            return {"arr1": [num(core.to_real(v.get(i))) for i in range(n)]}
        if isinstance(v, LArr2):
            nr, nc = (num(z3.IntVal(d) if isinstance(d, int) else d) for d in (v.nr, v.nc))
            return {"arr2": [[num(core.to_real(v.get(i, j))) for j in range(nc)] for i in range(nr)]}
        if isinstance(v, np.ndarray) and v.ndim == 1:
            return {"arr1": [x.item() for x in v]}
        if isinstance(v, list):
            return {"pylist": [conv(x) for x in v if conv(x) is not _SKIP]}
        if isinstance(v, tuple):
            return {"pytuple": [conv(x) for x in v]}
        if isinstance(v, (set, frozenset)):
            return {"pyset": [conv(x) for x in v]}
        if isinstance(v, dict):
            return {"pydict": [[conv(k), conv(x)] for k, x in v.items() if conv(x) is not _SKIP]}
        if isinstance(v, Opaque):
            return {"opaque": v.what}
        if isinstance(v, ClassV):
            return {"class_ref": v.name, "module": getattr(v.module, "name", None)}
        return _SKIP

    args = {}
    self_id = None
    for k, v in env.items():
        from .core import ObjV, LArr

        if isinstance(v, ObjV):
            oid = visit(ev(v.ref))
            if k == "self":
                self_id = oid
            else:
                args[k] = {"ref": oid} if oid is not None else None
        elif z3.is_expr(v):
            args[k] = num(v)
        elif isinstance(v, LArr):
            n = num(z3.IntVal(v.n) if isinstance(v.n, int) else v.n)
            n = max(0, min(n if isinstance(n, int) else 0, max_len))
            args[k] = {"arr1": [num(core.to_real(v.get(i))) for i in range(n)]}
        elif isinstance(v, (int, float, str, bool)) or v is None:
            args[k] = v
        else:
            c = conv(v)
            if c is not _SKIP:
                args[k] = c
    return {"function": fi.qualname, "objects": objects, "self": self_id, "args": args}


# ------------------------------------------------------------------------------------------------ building real objects
def build(desc):
    modname = desc["function"].split("#")[0].split(":")[0]
    mod = importlib.import_module("atomica." + modname)
    cmod = importlib.import_module("atomica." + desc["class_module"]) if desc.get("class_module") else mod
    objs = {}
    for oid, o in desc["objects"].items():
        if o.get("module"):
            cls = getattr(importlib.import_module("atomica." + o["module"]), o["class"])
        else:
            cls = (getattr(cmod, o["class"], None) or getattr(mod, o["class"])) if o["class"] else object
        objs[oid] = object.__new__(cls)

    def val(v):
        if isinstance(v, dict):
            if "ref" in v:
                return objs[v["ref"]] if v["ref"] is not None else None
            if "list" in v:
                return [objs[x] for x in v["list"]]
            if "arr1" in v:
                return np.array([float(x) if x is not None else 0.0 for x in v["arr1"]], dtype=float)
            if "arr2" in v:
                a = np.array([[float(x) if x is not None else 0.0 for x in row] for row in v["arr2"]], dtype=float)
                if a.ndim == 1:
                    a = a.reshape((len(v["arr2"]), 0))
                return np.asfortranarray(a)
            if "pylist" in v:
                return [val(x) for x in v["pylist"]]
            if "pytuple" in v:
                return tuple(val(x) for x in v["pytuple"])
            if "pyset" in v:
                return set(val(x) for x in v["pyset"])
            if "pydict" in v:
                import sciris as sc

                return sc.odict([(val(k), val(x)) for k, x in v["pydict"]])
            if "opaque" in v:
                return _OpaqueStandIn(v["opaque"])
            if "class_ref" in v:
                return getattr(importlib.import_module("atomica." + v["module"]), v["class_ref"]) if v.get("module") else None
        return v

    for oid, o in desc["objects"].items():
        obj = objs[oid]
        d = {}
        for f, v in o["fields"].items():
            d[f] = val(v)
            if f in TUPLE_FIELDS and isinstance(d[f], np.ndarray):
                d[f] = tuple(float(x) for x in d[f])  # a tuple in the real objects (its truth value is used)
        if not oid.startswith("p"):
            d.setdefault("id", ("pop", oid))
        elif isinstance(d.get("id"), list):
            d["id"] = tuple(d["id"])
        try:
            obj.__dict__.update(d)
        except Exception:
            for f, v in d.items():
                try:
                    object.__setattr__(obj, f, v)
                except Exception:
                    pass
    args = {k: val(v) for k, v in desc["args"].items()}
    return objs, (objs[desc["self"]] if desc.get("self") else None), args


TUPLE_FIELDS = {"skip_function"}


# ------------------------------------------------------------------------------------------------ concrete spec evaluation
class _Tolerant(ast.NodeTransformer):
    """numeric ==, <=, >=, <, > become tolerant comparisons (real arithmetic vs floats)"""

    def visit_Compare(self, node):
        self.generic_visit(node)
        if len(node.ops) == 1 and isinstance(node.ops[0], (ast.Eq, ast.LtE, ast.GtE, ast.NotEq, ast.Lt, ast.Gt)):
            name = {ast.Eq: "_eq", ast.LtE: "_le", ast.GtE: "_ge", ast.NotEq: "_ne", ast.Lt: "_lt", ast.Gt: "_gt"}[type(node.ops[0])]
            return ast.copy_location(ast.Call(func=ast.Name(id=name, ctx=ast.Load()), args=[node.left, node.comparators[0]], keywords=[]), node)
        if len(node.ops) > 1:
            parts = []
            left = node.left
            for op, right in zip(node.ops, node.comparators):
                parts.append(self.visit_Compare(ast.Compare(left=left, ops=[op], comparators=[right])))
                left = right
            return ast.copy_location(ast.BoolOp(op=ast.And(), values=parts), node)
        return node


def _isnum(x):
    return isinstance(x, (int, float, np.floating, np.integer)) and not isinstance(x, bool)


def _tol(a, b):
    return TOL * max(1.0, abs(a), abs(b))


def _eq(a, b):
    if _isnum(a) and _isnum(b):
        if math.isnan(a) or math.isnan(b):
            return False
        return abs(a - b) <= _tol(a, b)
    return a == b


def _ne(a, b):
    return not _eq(a, b)


def _le(a, b):
    if _isnum(a) and _isnum(b):
        return a <= b + _tol(a, b)
    return a <= b


def _ge(a, b):
    return _le(b, a)


def _lt(a, b):
    # strict comparisons are evaluated exactly (they occur in guards, where the code itself compares exactly)
    return a < b


def _gt(a, b):
    return a > b


def _implies(a, b):
    return (not a) or b


_SPEC_GLOBALS = {"len", "sum", "all", "any", "range", "abs", "min", "max", "isinstance", "implies", "enumerate", "zip", "sorted", "list", "set", "frozenset", "tuple", "float", "int", "bool", "np", "math",
                 "True", "False", "None", "round", "TimedCompartment", "TimedLink", "SourceCompartment", "SinkCompartment", "JunctionCompartment", "ResidualJunctionCompartment", "Compartment", "Link", "Parameter",
                 "Characteristic", "Population"}


def eval_spec(expr, env, old_env, strict=False):
    tree = ast.parse("(" + expr + ")", mode="eval")

    class OldRewriter(ast.NodeTransformer):
        def visit_Call(self, node):
            if isinstance(node.func, ast.Name) and node.func.id == "old":
                inner = node.args[0]

                class Ren(ast.NodeTransformer):
                    def visit_Name(self, n):
                        if n.id in old_env:
                            return ast.copy_location(ast.Subscript(value=ast.Name(id="__old__", ctx=ast.Load()), slice=ast.Constant(n.id), ctx=ast.Load()), n)
                        if isinstance(n.ctx, ast.Load) and n.id not in _SPEC_GLOBALS:
                            # a variable bound by an enclosing quantifier: the pre-state twin of the object it denotes
                            return ast.copy_location(ast.Call(func=ast.Name(id="__oldof__", ctx=ast.Load()), args=[n], keywords=[]), n)
                        return n

                return Ren().visit(inner)
            self.generic_visit(node)
            return node

    tree = OldRewriter().visit(tree)

    class LazyImplies(ast.NodeTransformer):
        def visit_Call(self, node):
            self.generic_visit(node)
            if isinstance(node.func, ast.Name) and node.func.id == "implies" and len(node.args) == 2:
                return ast.copy_location(ast.BoolOp(op=ast.Or(), values=[ast.UnaryOp(op=ast.Not(), operand=node.args[0]), node.args[1]]), node)
            return node

    tree = LazyImplies().visit(tree)
    if not strict:
        tree = _Tolerant().visit(tree)
    ast.fix_missing_locations(tree)
    memo = old_env.get("__memo__", {}) if isinstance(old_env, dict) else {}
    g = {"_eq": _eq, "_ne": _ne, "_le": _le, "_ge": _ge, "_lt": _lt, "_gt": _gt, "implies": _implies, "__old__": old_env, "np": np, "math": math,
         "__oldof__": (lambda x: memo.get(id(x), x))}
    modname = env.get("__module__")
    if modname:
        m = importlib.import_module("atomica." + modname)
        for k in dir(m):
            if not k.startswith("__"):
                g.setdefault(k, getattr(m, k))
    g.update(env)
    return eval(compile(tree, "<spec>", "eval"), g)


class _StubNS:
    """stand-in for an external collaborator (e.g. a TimeSeries) in replays: only the stubbed members exist"""


class _StubCallable:
    """stands for an external callable that is stubbed both as a call (its result) and as a value (its truth)"""

    def __init__(self, result, truth=True):
        self.result = result
        self.truth = truth

    def __call__(self, *a, **k):
        v = self.result
        return np.array(v, dtype=float).copy() if isinstance(v, (list, np.ndarray)) else v

    def __bool__(self):
        return bool(self.truth)


def install_stubs(self_obj, stubs, values, ghost_kinds=None):
    """make the real method see the contract's ghost values for the stubbed external sub-expressions"""
    overrides = {}
    called = {}
    # calls first, so that a stub for the bare attribute (its truth value) refines the callable instead of replacing it
    order = sorted(stubs.items(), key=lambda kv: 0 if isinstance(ast.parse(kv[0], mode="eval").body, ast.Call) else 1)
    for key, gname in order:
        val = values.get(gname)
        if val is None and ghost_kinds and str(ghost_kinds.get(gname, "")).startswith("const:"):
            val = eval(ghost_kinds[gname][6:], {})
        node = ast.parse(key, mode="eval").body

        def holder(attr_node):
            # attr_node: Attribute chain rooted at `self`; returns the object that carries the last attribute
            chain = []
            cur = attr_node
            while isinstance(cur, ast.Attribute):
                chain.append(cur.attr)
                cur = cur.value
            chain.reverse()
            obj = self_obj
            for a in chain[:-1]:
                nxt = obj.__dict__.get(a) if hasattr(obj, "__dict__") else None
                if not isinstance(nxt, _StubNS):
                    nxt = _StubNS()
                    obj.__dict__[a] = nxt
                obj = nxt
            return obj, chain[-1], len(chain)

        if isinstance(node, ast.Call) and isinstance(node.func, ast.Attribute):
            obj, name, depth = holder(node.func)
            obj.__dict__[name] = _StubCallable(val)
            called[(id(obj), name)] = obj.__dict__[name]
        elif isinstance(node, ast.Attribute):
            obj, name, depth = holder(node)
            if (id(obj), name) in called:
                called[(id(obj), name)].truth = val
            elif depth == 1 and isinstance(getattr(type(self_obj), name, None), property):
                overrides[name] = property((lambda v: (lambda self: v))(val))
            else:
                obj.__dict__[name] = val
        elif isinstance(node, ast.Compare) and isinstance(node.ops[0], ast.In) and isinstance(node.left, ast.Constant) and isinstance(node.comparators[0], ast.Attribute):
            obj, name, depth = holder(node.comparators[0])
            obj.__dict__[name] = ("x" + node.left.value) if val else "x"
    if overrides:
        cls = type(type(self_obj).__name__ + "WithStubs", (type(self_obj),), overrides)
        new = object.__new__(cls)
        new.__dict__.update(self_obj.__dict__)
        return new
    return self_obj


def run_replay(desc, contract, clause_name=None):
    """returns dict(verdict=..., detail=...) with verdict in
       'violates' (requires hold concretely, the clause fails on the real code), 'holds', 'requires-fail', 'error'"""
    out = {"function": desc["function"], "clause": clause_name}
    try:
        objs, self_obj, args = build(desc)
    except Exception as e:
        return dict(out, verdict="error", detail="cannot build objects: %s: %s" % (type(e).__name__, e))
    modname, rest = desc["function"].split("#")[0].split(":")
    mod = importlib.import_module("atomica." + modname)
    if contract.get("stubs") and self_obj is not None:
        try:
            self_obj = install_stubs(self_obj, contract["stubs"], args, contract.get("ghost_params"))
        except Exception as e:
            return dict(out, verdict="error", detail="cannot install stubs: %s: %s" % (type(e).__name__, e))
    if self_obj is None and "self" in args:
        self_obj = args.pop("self")  # a contract-built receiver of concrete shape
    env = dict(args)
    if self_obj is not None:
        env["self"] = self_obj
    env["__module__"] = modname
    if contract.get("replay_prepare"):
        # contract-specific collaborators for stubbed sub-expressions that are not rooted at `self` (fragment contracts)
        try:
            contract["replay_prepare"](env)
        except Exception as e:
            return dict(out, verdict="error", detail="replay_prepare failed: %s: %s" % (type(e).__name__, e))
    try:
        for r in contract.get("requires", []):
            if not eval_spec(r, env, {}, strict=True):
                return dict(out, verdict="requires-fail", detail="requires clause not met concretely: %s" % r)
    except Exception as e:
        return dict(out, verdict="requires-fail", detail="requires raised %s: %s" % (type(e).__name__, e))
    memo = {}
    old_env = {k: snapshot(v, memo) for k, v in env.items() if k != "__module__"}
    old_env["__memo__"] = memo  # live object id -> its pre-state twin (for old() of a quantified variable)
    # call the real function (or, for a contract on a loop body, execute the real statements of that body)
    frag = contract.get("fragment")
    if frag is not None:
        import inspect, textwrap

        cls, meth = rest.split(".", 1) if "." in rest else (None, rest)
        fobj = getattr(getattr(mod, cls), meth) if cls else getattr(mod, meth)
        src = textwrap.dedent(inspect.getsource(fobj))
        ftree = ast.parse(src)
        if "after" in frag:
            fbody = ftree.body[0].body
            idx = [i for i, st in enumerate(fbody) if ast.unparse(st).replace('"', "'").startswith(frag["after"].replace('"', "'"))]
            hits = [ast.For(target=None, iter=None, body=fbody[idx[0] + 1:], orelse=[])]
        elif "stmt_top" in frag:
            fbody = ftree.body[0].body
            hits = [ast.For(target=None, iter=None, body=[st for st in fbody if ast.unparse(st).replace('"', "'").startswith(frag["stmt_top"].replace('"', "'"))], orelse=[])]
        elif "before" in frag:
            fbody = ftree.body[0].body
            idx = [i for i, st in enumerate(fbody) if ast.unparse(st).replace('"', "'").startswith(frag["before"].replace('"', "'"))]
            hits = [ast.For(target=None, iter=None, body=[st for st in fbody[: idx[0]] if not (isinstance(st, ast.Expr) and isinstance(st.value, ast.Constant))], orelse=[])]
        elif "iter" not in frag:
            hits = [n for n in ast.walk(ftree) if isinstance(n, ast.For)]
        else:
            hits = [n for n in ast.walk(ftree) if isinstance(n, ast.For) and ast.unparse(n.iter).replace('"', "'") == frag["iter"].replace('"', "'")]
        if frag.get("body_contains"):
            hits = [n for n in hits if frag["body_contains"] in "\n".join(ast.unparse(b) for b in n.body)]
        loop = ast.For(target=ast.Name(id="_once", ctx=ast.Store()), iter=ast.List(elts=[ast.Constant(0)], ctx=ast.Load()), body=hits[0].body, orelse=[])
        code = compile(ast.fix_missing_locations(ast.Module(body=[loop], type_ignores=[])), "<fragment of %s>" % desc["function"], "exec")
        fenv = dict(vars(mod))
        fenv.update({k: v for k, v in env.items() if k != "__module__"})

        assigned = {x.id for st in hits[0].body for x in ast.walk(st) if isinstance(x, ast.Name) and isinstance(x.ctx, ast.Store)}

        def call():
            try:
                exec(code, fenv)
            finally:
                env.update({k: fenv[k] for k in assigned if k in fenv})  # locals the fragment binds are visible to the clauses

    elif "." in rest:
        cls, meth = rest.split(".", 1)
        if meth.endswith(".setter"):
            name = meth[: -len(".setter")]
            call = lambda: setattr(self_obj, name, list(args.values())[0])
        else:
            f = getattr(type(self_obj), meth, None)
            fn = getattr(mod, cls).__dict__.get(meth)
            if isinstance(fn, property):
                call = lambda: fn.fget(self_obj)
            else:
                import inspect

                accepted = set(inspect.signature(getattr(type(self_obj), meth)).parameters)
                call = lambda: getattr(self_obj, meth)(**{k: v for k, v in args.items() if k in accepted})  # ghost parameters are spec-only
    else:
        import inspect

        sig = inspect.signature(getattr(mod, rest)).parameters
        star = [k for k, prm in sig.items() if prm.kind == inspect.Parameter.VAR_POSITIONAL]
        accepted = set(sig) - set(star)
        call = lambda: getattr(mod, rest)(*[x for k in star for x in args.get(k, ())], **{k: v for k, v in args.items() if k in accepted})  # `*args` of the real function are passed positionally
    exc = None
    result = None
    with np.errstate(all="ignore"):
        try:
            result = call()
        except Exception as e:
            exc = e
    out["raised"] = type(exc).__name__ if exc is not None else None
    if exc is not None:
        allowed = contract.get("raises", {})
        if type(exc).__name__ in allowed:
            return dict(out, verdict="holds", detail="raised allowed %s" % type(exc).__name__)
        return dict(out, verdict="violates", detail="real code raised %s: %s" % (type(exc).__name__, exc))
    env["result"] = result
    failed = []
    for entry in contract.get("ensures", []):
        ename, expr = entry if isinstance(entry, tuple) else ("ensures", entry)
        if clause_name and not clause_name.startswith(ename):
            continue
        try:
            ok = bool(eval_spec(expr, env, old_env))
        except Exception as e:
            return dict(out, verdict="error", detail="clause %s raised %s: %s" % (ename, type(e).__name__, e))
        if not ok:
            failed.append(ename)
    if failed:
        return dict(out, verdict="violates", detail="clauses failing on the real code: %s" % failed, failed=failed)
    return dict(out, verdict="holds", detail="all selected clauses hold on the real code for this input")


def snapshot(x, memo):
    """structural deep copy that does not use the classes' own __deepcopy__/__getstate__ hooks (objects built by the
    replay harness carry only the fields of the schema)"""
    if id(x) in memo:
        return memo[id(x)]
    import types

    if isinstance(x, np.ndarray):
        y = x.copy()
    elif isinstance(x, (int, float, str, bool, type(None), np.generic, tuple, frozenset, types.FunctionType, types.MethodType, types.BuiltinFunctionType, type)):
        return x
    elif isinstance(x, list):
        y = []
        memo[id(x)] = y
        y.extend(snapshot(v, memo) for v in x)
        return y
    elif isinstance(x, dict):
        y = type(x)() if type(x) is dict else {}
        memo[id(x)] = y
        for k, v in x.items():
            y[k] = snapshot(v, memo)
        return y
    elif hasattr(x, "__dict__"):
        y = object.__new__(type(x))
        memo[id(x)] = y
        for k, v in x.__dict__.items():
            y.__dict__[k] = snapshot(v, memo)
        return y
    else:
        y = copy.copy(x)
    memo[id(x)] = y
    return y


def jsonable(x):
    if isinstance(x, dict):
        return {str(k): jsonable(v) for k, v in x.items()}
    if isinstance(x, (list, tuple)):
        return [jsonable(v) for v in x]
    if isinstance(x, (np.floating, np.integer)):
        return x.item()
    if isinstance(x, np.ndarray):
        return x.tolist()
    if isinstance(x, float) and (math.isnan(x) or math.isinf(x)):
        return repr(x)
    if isinstance(x, (int, float, str, bool)) or x is None:
        return x
    return repr(x)
