"""
pyvc.sums -- unbounded finite sums.

A sum  SUM_{lo <= k < hi} g(k)  is never unrolled.  Its summand is normalised into a linear combination

      g(k) = SUM_m  c_m * ite(G_m(k), a_m(k), 0)          c_m free of k

and represented as  SUM_m c_m * (A_m(hi) - A_m(lo))  where every A_m is the *prefix-sum function* of the atom
(G_m, a_m):   A_m(0) = 0,  A_m(j+1) = A_m(j) + ite(G_m(j), a_m(j), 0).
A_m is an uninterpreted z3 function; its extra arguments are the free constants of the atom (so substituting one of
them later gives the sum of the substituted summand).  Atoms are hash-consed on their text, so two loops / spec
sums over the same summand are the same term.  What z3 may use about A_m:

  * the unfolding at explicitly requested points (the inductive-step check of a loop summary, boundaries 0, hi-1);
  * lemma instances: NONNEG, ZERO, ELEM (a nonneg summand is bounded by its sum), MONO-prefix, EXT (pointwise equal
    summands), SHIFT (index shift).  The side condition of an instance (a pointwise fact for a *fresh* k) is proved
    by z3 under the assumptions of the obligation at hand before the instance is added.
  * the generic lemmas themselves are proved by induction (base + step VC over uninterpreted summands) on every run:
    pyvc.lemmas.

The normalisation identity is checked by z3 (pure algebra, no assumptions) whenever a sum is created.
"""
import z3
from .core import fresh, contains, is_z3, to_real, to_z3num, Unsupported, conj, neg, ite

K = z3.Int("K!")  # canonical bound variable of atoms


class Atom:
    """prefix sum of ite(guard(K), term(K), 0) with free constants `fvs`"""

    def __init__(self, key, guard, term, fvs, idx):
        self.key = key
        self.guard = guard  # z3 Bool over K and fvs, or True
        self.term = term  # z3 Real over K and fvs
        self.fvs = fvs  # list of z3 constants
        self.fn = z3.Function("SUM%d" % idx, z3.IntSort(), *[v.sort() for v in fvs], z3.RealSort())

    def app(self, j, args=None):
        args = self.fvs if args is None else args
        return self.fn(to_z3num(j), *args)

    def summand(self, k, args=None):
        pairs = [(K, to_z3num(k))]
        if args is not None and len(self.fvs):
            pairs += list(zip(self.fvs, args))
        t = z3.substitute(self.term, *pairs)
        if self.guard is True:
            return t
        return z3.If(z3.substitute(self.guard, *pairs), t, z3.RealVal(0))

    def guard_at(self, k, args=None):
        if self.guard is True:
            return z3.BoolVal(True)
        pairs = [(K, to_z3num(k))]
        if args is not None:
            pairs += list(zip(self.fvs, args))
        return z3.substitute(self.guard, *pairs)

    def term_at(self, k, args=None):
        pairs = [(K, to_z3num(k))]
        if args is not None:
            pairs += list(zip(self.fvs, args))
        return z3.substitute(self.term, *pairs)


ATOMS = {}  # key -> Atom
ATOM_BY_FN = {}  # fn name -> Atom


def reset():
    ATOMS.clear()
    ATOM_BY_FN.clear()


def free_consts(t, acc=None, seen=None):
    """maximal sub-terms of t that do not mention the bound variable K! (and are not literal values), in order of first
    appearance: they become the arguments of the atom's prefix-sum function, so that e.g. the same summand at row i and at
    row R-1 is the same function applied to different arguments"""
    acc = [] if acc is None else acc
    seen = set() if seen is None else seen
    has_k = {}

    def mentions(x):
        i = x.get_id()
        if i not in has_k:
            has_k[i] = x.eq(K) or any(mentions(c) for c in x.children())
        return has_k[i]

    def is_value(x):
        return z3.is_int_value(x) or z3.is_rational_value(x) or z3.is_true(x) or z3.is_false(x) or z3.is_algebraic_value(x)

    def walk(x):
        if not mentions(x):
            if is_value(x):
                return
            if x.get_id() not in seen:
                seen.add(x.get_id())
                acc.append(x)
            return
        for c in x.children():
            walk(c)

    walk(t)
    return acc


_placeholders = {}


def _placeholder(i, sort):
    key = (i, sort.name())
    if key not in _placeholders:
        _placeholders[key] = z3.Const("FV!%d:%s" % (i, sort.name()), sort)
    return _placeholders[key]


def get_atom(guard, term):
    """-> (Atom, actual arguments).  Atoms are alpha-canonical: the free constants of (guard, term) are abstracted into
    positional placeholders in order of first appearance, so the same summand over different constants is one function."""
    term = z3.simplify(term)
    if guard is not True:
        guard = z3.simplify(guard)
        if z3.is_true(guard):
            guard = True
    fvs = free_consts(term)
    if guard is not True:
        seen = {v.get_id() for v in fvs}
        for v in free_consts(guard):
            if v.get_id() not in seen:
                seen.add(v.get_id())
                fvs.append(v)
    phs = [_placeholder(i, v.sort()) for i, v in enumerate(fvs)]
    pairs = list(zip(fvs, phs))
    cterm = z3.substitute(term, *pairs) if pairs else term
    cguard = guard if guard is True else (z3.substitute(guard, *pairs) if pairs else guard)
    key = ("T" if cguard is True else cguard.sexpr()) + " ? " + cterm.sexpr()
    if key not in ATOMS:
        a = Atom(key, cguard, cterm, phs, len(ATOMS))
        ATOMS[key] = a
        ATOM_BY_FN[a.fn.name()] = a
    return ATOMS[key], fvs


# ------------------------------------------------------------------------------------------------ normaliser
def _neg(entries):
    return [(g, -c, a) for g, c, a in entries]


def _mul(e1, e2):
    out = []
    for g1, c1, a1 in e1:
        for g2, c2, a2 in e2:
            if a1 is None:
                a = a2
            elif a2 is None:
                a = a1
            else:
                a = a1 * a2
            out.append((conj(g1, g2), c1 * c2, a))
    return out


def _conjuncts(c):
    if z3.is_not(c) and z3.is_not(c.arg(0)):
        return _conjuncts(c.arg(0).arg(0))
    if z3.is_and(c):
        out = []
        for x in c.children():
            out += _conjuncts(x)
        return out
    return [c]


def normalise(t, k):
    """t: z3 arithmetic term, k: z3 Int constant.  Returns list of (guard, coeff, atomterm|None) with guard/atom
    mentioning k and coeff free of k.  guard is True or a z3 Bool."""
    t = to_real(t)
    if not contains(t, k):
        return [(True, t, None)]
    kind = t.decl().kind()
    ch = t.children()
    if kind == z3.Z3_OP_ADD:
        out = []
        for c in ch:
            out += normalise(c, k)
        return out
    if kind == z3.Z3_OP_SUB:
        out = normalise(ch[0], k)
        for c in ch[1:]:
            out += _neg(normalise(c, k))
        return out
    if kind == z3.Z3_OP_UMINUS:
        return _neg(normalise(ch[0], k))
    if kind == z3.Z3_OP_MUL:
        out = normalise(ch[0], k)
        for c in ch[1:]:
            out = _mul(out, normalise(c, k))
        return out
    if kind == z3.Z3_OP_DIV and not contains(ch[1], k):
        return [(g, c * (z3.RealVal(1) / ch[1]), a) for g, c, a in normalise(ch[0], k)]
    if kind == z3.Z3_OP_ITE:
        c, a, b = ch
        if contains(c, k):
            if z3.is_not(c):
                return normalise(z3.If(c.arg(0), b, a), k)
            if z3.is_or(c):
                # ite(c1 or rest, a, b) = ite(c1, a, ite(rest, a, b)): keeps the guards of atoms conjunctive
                cs = c.children()
                rest = z3.Or(cs[1:]) if len(cs) > 2 else cs[1]
                return normalise(z3.If(cs[0], a, z3.If(rest, a, b)), k)
        ea, eb = normalise(a, k), normalise(b, k)
        if contains(c, k):
            # split the condition into its k-free conjuncts F (they become an indicator coefficient) and the rest D
            free, dep = [], []
            for cj in _conjuncts(c):
                (dep if contains(cj, k) else free).append(cj)
            if free and dep:
                F = z3.And(free) if len(free) > 1 else free[0]
                D = z3.And(dep) if len(dep) > 1 else dep[0]
                ind = z3.If(F, z3.RealVal(1), z3.RealVal(0))
                nind = z3.If(F, z3.RealVal(0), z3.RealVal(1))
                return ([(conj(D, g), co * ind, at) for g, co, at in ea] + [(conj(z3.Not(D), g), co * ind, at) for g, co, at in eb] + [(g, co * nind, at) for g, co, at in eb])
            return [(conj(c, g), co, at) for g, co, at in ea] + [(conj(z3.Not(c), g), co, at) for g, co, at in eb]
        ind = z3.If(c, z3.RealVal(1), z3.RealVal(0))
        nind = z3.If(c, z3.RealVal(0), z3.RealVal(1))
        return [(g, co * ind, at) for g, co, at in ea] + [(g, co * nind, at) for g, co, at in eb]
    if kind == z3.Z3_OP_TO_REAL and ch[0].decl().kind() in (z3.Z3_OP_ADD, z3.Z3_OP_SUB, z3.Z3_OP_ITE, z3.Z3_OP_MUL):
        return [(True, z3.RealVal(1), t)]
    return [(True, z3.RealVal(1), t)]


class SumFailure(Unsupported):
    pass


def _inv_div(t, k, memo):
    key = t.get_id()
    if key in memo:
        return memo[key]
    if not contains(t, k) or t.num_args() == 0:
        memo[key] = t
        return t
    ch = [_inv_div(c, k, memo) for c in t.children()]
    if t.decl().kind() == z3.Z3_OP_DIV and not contains(ch[1], k):
        res = ch[0] * (z3.RealVal(1) / ch[1])
    else:
        res = t.decl()(*ch) if any(not a.eq(b) for a, b in zip(ch, t.children())) else t
    memo[key] = res
    return res


_norm_checks = {"count": 0, "time": 0.0}


def make_sum(summand_fn, lo, hi, obligations=None, rewriter=None, guard_simplifier=None):
    """
    SUM_{lo <= k < hi} summand_fn(k) as a z3 Real term (a linear combination of atom prefix sums).
    summand_fn: callable taking a z3 Int term and returning a number term.
    """
    # evaluate the summand at a FRESH index (the canonical K! may be bound by an inner sum created while evaluating it);
    # K! is substituted afterwards, so inner prefix-sum applications receive it in argument position only
    kf = fresh("kf", z3.IntSort())
    g = summand_fn(kf)
    if not is_z3(g):
        g = to_z3num(g)
    g = to_real(g)
    if contains(g, K):
        raise SumFailure("summand mentions the canonical bound variable")
    g = z3.substitute(z3.simplify(g, som=False), (kf, K))
    k = K
    # a/d with d free of the bound variable is read as a*(1/d): the two terms differ only for d = 0, where the value is
    # undefined anyway (a definedness obligation is generated at the division site)
    g = _inv_div(g, k, {})
    if rewriter is not None:
        g = rewriter(g)
    entries = normalise(g, k)
    if guard_simplifier is not None:
        kept = []
        for guard, coeff, atom in entries:
            if guard is not True:
                # conjunct by conjunct: drop what the range (and the caller's assumptions) entail, drop the entry if one is refuted
                keep = []
                dead = False
                for cj in _conjuncts(guard):
                    r = guard_simplifier(cj)
                    if r is True:
                        continue
                    if r is False:
                        dead = True
                        break
                    if z3.is_not(cj) and z3.is_and(cj.arg(0)):
                        # not (x and y) where the range entails x: not y
                        inner = []
                        r2 = None
                        for x in cj.arg(0).children():
                            rx = guard_simplifier(x)
                            if rx is True:
                                continue
                            if rx is False:
                                r2 = True
                                break
                            inner.append(x)
                        if r2 is True:
                            continue
                        if not inner:
                            dead = True
                            break
                        cj = z3.Not(z3.And(inner) if len(inner) > 1 else inner[0])
                    keep.append(cj)
                if dead:
                    continue
                guard = True if not keep else (z3.And(keep) if len(keep) > 1 else keep[0])
            kept.append((guard, coeff, atom))
        dropped = len(kept) != len(entries) or any(not (a[0] is b[0] or (a[0] is not True and b[0] is not True and a[0].eq(b[0]))) for a, b in zip(kept, entries))
        entries = kept
    else:
        dropped = False
    # conjuncts of a guard that do not mention the bound variable are the same for every term of the sum: they become an indicator coefficient.
    # not (D and F) with F free of the bound variable is ite(F, not D, true): two entries
    def hoist(conjs, coeff, atom):
        free, dep = [], []
        for i, cj in enumerate(conjs):
            if not contains(cj, k):
                free.append(cj)
                continue
            if z3.is_not(cj) and z3.is_and(cj.arg(0)):
                F = [x for x in cj.arg(0).children() if not contains(x, k)]
                D = [x for x in cj.arg(0).children() if contains(x, k)]
                if F and D:
                    Fc = z3.And(F) if len(F) > 1 else F[0]
                    Dc = z3.Not(z3.And(D) if len(D) > 1 else D[0])
                    rest = free + dep + list(conjs[i + 1:])
                    return (hoist(rest + [Dc], coeff * z3.If(Fc, z3.RealVal(1), z3.RealVal(0)), atom) + hoist(rest, coeff * z3.If(Fc, z3.RealVal(0), z3.RealVal(1)), atom))
            dep.append(cj)
        if free:
            coeff = coeff * z3.If(z3.And(free) if len(free) > 1 else free[0], z3.RealVal(1), z3.RealVal(0))
        return [(True if not dep else (z3.And(dep) if len(dep) > 1 else dep[0]), coeff, atom)]

    hoisted = []
    for guard, coeff, atom in entries:
        hoisted += [(guard, coeff, atom)] if guard is True else hoist(_conjuncts(guard), coeff, atom)
    entries = hoisted
    # group
    grouped = {}
    order = []
    for guard, coeff, atom in entries:
        if atom is None and guard is True:
            a, actual = get_atom(True, z3.RealVal(1))
        else:
            a, actual = get_atom(guard, atom if atom is not None else z3.RealVal(1))
        gkey = (a.key, tuple(x.get_id() for x in actual))
        if gkey not in grouped:
            grouped[gkey] = [a, coeff, actual]
            order.append(gkey)
        else:
            grouped[gkey][1] = grouped[gkey][1] + coeff
    # check the normalisation identity (pure algebra)
    recon = z3.RealVal(0)
    for key in order:
        a, c, actual = grouped[key]
        recon = recon + c * a.summand(k, actual)
    import time

    t0 = time.time()
    s = z3.Solver()
    s.set("timeout", 20000)
    s.add(g != recon)
    r = s.check() if not dropped else z3.unsat  # (guards simplified under the range assumption were proved by the caller)
    _norm_checks["count"] += 1
    _norm_checks["time"] += time.time() - t0
    if r != z3.unsat:
        raise SumFailure("summand normalisation identity not established (%s): %s" % (r, g))
    lo = to_z3num(lo)
    hi = to_z3num(hi)
    total = None
    for key in order:
        a, c, actual = grouped[key]
        if a.key == "T ? 1.0":
            part = c * to_real(hi - lo)
        else:
            part = c * (a.app(hi, actual) - a.app(lo, actual))
        total = part if total is None else total + part
    if total is None:
        total = z3.RealVal(0)
    return z3.simplify(total)


# ------------------------------------------------------------------------------------------------ finding applications
def atom_apps(terms):
    """all applications A(j, args) of atom prefix functions occurring in the given terms -> list of (Atom, j, args, term)"""
    from .core import uninterp_apps

    out = {}
    for t in terms:
        for x in uninterp_apps(t):
            if x.get_id() in out:
                continue
            name = x.decl().name()
            if name in ATOM_BY_FN:
                a = ATOM_BY_FN[name]
                ch = x.children()
                out[x.get_id()] = (a, ch[0], ch[1:], x)
    return list(out.values())


def unfold_fact(atom, j, args=None):
    """A(j+1) == A(j) + summand(j)"""
    j = to_z3num(j)
    return atom.app(j + 1, args) == atom.app(j, args) + atom.summand(j, args)


def base_fact(atom, args=None):
    return atom.app(0, args) == 0
