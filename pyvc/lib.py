"""
pyvc.lib -- stated semantics of the builtins / numpy / math / sciris functions the verified code calls.

These are *assumed contracts on dependencies* (listed in every evidence file through Interp.assumptions_log) and are
differentially tested against the installed numpy by tests/test_lib.py and by the CPython cross-check.
"""
import ast
import math
import z3
import numpy as np

from . import core, sums
from .core import ObjV, SymList, MapSeq, LArr, LArr2, HeapArr1, HeapArr2, HeapCol, Opaque, Unsupported, is_z3, to_z3num, to_real, ite, conj, disj, neg, NONE, CLASSES, str_const
from .interp import (ImpliesV, PyObjV, FuncBound, ClassV, FuncV, LambdaV, BoundMethod, ArrMethod, ModuleV, BuiltinV, GenV, ForallV, ExistsV, _Raise, _Return, is_arr, is_arr2, is_concrete, concrete_int, simp, Infeasible)

EXC_BASES = {
    "Exception": [], "AssertionError": ["Exception"], "ValueError": ["Exception"], "KeyError": ["LookupError"], "IndexError": ["LookupError"], "LookupError": ["Exception"],
    "TypeError": ["Exception"], "AttributeError": ["Exception"], "NameError": ["Exception"], "UnboundLocalError": ["NameError"], "ZeroDivisionError": ["ArithmeticError"],
    "ArithmeticError": ["Exception"], "NotImplementedError": ["RuntimeError"], "RuntimeError": ["Exception"], "StopIteration": ["Exception"], "SyntaxError": ["Exception"],
    "ModelError": ["Exception"], "BadInitialization": ["Exception"], "NotFoundError": ["Exception"], "InvalidFramework": ["Exception"], "InvalidDatabook": ["Exception"],
    "InvalidProgramBook": ["Exception"], "FailedConstraint": ["Exception"], "UnresolvableConstraint": ["Exception"], "InvalidInitialConditions": ["Exception"],
}


def exception_is_subclass(it, exc, base):
    if exc == base:
        return True
    if base in ("BaseException",):
        return True
    for b in EXC_BASES.get(exc, ["Exception"] if exc != "Exception" else []):
        if exception_is_subclass(it, b, base):
            return True
    return False


# ------------------------------------------------------------------------------------------------ names
def global_name(it, name, node=None):
    m = it.module
    if name in m.classes:
        return ClassV(name, m)
    if name in m.functions:
        return FuncV(m.functions[name])
    if name in m.imports:
        target = m.imports[name]
        if target in ("numpy",):
            return ModuleV("numpy")
        if target == "math":
            return ModuleV("math")
        if target == "sciris":
            return ModuleV("sciris")
        if target in ("ast",):
            import importlib

            return importlib.import_module(target)  # standard-library module used through concrete objects only
        if isinstance(target, str) and target.endswith(":FrameworkSettings"):
            import atomica.system

            return atomica.system.FrameworkSettings
        if isinstance(target, str) and target.endswith(":logger"):
            return Opaque("logger")
        if isinstance(target, str) and ":" in target:
            modpart, sym = target.split(":")
            modname = modpart.lstrip(".")
            if modpart.startswith(".") and modname:
                from . import source

                try:
                    other = source.load(modname)
                except Exception:
                    other = None
                if other is not None:
                    if sym in other.classes:
                        return ClassV(sym, other)
                    if sym in other.functions:
                        return FuncV(other.functions[sym])
            if sym in EXC_BASES:
                return ClassV(sym, None)
            if modpart == "functools" and sym == "reduce":
                return BuiltinV("reduce", b_reduce)
            if modpart == "bisect" and sym in BUILTINS:
                return BuiltinV(sym, BUILTINS[sym])
            if modpart == "numpy" or modpart.startswith("numpy"):
                return module_attr(it, ModuleV("numpy"), sym)
            if modpart == "math":
                return module_attr(it, ModuleV("math"), sym)
            return Opaque("import:%s" % target)
        return ModuleV(target)
    if name in m.globals_const:
        v = m.globals_const[name]
        try:
            return it.eval(v, {})
        except Unsupported:
            return Opaque("global:%s" % name)
    if name in BUILTINS:
        return BuiltinV(name, BUILTINS[name])
    if name in EXC_BASES:
        return ClassV(name, None)
    if name in it.ghost:
        return it.ghost[name]
    import builtins as _builtins

    if hasattr(_builtins, name):
        # a Python builtin the engine has no semantics for: the name IS bound in the real interpreter -- undecided, never a NameError
        raise Unsupported("builtin %s has no stated semantics" % name)
    it.oblige("defined", "name-bound:%s@L%s" % (name, getattr(node, "lineno", "?")), False, getattr(node, "lineno", None), note="NameError/UnboundLocalError")
    raise _Raise("NameError", node)


def module_attr(it, m, attr):
    if m.name in ("numpy", "np"):
        if attr in NP:
            return BuiltinV("np." + attr, NP[attr])
        if attr in ("inf",):
            return float("inf")
        if attr == "nan":
            return float("nan")
        if attr == "ndarray":
            return np.ndarray  # only meaningful as the second argument of isinstance
        if attr == "pi":
            return math.pi
        if attr == "random":
            return ModuleV("numpy.random")
        if attr == "linalg":
            return ModuleV("numpy.linalg")
        raise Unsupported("numpy.%s has no stated semantics" % attr)
    if m.name == "numpy.random":
        if attr == "seed":
            def seed(it, *a, **k):
                # np.random.seed() without arguments re-seeds the process-global generator from OS entropy
                it.ghost["rng_reseeded_from_entropy"] = (len(a) == 0 or a[0] is None) and not k
                return None

            return BuiltinV("np.random.seed", seed)
        raise Unsupported("numpy.random.%s has no stated semantics (stub it in the contract)" % attr)
    if m.name == "math":
        if attr == "ceil":
            return BuiltinV("math.ceil", b_ceil)
        if attr == "floor":
            return BuiltinV("math.floor", b_floor)
        if attr in ("pi", "inf", "e"):
            return getattr(math, attr)
        raise Unsupported("math.%s" % attr)
    if m.name == "sciris":
        if attr == "promotetoarray":
            return BuiltinV("sc.promotetoarray", sc_promotetoarray)
        if attr == "odict":
            return BuiltinV("sc.odict", lambda it, *a, **k: dict(*a, **k))
        if attr == "dcp":
            return BuiltinV("sc.dcp", sc_dcp)
        if attr == "promotetolist":
            def promotetolist(it, x=None, *a, keepnone=False, **k):
                # sciris: None -> [] (or [None] with keepnone), a list stays, a tuple / array becomes a list, anything else is wrapped
                if x is None:
                    return [None] if keepnone else []
                if isinstance(x, list):
                    return x
                if isinstance(x, tuple):
                    return list(x)
                if is_arr(x):
                    n = concrete_int(it.arr_len(x))
                    if n is None:
                        raise Unsupported("sc.promotetolist of an array of symbolic length")
                    rd = it.arr_reader(x)
                    return [rd(i) for i in range(n)]
                return [x]

            it.assumptions_log.add("sc.promotetolist: None -> [], a list stays, anything else is wrapped in a list")
            return BuiltinV("sc.promotetolist", promotetolist)
        if attr == "isstring":
            return BuiltinV("sc.isstring", lambda it, x: isinstance(x, str))
        raise Unsupported("sciris.%s has no stated semantics" % attr)
    raise Unsupported("attribute %s of module %s" % (attr, m.name))


# ------------------------------------------------------------------------------------------------ calls
def eval_call(it, node, env):
    f = node.func
    # logger.* calls are pure no-ops (asserted to be expression statements by the front end)
    if isinstance(f, ast.Attribute) and isinstance(f.value, ast.Name) and f.value.id == "logger":
        return None
    # spec vocabulary
    if isinstance(f, ast.Name) and f.id in SPEC_FORMS and f.id not in env:
        return SPEC_FORMS[f.id](it, node, env)
    # super().__init__ / super().method
    if isinstance(f, ast.Attribute) and isinstance(f.value, ast.Call) and isinstance(f.value.func, ast.Name) and f.value.func.id == "super":
        cur = it.func_stack[-1] if it.func_stack else None
        cls = cur.split(":")[1].split(".")[0]
        bases = it.module.classes[cls][1]
        fi = None
        for b in bases:
            fi = it.module.resolve_method(b, f.attr)
            if fi:
                break
        if fi is None:
            raise Unsupported("super().%s" % f.attr)
        args, kwargs = eval_args(it, node, env)
        return it.call_function(fi, [env["self"]] + args, kwargs, node)
    cs = getattr(it, "call_stubs", None)
    if cs:
        key = ast.unparse(f)
        if key in cs:
            if callable(cs[key]):
                # the contract gives the external callee as a function of its (evaluated) arguments, built from ghost values
                it.assumptions_log.add("external call %s(...): replaced by the contract's ghost function (assumed contract on a dependency)" % key)
                args, kwargs = eval_args(it, node, env)
                it.stub_receiver = None
                if isinstance(f, ast.Attribute):
                    try:
                        it.stub_receiver = it.eval(f.value, env)  # the object the stubbed method is called on (for ghosts that depend on it)
                    except (Unsupported, _Raise):
                        pass
                return cs[key](it, *args, **kwargs)
            it.assumptions_log.add("external call %s(...): result havocked (the contract's ghost value %s; nothing is assumed about it)" % (key, cs[key]))
            return it.ghost_env[cs[key]]
    fv = it.eval(f, env)
    args, kwargs = eval_args(it, node, env)
    return apply(it, fv, args, kwargs, node)


def eval_args(it, node, env):
    args = []
    for a in node.args:
        if isinstance(a, ast.Starred):
            v = it.iterable(it.eval(a.value, env))
            if not isinstance(v, list):
                raise Unsupported("*args with symbolic sequence")
            args += v
        else:
            args.append(it.eval(a, env))
    kwargs = {}
    for k in node.keywords:
        if k.arg is None:
            v = it.eval(k.value, env)
            if not isinstance(v, dict):
                raise Unsupported("**kwargs with non-dict")
            kwargs.update(v)
        else:
            kwargs[k.arg] = it.eval(k.value, env)
    return args, kwargs


def apply(it, fv, args, kwargs, node=None):
    if isinstance(fv, BuiltinV):
        return fv.fn(it, *args, **kwargs)
    if isinstance(fv, FuncV):
        fi = fv.info
        fi.closure_env = fv.closure_env
        return call_with_contract(it, fi, None, args, kwargs, node)
    if isinstance(fv, LambdaV):
        e2 = dict(fv.env)
        params = [p.arg for p in fv.node.args.args]
        for p, a in zip(params, args):
            e2[p] = a
        return it.eval(fv.node.body, e2)
    if isinstance(fv, BoundMethod):
        o = fv.obj
        if isinstance(o, ClassV):
            fi = o.module.resolve_method(o.name, fv.name)
            return call_with_contract(it, fi, None, [o] + args, kwargs, node)
        impls = it._resolve(o, fv.name)
        if it.spec_mode:
            return it.call_merged(o, fv.name, impls, args, kwargs, node)
        fi = it._dispatch(o, fv.name, impls)
        return call_with_contract(it, fi, o, [o] + args, kwargs, node)
    if isinstance(fv, FuncBound):
        return it.call_function(fv.info, [fv.obj] + args, kwargs, node)
    if isinstance(fv, ArrMethod):
        return arr_method(it, fv.arr, fv.name, args, kwargs, node)
    if isinstance(fv, ClassV):
        return construct(it, fv, args, kwargs, node)
    if isinstance(fv, Opaque):
        if fv.what.startswith("logger"):
            return None
        it.assumptions_log.add("external call %s: result unconstrained, assumed not to touch the modelled heap and not to raise" % fv.what.split("!")[0])
        return Opaque("result-of:" + fv.what)
    if callable(fv) and all(is_concrete(a) for a in args) and all(is_concrete(a) for a in kwargs.values()):
        return fv(*args, **kwargs)
    raise Unsupported("call of %r" % (fv,))


def call_with_contract(it, fi, recv, args, kwargs, node):
    c = it.contracts.get(fi.qualname)
    if c is not None and it.func_stack and fi.qualname != it.func_stack[0] and c.get("modular", False):
        from . import verify

        return verify.apply_contract(it, fi, c, args, kwargs, node)
    return it.call_function(fi, args, kwargs, node)


def construct(it, cv, args, kwargs, node):
    if cv.module is None or cv.name in EXC_BASES:
        return Opaque("exception-instance:" + cv.name)
    if cv.name in getattr(it, "concrete_new", ()):
        # the contract asks for objects of this class to be built with a concrete shape (attributes held in a dict, created by
        # the real constructor as it runs); identity is the Python identity of the value
        o = PyObjV(cv.name, cv.module, {})
        fi = cv.module.resolve_method(cv.name, "__init__")
        if fi is not None:
            it.call_function(fi, [o] + args, kwargs, node)
        return o
    it.alloc_counter += 1
    r = core.fresh("new_" + cv.name, core.Ref)
    it.facts.append(core.typeof(r) == CLASSES.ids[cv.name])
    it.facts.append(core.alloc(r) == it.alloc_counter)
    it.facts.append(r != NONE)
    o = ObjV(r, [cv.name])
    fi = cv.module.resolve_method(cv.name, "__init__")
    if fi is not None:
        it.call_function(fi, [o] + args, kwargs, node)
    return o


# ------------------------------------------------------------------------------------------------ builtins
def b_len(it, x):
    if (is_z3(x) and z3.is_arith(x)) or (isinstance(x, (int, float)) and not isinstance(x, bool)) or x is None:
        raise _Raise("TypeError")  # len() of a number
    return it.seq_len(x)


def b_bisect_left(it, lst, x):
    """bisect_left on a sorted list of concrete length: the number of elements < x (one path per position)"""
    lst = it.iterable(lst)
    if not isinstance(lst, list):
        raise Unsupported("bisect on a symbolic-length sequence")
    if all(not is_z3(v) for v in lst) and not is_z3(x):
        import bisect

        return bisect.bisect_left(lst, x)
    for idx in range(len(lst) + 1):
        cond = conj(*([to_real(lst[j]) < to_real(x) for j in range(idx)] + [to_real(lst[j]) >= to_real(x) for j in range(idx, len(lst))]))
        if idx == len(lst):
            it.assume(cond)  # (the list is sorted: the remaining case)
            return idx
        if it.branch(cond):
            return idx
    return len(lst)


def _as_iter(it, x):
    return it.iterable(x)


def b_sum(it, x, start=0):
    if (is_z3(x) and z3.is_arith(x)) or (isinstance(x, (int, float)) and not isinstance(x, bool)):
        # sum() of a number: TypeError ('float' object is not iterable) -- a definite failure on this path
        if it.definedness and not it.caught_here("TypeError"):
            it.oblige("defined", "TypeError@L%s" % getattr(getattr(it, "cur_node", None), "lineno", "?"), False, None, note="TypeError: sum() of a number (not iterable)")
        raise _Raise("TypeError")
    if isinstance(x, GenV):
        gens = x.node.generators
        first = it.iterable(it.eval(gens[0].iter, x.env))
        if not isinstance(first, list):
            return _sym_sum_gen(it, x, first, start)
        if len(gens) == 1 and gens[0].ifs:
            # concrete list, possibly symbolic filter: no path fork, the filter becomes a guard on the summand
            tot = start
            for el in first:
                e2 = dict(x.env)
                it.assign_target(gens[0].target, el, e2)
                cnd = conj(*[it.truth(it.eval(c, e2)) for c in gens[0].ifs])
                if cnd is False:
                    continue
                v = it.eval(x.node.elt, e2)
                if cnd is not True:
                    if is_arr(v):
                        raise Unsupported("sum of arrays under a symbolic filter")
                    v = ite(cnd, to_real(v), z3.RealVal(0))
                tot = it.binop(ast.Add(), tot, v)
            return tot
    seq = _as_iter(it, x)
    if isinstance(seq, list):
        tot = start
        for v in seq:
            tot = it.binop(ast.Add(), tot, v)
        return tot
    n = it.seq_len(seq)
    s = it.make_sum(lambda k: it.seq_elem(seq, k), 0, n)
    it.facts.append(to_z3num(n) >= 0)
    return s if (isinstance(start, int) and start == 0) else it.binop(ast.Add(), start, s)


def _sym_sum_gen(it, g, seq, start):
    node = g.node
    gens = node.generators
    if len(gens) != 1:
        raise Unsupported("nested generator in sum over symbolic sequence")
    n = it.seq_len(seq)
    it.facts.append(to_z3num(n) >= 0)

    def summand(k):
        e2 = dict(g.env)
        it.assign_target(gens[0].target, it.seq_elem(seq, k), e2)
        v = it.eval(node.elt, e2)
        if is_arr(v):
            raise Unsupported("sum of arrays over symbolic sequence")
        conds = []
        for c in gens[0].ifs:
            t = it.truth(it.eval(c, e2))
            conds.append(t)
        cnd = conj(*conds)
        return ite(cnd, to_real(v), z3.RealVal(0))

    s = it.make_sum(summand, 0, n)
    return s if (isinstance(start, int) and start == 0) else it.binop(ast.Add(), start, s)


def b_all(it, x):
    return _quant(it, x, True)


def b_any(it, x):
    return _quant(it, x, False)


def _quant(it, x, universal):
    if isinstance(x, GenV):
        gens = x.node.generators
        first = it.iterable(it.eval(gens[0].iter, x.env))
        if not isinstance(first, list):
            seq = first
            n = it.seq_len(seq)
            node = x.node

            def body(k, depth=0):
                e2 = dict(x.env)
                it.assign_target(gens[0].target, it.seq_elem(seq, k), e2)
                conds = [it.truth(it.eval(c, e2)) for c in gens[0].ifs]
                if len(gens) > 1:
                    sub = GenV(ast.GeneratorExp(elt=node.elt, generators=gens[1:]), e2)
                    inner = _quant(it, sub, universal)
                    if isinstance(inner, (ForallV, ExistsV)):
                        raise Unsupported("nested quantifier bodies must be closed by the caller")
                    v = inner
                else:
                    v = it.truth(it.eval(node.elt, e2))
                if universal:
                    return disj(neg(conj(*conds)), v) if conds else v
                return conj(*(conds + [v]))

            if len(gens) > 1:
                # all(... for a in X for b in Y): nest as ForallV whose body is again quantified -> flatten with two indices
                seq2_probe = None
                return _nested_quant(it, x, universal)
            save = it.definedness
            it.definedness = False
            try:
                body(core.fresh("probe", z3.IntSort()))  # early detection of unsupported constructs
            finally:
                it.definedness = save

            def safe_body(k):
                s = it.definedness
                it.definedness = False
                try:
                    return body(k)
                finally:
                    it.definedness = s

            el = (lambda k, seq=seq: it.seq_elem(seq, k)) if isinstance(seq, MapSeq) else None
            return ForallV(n, safe_body, el) if universal else ExistsV(n, safe_body, el)
    seq = _as_iter(it, x)
    if isinstance(seq, list):
        ts = [it.truth(v) for v in seq]
        if any(isinstance(t, (ForallV, ExistsV)) for t in ts):
            raise Unsupported("quantifier inside concrete all/any")
        return conj(*ts) if universal else disj(*ts)
    n = it.seq_len(seq)
    f = lambda k: it.truth(it.seq_elem(seq, k))
    return ForallV(n, f) if universal else ExistsV(n, f)


def _nested_quant(it, g, universal):
    """all(P(a,b) for a in X for b in Y) with symbolic X, Y: a ForallV over X whose body is a ForallV over Y (kept nested)"""
    node = g.node
    gens = node.generators
    seq = it.iterable(it.eval(gens[0].iter, g.env))
    n = it.seq_len(seq)

    def body(k):
        e2 = dict(g.env)
        it.assign_target(gens[0].target, it.seq_elem(seq, k), e2)
        conds = [it.truth(it.eval(c, e2)) for c in gens[0].ifs]
        guard = conj(*conds)
        if guard is False:
            return universal
        n_pc = len(it.pc)
        if guard is not True:
            it.pc.append(guard)
        try:
            sub = GenV(ast.GeneratorExp(elt=node.elt, generators=gens[1:]), e2)
            inner = _quant(it, sub, universal)
        except Infeasible:
            return universal
        finally:
            del it.pc[n_pc:]
        if guard is True:
            return inner
        return _guarded(guard, inner, universal)

    el = (lambda k, seq=seq: it.seq_elem(seq, k)) if isinstance(seq, MapSeq) else None
    return ForallV(n, body, el) if universal else ExistsV(n, body, el)


def _guarded(guard, inner, universal):
    if isinstance(inner, ForallV):
        return ForallV(inner.n, lambda j, inner=inner: _guarded(guard, inner.body(j), universal), inner.elem)
    if isinstance(inner, ExistsV):
        return ExistsV(inner.n, lambda j, inner=inner: _guarded(guard, inner.body(j), universal), inner.elem)
    if isinstance(inner, bool):
        return (True if inner else neg(guard)) if universal else (guard if inner else False)
    return disj(neg(guard), core.to_bool(inner)) if universal else conj(guard, core.to_bool(inner))


def b_reduce(it, fn, seq, *initial):
    """functools.reduce over a sequence of concrete length: the left fold, one application of `fn` per element"""
    xs = _as_iter(it, seq)
    if not isinstance(xs, list):
        raise Unsupported("reduce over a symbolic sequence")
    xs = list(xs)
    if initial:
        acc = initial[0]
    else:
        if not xs:
            if it.definedness and not it.caught_here("TypeError"):
                it.oblige("defined", "TypeError:reduce-of-empty", False, None, note="TypeError: reduce() of empty iterable with no initial value")
            raise _Raise("TypeError")
        acc = xs.pop(0)
    for x in xs:
        acc = apply(it, fn, [acc, x], {})
    return acc


def b_max(it, *args, **kw):
    if len(args) == 1:
        seq = _as_iter(it, args[0])
        if not isinstance(seq, list):
            raise Unsupported("max over symbolic sequence")
        args = seq
        if not args:
            # max() of an empty sequence: ValueError -- a definite failure on this path
            if it.definedness and not it.caught_here("ValueError"):
                it.oblige("defined", "ValueError:max-of-empty", False, None, note="ValueError: max() iterable argument is empty")
            raise _Raise("ValueError")
    # a one-element array compares (and is later stored) as its element
    args = [a.get(0) if isinstance(a, LArr) and concrete_int(a.n) == 1 else a for a in args]
    res = args[0]
    for a in args[1:]:
        if not is_z3(res) and not is_z3(a):
            res = max(res, a)
        else:
            # Python's max returns the first maximal element: max(a,b) = b if b > a else a
            res = ite(to_real(a) > to_real(res), a, res)
    return res


def b_min(it, *args, **kw):
    if len(args) == 1:
        seq = _as_iter(it, args[0])
        if not isinstance(seq, list):
            raise Unsupported("min over symbolic sequence")
        args = seq
        if not args:
            # min() of an empty sequence: ValueError -- a definite failure on this path
            if it.definedness and not it.caught_here("ValueError"):
                it.oblige("defined", "ValueError:min-of-empty", False, None, note="ValueError: min() iterable argument is empty")
            raise _Raise("ValueError")
    # a one-element array compares (and is later stored) as its element
    args = [a.get(0) if isinstance(a, LArr) and concrete_int(a.n) == 1 else a for a in args]
    res = args[0]
    for a in args[1:]:
        if not is_z3(res) and not is_z3(a):
            res = min(res, a)
        else:
            res = ite(to_real(a) < to_real(res), a, res)
    return res


def b_abs(it, x):
    if is_arr(x):
        if isinstance(x, np.ndarray):
            return abs(x)
        return it.elementwise(lambda v: b_abs(it, v), x)
    if is_z3(x):
        return ite(x >= 0, x, -x)
    return abs(x)


def b_float(it, x=0.0):
    if is_z3(x):
        return to_real(x)
    if is_arr(x):
        n = concrete_int(it.arr_len(x))
        if n == 1:
            return to_real(it.arr_get(x, 0)) if is_z3(it.arr_get(x, 0)) else float(it.arr_get(x, 0))
        raise Unsupported("float() of an array")
    return float(x)


def b_int(it, x=0, base=None):
    if is_z3(x):
        if z3.is_int(x):
            return x
        # int() truncates toward zero
        it.assumptions_log.add("int(x) on a real term is truncation toward zero (REAL mode: exact reals, FPSTD: the rounded value)")
        return ite(x >= 0, z3.ToInt(x), -z3.ToInt(-x))
    if base is not None:
        return int(x, base)
    return int(x)


def b_ceil(it, x):
    if is_z3(x):
        x = to_real(x)
        return ite(z3.ToReal(z3.ToInt(x)) == x, z3.ToInt(x), z3.ToInt(x) + 1)
    return math.ceil(x)


def b_floor(it, x):
    if is_z3(x):
        return z3.ToInt(to_real(x))
    return math.floor(x)


def b_isinstance(it, x, cls):
    classes = cls if isinstance(cls, tuple) else (cls,)
    if isinstance(x, PyObjV):
        return any(isinstance(c, ClassV) and CLASSES.is_subclass(x.cls, c.name) for c in classes)
    if isinstance(x, ObjV):
        res = []
        for c in classes:
            if isinstance(c, ClassV):
                subs = set(CLASSES.subclasses(c.name))
                if x.classes <= subs:
                    return True if not x.maybe_none else x.ref != NONE
                if not (x.classes & subs):
                    continue
                res.append(CLASSES.isinstance_term(x.ref, c.name))
            else:
                continue
        return disj(*res)
    if x is None:
        return False
    names = []
    for c in classes:
        if isinstance(c, ClassV):
            names.append(c.name)
        elif isinstance(c, type):
            if is_concrete(x):
                if isinstance(x, c):
                    return True
            elif c in (float, int) and is_z3(x) and z3.is_arith(x):
                return True
            elif c is np.ndarray and (is_arr(x) or is_arr2(x)):
                return True
        elif isinstance(c, BuiltinV) and c.name in ("float", "int"):
            if is_z3(x) and z3.is_arith(x) or isinstance(x, (int, float)):
                return True
        elif isinstance(c, BuiltinV) and c.name in ("dict", "list", "tuple", "str", "set", "frozenset", "bool"):
            ty = {"dict": dict, "list": list, "tuple": tuple, "str": str, "set": (set,), "frozenset": frozenset, "bool": bool}[c.name]
            if isinstance(x, ty):
                return True
    return False


def b_range(it, *args):
    if all(concrete_int(a) is not None for a in args):
        return range(*[concrete_int(a) for a in args])
    if len(args) == 1:
        lo, hi = 0, args[0]
    elif len(args) == 2:
        lo, hi = args
    else:
        raise Unsupported("symbolic range with step")
    n = simp(to_z3num(hi) - to_z3num(lo))
    n = ite(n >= 0, n, 0)
    return MapSeq(n, lambda k, lo=lo: simp(to_z3num(lo) + to_z3num(k)))


def b_zip(it, *seqs):
    its = [it.iterable(s) for s in seqs]
    if all(isinstance(s, list) for s in its):
        return list(zip(*its))
    # symbolic: lengths are the minimum; all the call sites zip sequences built from the same list
    lens = [it.seq_len(s) if not isinstance(s, list) else len(s) for s in its]
    n = lens[0]
    for l in lens[1:]:
        if not (is_z3(to_z3num(l)) and to_z3num(l).eq(to_z3num(n))):
            n = ite(to_z3num(l) < to_z3num(n), l, n)

    def get(k, its=its):
        return tuple((s[concrete_int(k)] if isinstance(s, list) and concrete_int(k) is not None else it.seq_elem(s, k)) for s in its)

    return MapSeq(n, get)


def b_enumerate(it, seq, start=0):
    s = it.iterable(seq)
    if isinstance(s, list):
        return list(enumerate(s, start))
    return MapSeq(it.seq_len(s), lambda k, s=s: (simp(to_z3num(k) + start) if start else k, it.seq_elem(s, k)))


def b_list(it, x=()):
    if isinstance(x, Opaque):
        return Opaque("list(%s)" % x.what)
    s = it.iterable(x)
    return list(s) if isinstance(s, list) else s


def b_tuple(it, x=()):
    s = it.iterable(x)
    if isinstance(s, list):
        return tuple(s)
    raise Unsupported("tuple() of symbolic sequence")


def b_dict(it, *a, **k):
    if a and isinstance(a[0], dict):
        d = dict(a[0])
        d.update(k)
        return d
    if a:
        s = it.iterable(a[0])
        return dict(s, **k)
    return dict(**k)


def b_set(it, x=()):
    if isinstance(x, core.SetV):
        return x
    s = it.iterable(x)
    if isinstance(s, list) and all(is_concrete(v) for v in s):
        return set(s)
    raise Unsupported("set() of symbolic values")


def b_sorted(it, x, key=None, reverse=False):
    s = it.iterable(x)
    if isinstance(s, list) and all(is_concrete(v) for v in s) and key is None:
        return sorted(s, reverse=reverse)
    if isinstance(s, list) and len(s) <= 5 and not reverse:
        # sorted() is stable: the result is THE permutation with non-decreasing keys in which equal keys keep their input
        # order.  One path per permutation that is feasible (exactly one for each valuation of the keys).
        import itertools

        keys = [to_real(apply(it, key, [v], {}) if key is not None else v) for v in s]
        n = len(s)
        if n <= 1:
            return list(s)
        perms = list(itertools.permutations(range(n)))
        c = it.chooser.choose(len(perms))
        p = perms[c]
        cond = conj(*[disj(keys[p[i]] < keys[p[i + 1]], conj(keys[p[i]] == keys[p[i + 1]], p[i] < p[i + 1])) for i in range(n - 1)])
        if cond is False or (cond is not True and not it.feasible(cond)):
            raise Infeasible()
        if cond is not True:
            it.pc.append(cond)
        return [s[i] for i in p]
    raise Unsupported("sorted() on symbolic values")


def b_hasattr(it, o, name):
    if isinstance(o, PyObjV):
        return name in b_dir(it, o)
    if isinstance(o, ObjV):
        try:
            it.field_kind(o.classes, name)
            return True
        except Unsupported:
            return it._resolve(o, name) is not None
    if is_arr(o) or is_arr2(o):
        return name in ("__len__", "shape", "size")
    if is_z3(o) or isinstance(o, (int, float)):
        return hasattr(1.0, name)
    return hasattr(o, name)


def b_dir(it, o):
    """dir() of an object of concrete shape: its attributes so far plus every name its classes define"""
    if not isinstance(o, PyObjV):
        raise Unsupported("dir() of %r" % (o,))
    names = set(o.fields)
    for c in o.module.mro(o.cls):
        if c in o.module.classes:
            for st in o.module.classes[c][0].body:
                if isinstance(st, (ast.FunctionDef, ast.AsyncFunctionDef)):
                    names.add(st.name)
                elif isinstance(st, ast.Assign):
                    names.update(t.id for t in st.targets if isinstance(t, ast.Name))
    return sorted(names)


def b_getattr(it, o, name, *default):
    """getattr / setattr with a concrete attribute name: the same as the attribute access / assignment"""
    if not isinstance(name, str):
        raise Unsupported("getattr with a symbolic attribute name")
    if isinstance(o, PyObjV) and name not in o.fields and default and o.module.resolve_method(o.cls, name) is None:
        return default[0]
    return it.get_attr(o, name, getattr(it, "cur_node", None))


def b_setattr(it, o, name, value):
    if not isinstance(name, str):
        raise Unsupported("setattr with a symbolic attribute name")
    if isinstance(o, PyObjV):
        o.fields[name] = value
        return None
    if isinstance(o, ObjV):
        it.write_field(o, name, value, getattr(it, "cur_node", None))
        return None
    raise Unsupported("setattr on %r" % (o,))


def b_type(it, o):
    """type() of an object of concrete shape (its class; compare through `.__name__`)"""
    if isinstance(o, PyObjV):
        return ClassV(o.cls, o.module)
    raise Unsupported("type() of %r" % (o,))


def b_print(it, *a, **k):
    return None


def b_bool(it, x=False):
    return it.truth(x)


def b_str(it, x=""):
    if is_concrete(x) and not isinstance(x, Opaque):
        return str(x)
    return Opaque("str()")


def b_bin(it, x):
    c = concrete_int(x)
    if c is None:
        raise Unsupported("bin() of symbolic")
    return bin(c)


def b_frozenset(it, x=()):
    s = it.iterable(x)
    if isinstance(s, list) and all(is_concrete(v) for v in s):
        return frozenset(s)
    raise Unsupported("frozenset() of symbolic values")


def b_round(it, x, ndigits=None):
    if not is_z3(x):
        return round(x, ndigits) if ndigits is not None else round(x)
    if ndigits is not None:
        raise Unsupported("round() with ndigits on a symbolic value")
    r = np_round(it, x)
    return z3.ToInt(r)


BUILTINS = {
    "object": (lambda it, *a, **k: Opaque("object-instance")),  # the name `object` (dtype=object, isinstance(x, object)): a value, never interpreted
    "len": b_len, "sum": b_sum, "all": b_all, "any": b_any, "max": b_max, "min": b_min, "abs": b_abs, "float": b_float, "int": b_int,
    "isinstance": b_isinstance, "range": b_range, "zip": b_zip, "enumerate": b_enumerate, "list": b_list, "tuple": b_tuple, "dict": b_dict,
    "bisect_left": b_bisect_left, "round": b_round, "set": b_set, "sorted": b_sorted, "hasattr": b_hasattr, "dir": b_dir, "type": b_type, "getattr": b_getattr, "setattr": b_setattr, "print": b_print, "bool": b_bool, "str": b_str, "bin": b_bin, "frozenset": b_frozenset,
}


# ------------------------------------------------------------------------------------------------ numpy
def _shape(it, shape):
    if isinstance(shape, tuple):
        return shape
    return (shape,)


def _filled(it, shape, v):
    shape = _shape(it, shape)
    if len(shape) == 1:
        return LArr(shape[0], lambda i, v=v: v)
    if len(shape) == 2:
        return LArr2(shape[0], shape[1], lambda i, j, v=v: v)
    raise Unsupported("arrays with more than 2 dimensions")


def np_zeros(it, shape, dtype=None, order=None):
    return _filled(it, shape, 0.0)


def np_arange(it, *args, **kw):
    """np.arange(n) / np.arange(lo, hi) with integer arguments and step 1: the array [lo, lo + 1, ..., hi - 1]"""
    if kw or len(args) not in (1, 2):
        raise Unsupported("np.arange with a step or keyword arguments")
    lo, hi = (0, args[0]) if len(args) == 1 else args
    if all(isinstance(x, (int, np.integer)) and not isinstance(x, bool) for x in (lo, hi)):
        return np.arange(lo, hi)
    if any(isinstance(x, float) for x in (lo, hi)):
        raise Unsupported("np.arange with float bounds")
    n = to_z3num(hi) - to_z3num(lo)
    return LArr(z3.If(n > 0, n, 0), lambda i, lo=lo: to_z3num(lo) + to_z3num(i))


def np_ones(it, shape, dtype=None):
    return _filled(it, shape, 1.0)


def np_empty(it, shape, dtype=None, order=None):
    # uninitialised memory: arbitrary values (a fresh uninterpreted function)
    shape = _shape(it, shape)
    if len(shape) == 1:
        f = z3.Function(core.fresh_name("empty"), z3.IntSort(), z3.RealSort())
        return LArr(shape[0], lambda i, f=f: f(to_z3num(i)))
    f = z3.Function(core.fresh_name("empty2"), z3.IntSort(), z3.IntSort(), z3.RealSort())
    return LArr2(shape[0], shape[1], lambda i, j, f=f: f(to_z3num(i), to_z3num(j)))


def np_full(it, shape, fill_value, dtype=None):
    if isinstance(fill_value, float) and fill_value != fill_value:
        # an array of NaN: cells of unspecified content (REAL mode has no NaN; a clause must not depend on such a cell)
        it.assumptions_log.add("np.full(shape, nan): cells of unspecified content (clauses are stated only where the cell is overwritten)")
        return np_empty(it, shape)
    a = _filled(it, shape, fill_value)
    if isinstance(fill_value, bool) and isinstance(a, LArr):
        a.dtype = "bool"
    return a


def np_zeros_like(it, a, dtype=None):
    if is_arr2(a):
        d = it.arr2_dims(a)
        return LArr2(d[0], d[1], lambda i, j: 0.0)
    if is_arr(a):
        return LArr(it.arr_len(a), lambda i: 0.0)
    return 0.0


def np_ones_like(it, a, dtype=None):
    if is_arr(a):
        return LArr(it.arr_len(a), lambda i: 1.0)
    return 1.0


def np_array(it, x, dtype=None):
    if isinstance(x, np.ndarray):
        return x.copy()
    if is_arr(x):
        return LArr(it.arr_len(x), it.arr_reader(x), dtype=it.arr_dtype(x))
    if isinstance(x, MapSeq):
        return LArr(x.n, x.get)
    if isinstance(x, (list, tuple)):
        if is_concrete(x) and not any(isinstance(v, Opaque) for v in x):
            try:
                return np.array(x, dtype=dtype if isinstance(dtype, type) else None)
            except Exception:
                pass
        if x and all(isinstance(r, (list, tuple)) or is_arr(r) for r in x):
            rows = [it.arr_reader(r) for r in x]
            nc = it.arr_len(x[0])
            return LArr2(len(rows), nc, lambda i, j, rows=rows: _pick(rows, i)(j))
        vals = list(x)
        return LArr(len(vals), it._list_reader(vals))
    if is_z3(x) or isinstance(x, (int, float)):
        return x
    raise Unsupported("np.array of %r" % (x,))


def _pick(rows, i):
    c = concrete_int(i)
    if c is not None:
        return rows[c]
    return lambda j: _ite_chain(i, [r(j) for r in rows])


def _ite_chain(i, vals):
    res = vals[-1]
    for k in range(len(vals) - 2, -1, -1):
        res = ite(i == k, vals[k], res)
    return res


def np_sum(it, a, axis=None, keepdims=False):
    if isinstance(a, np.ndarray) and a.dtype != object:
        return np.sum(a, axis=axis)
    if is_arr2(a):
        rd = it.arr2_reader(a)
        nr, nc = it.arr2_dims(a)
        if axis == 0:
            col = lambda j: _range_sum(it, lambda i: rd(i, j), nr)
            return LArr2(1, nc, lambda i, j: col(j)) if keepdims else LArr(nc, col)
        if axis == 1:
            row = lambda i: _range_sum(it, lambda j: rd(i, j), nc)
            return LArr2(nr, 1, lambda i, j: row(i)) if keepdims else LArr(nr, row)
        if keepdims:
            raise Unsupported("np.sum(keepdims) without an axis")
        if axis is None:
            # the sum of all cells: the sum over the rows of the row sums
            return _range_sum(it, lambda i: _range_sum(it, lambda j: rd(i, j), nc), nr)
        raise Unsupported("np.sum of 2-D array with axis %r" % (axis,))
    if is_arr(a) or isinstance(a, (list, tuple, MapSeq)):
        if isinstance(a, (list, tuple)):
            return b_sum(it, list(a))
        rd = it.arr_reader(a)
        return _range_sum(it, rd, it.arr_len(a))
    return a


def _range_sum(it, f, n):
    c = concrete_int(n)
    if c is not None:
        tot = 0.0
        for i in range(c):
            tot = it.binop(ast.Add(), tot, f(i))
        return tot
    it.facts.append(to_z3num(n) >= 0)
    return it.make_sum(lambda k: f(k), 0, n)


def np_divide(it, a, b, out=None, where=True):
    def f(x, y, o, w):
        w = it.truth(w) if not isinstance(w, bool) else w
        if not isinstance(w, bool) and isinstance(o, float) and o in (float("inf"), float("-inf")):
            w = it.branch(w)  # the default is not a real number: decide the mask on this path (only for concrete-length arrays)
        if isinstance(w, bool):
            if w:
                return it.num_binop(ast.Div(), x, y)
            return o
        it.pc.append(w)
        try:
            q = it.num_binop(ast.Div(), x, y)
        finally:
            it.pc.pop()
        return ite(w, q, o)

    if out is None:
        if where is not True:
            raise Unsupported("np.divide with where= but without out=")
        return it.binop(ast.Div(), a, b)
    ops = [a, b, out, where]
    if any(is_arr(o) for o in ops):
        res = it.elementwise(f, *ops)
        if isinstance(out, LArr):
            out.get = res.get
            return out
        return res
    return f(a, b, out, where)


def np_minimum(it, a, b):
    f = lambda x, y: (min(x, y) if not is_z3(x) and not is_z3(y) else ite(to_real(x) < to_real(y), x, y))
    if is_arr(a) or is_arr(b):
        if isinstance(a, np.ndarray) and is_concrete(b) or isinstance(b, np.ndarray) and is_concrete(a):
            return np.minimum(a, b)
        return it.elementwise(f, a, b)
    return f(a, b)


def np_maximum(it, a, b):
    f = lambda x, y: (max(x, y) if not is_z3(x) and not is_z3(y) else ite(to_real(x) > to_real(y), x, y))
    if is_arr(a) or is_arr(b):
        if isinstance(a, np.ndarray) and is_concrete(b) or isinstance(b, np.ndarray) and is_concrete(a):
            return np.maximum(a, b)
        return it.elementwise(f, a, b)
    return f(a, b)


def np_clip(it, a, lo, hi):
    # an infinite bound does not bind (REAL mode: every value is a finite real)
    if isinstance(lo, float) and lo == float("-inf"):
        lo = None
    if isinstance(hi, float) and hi == float("inf"):
        hi = None
    r = a if lo is None else np_maximum(it, a, lo)
    return r if hi is None else np_minimum(it, r, hi)


def np_where(it, cond):
    """np.where(mask) -- one argument, concrete mask only: the tuple of index arrays"""
    if isinstance(cond, np.ndarray) and cond.dtype == bool:
        return tuple(list(int(i) for i in ix) for ix in np.where(cond))
    if isinstance(cond, list) and all(isinstance(c, bool) for c in cond):
        return ([i for i, c in enumerate(cond) if c],)
    raise Unsupported("np.where on a symbolic mask")


def np_all(it, a, axis=None):
    if isinstance(a, np.ndarray):
        return bool(np.all(a))
    if is_arr(a):
        n = it.arr_len(a)
        rd = it.arr_reader(a)
        c = concrete_int(n)
        if c is not None:
            return conj(*[it.truth(rd(i)) for i in range(c)])
        return ForallV(n, lambda k: it.truth(rd(k)))
    return it.truth(a)


def np_any(it, a, axis=None):
    if isinstance(a, np.ndarray):
        return bool(np.any(a))
    if isinstance(a, LArr2) and axis is None:
        nr, nc = concrete_int(a.nr), concrete_int(a.nc)
        if nr is None or nc is None:
            raise Unsupported("np.any of a 2-D array of symbolic shape")
        return disj(*[it.truth(a.get(i, j)) for i in range(nr) for j in range(nc)])
    if is_arr(a):
        n = it.arr_len(a)
        rd = it.arr_reader(a)
        c = concrete_int(n)
        if c is not None:
            return disj(*[it.truth(rd(i)) for i in range(c)])
        return ExistsV(n, lambda k: it.truth(rd(k)))
    return it.truth(a)


def np_cumsum(it, a):
    n = concrete_int(it.arr_len(a))
    rd = it.arr_reader(a)
    if n is None:
        raise Unsupported("cumsum of symbolic-length array")
    vals = []
    tot = 0.0
    for i in range(n):
        tot = it.binop(ast.Add(), tot, rd(i))
        vals.append(tot)
    return LArr(n, it._list_reader(vals))


def np_prod(it, a, axis=None):
    if isinstance(a, np.ndarray) and a.dtype != object:
        return np.prod(a, axis=axis)
    if is_arr2(a):
        rd = it.arr2_reader(a)
        nr, nc = it.arr2_dims(a)
        cr, cc = concrete_int(nr), concrete_int(nc)
        if cr is None or cc is None:
            raise Unsupported("product over symbolic shape")
        if axis == 1:
            vals = []
            for i in range(cr):
                p = 1.0
                for j in range(cc):
                    p = it.binop(ast.Mult(), p, rd(i, j))
                vals.append(p)
            return LArr(cr, it._list_reader(vals))
        raise Unsupported("np.prod axis %r" % axis)
    n = concrete_int(it.arr_len(a))
    if n is None:
        raise Unsupported("product over symbolic length")
    rd = it.arr_reader(a)
    p = 1.0
    for i in range(n):
        p = it.binop(ast.Mult(), p, rd(i))
    return p


def np_isfinite(it, x):
    if is_z3(x):
        return True  # REAL mode: every term is a finite real; non-finiteness is a definedness obligation at its source
    return bool(np.isfinite(x))


def np_isnan(it, x):
    """REAL mode: symbolic numbers are finite reals (a NaN entry is excluded by the contract's precondition, stated as an
    assumption); concrete values are tested for real"""
    if is_z3(x):
        it.assumptions_log.add("np.isnan of a symbolic number is False (inputs are finite reals; NaN entries are outside the contract)")
        return False
    if is_arr(x):
        n = concrete_int(it.arr_len(x))
        if n is None:
            raise Unsupported("np.isnan on an array of symbolic length")
        rd = it.arr_reader(x)
        return np.array([bool(np_isnan(it, rd(i))) for i in range(n)], dtype=bool)
    return bool(np.isnan(x))


def np_interp(it, x, xp, fp, left=None, right=None):
    """stated semantics of numpy.interp for strictly increasing xp of concrete length n >= 1: fp[0] (or `left`) before xp[0],
    fp[-1] (or `right`) after xp[-1], the linear interpolant through (xp[i], fp[i]), (xp[i+1], fp[i+1]) in between"""
    n = concrete_int(it.arr_len(xp))
    if n is None or n < 1 or concrete_int(it.arr_len(fp)) != n:
        raise Unsupported("np.interp with data points of symbolic length")
    it.assumptions_log.add("numpy.interp(x, xp, fp, left, right): left for x < xp[0], right for x > xp[-1], piecewise linear through the points in between (xp increasing)")
    rx, rf = it.arr_reader(xp), it.arr_reader(fp)
    X = [to_real(rx(i)) for i in range(n)]
    F = [to_real(rf(i)) for i in range(n)]
    L = F[0] if left is None else to_real(left)
    R = F[-1] if right is None else to_real(right)

    def one(v):
        v = to_real(v)
        res = R  # v > X[-1]
        res = ite(v == X[-1], F[-1], res)
        for i in range(n - 2, -1, -1):
            seg = F[i] + (F[i + 1] - F[i]) * (v - X[i]) / (X[i + 1] - X[i])
            res = ite(z3.And(X[i] <= v, v < X[i + 1]), seg, res)
        return ite(v < X[0], L, res)

    if is_arr(x):
        return it.elementwise(one, x)
    return one(x)


def np_matmul(it, a, b):
    """matrix product of two 2-D arrays of concrete shape: the table of the row-by-column sums"""
    if isinstance(a, np.ndarray) and isinstance(b, np.ndarray) and a.dtype != object and b.dtype != object:
        return np.matmul(a, b)
    if not (is_arr2(a) and is_arr2(b)):
        raise Unsupported("np.matmul of non-2-D operands")
    (ar, ac), (br, bc) = it.arr2_dims(a), it.arr2_dims(b)
    ar, ac, br, bc = [concrete_int(v) for v in (ar, ac, br, bc)]
    if None in (ar, ac, br, bc) or ac != br:
        raise Unsupported("np.matmul with symbolic or mismatching shapes")
    ra, rb = it.arr2_reader(a), it.arr2_reader(b)
    rows = []
    for i in range(ar):
        row = []
        for j in range(bc):
            tot = z3.RealVal(0)
            for k in range(ac):
                tot = tot + to_real(ra(i, k)) * to_real(rb(k, j))
            row.append(z3.simplify(tot))
        rows.append(row)
    return it.table2(rows)


def np_sqrt(it, x):
    """sqrt as an uninterpreted function with its defining property on non-negative arguments: sqrt(x) >= 0 and sqrt(x)^2 == x"""
    if is_arr(x):
        return it.elementwise(lambda v: np_sqrt(it, v), x)
    if not is_z3(x):
        return math.sqrt(x)
    f = z3.Function("sqrt", z3.RealSort(), z3.RealSort())
    r = f(to_real(x))
    it.facts.append(z3.Implies(to_real(x) >= 0, z3.And(r >= 0, r * r == to_real(x))))
    it.assumptions_log.add("np.sqrt: uninterpreted with sqrt(x) >= 0 and sqrt(x)^2 == x for x >= 0")
    return r


def np_isscalar(it, x):
    return is_z3(x) or isinstance(x, (int, float))


def np_exp(it, x):
    it.assumptions_log.add("exp: uninterpreted with axioms exp>0, exp(0)=1, strictly increasing (instantiated pairwise)")
    f = z3.Function("exp", z3.RealSort(), z3.RealSort())
    if is_arr(x):
        return it.elementwise(lambda v: np_exp(it, v), x)
    if not is_z3(x):
        if x == 0:
            return 1.0
        if x == float("-inf"):
            return 0.0
        if x == float("inf"):
            return float("inf")
        x = to_real(x)
    t = f(to_real(x))
    it.exp_terms = getattr(it, "exp_terms", [])
    if not any(t.eq(u) for u in it.exp_terms):
        it.facts.append(t > 0)
        it.facts.append(z3.Implies(to_real(x) == 0, t == 1))
        it.facts.append(z3.Implies(to_real(x) <= 0, t <= 1))
        it.facts.append(z3.Implies(to_real(x) >= 0, t >= 1))
        for u in it.exp_terms:
            a, b = to_real(x), u.arg(0)
            it.facts.append(z3.And(z3.Implies(a < b, t < u), z3.Implies(a == b, t == u), z3.Implies(a > b, t > u)))
        it.exp_terms.append(t)
    return t


def np_argsort(it, a):
    """argsort of a concrete-length symbolic array: one path per permutation consistent with a non-strict ascending order
    (whatever numpy does on ties is one of them)"""
    import itertools

    if isinstance(a, np.ndarray) and a.dtype != object:
        return np.argsort(a)
    n = concrete_int(it.arr_len(a))
    if n is None or n > 5:
        raise Unsupported("np.argsort on an array of symbolic length")
    rd = it.arr_reader(a)
    vals = [to_real(rd(i)) for i in range(n)]
    perms = list(itertools.permutations(range(n)))
    c = it.chooser.choose(len(perms))
    p = perms[c]
    cond = conj(*[vals[p[i]] <= vals[p[i + 1]] for i in range(n - 1)])
    if cond is not True:
        if not it.feasible(cond):
            raise Infeasible()
        it.pc.append(cond)
    it.assumptions_log.add("np.argsort returns a permutation that sorts its argument in non-decreasing order (any such permutation on ties)")
    return np.array(p)


def np_argmax(it, a):
    """index of the first maximum of a concrete-length array: one path per feasible index"""
    if isinstance(a, np.ndarray) and a.dtype != object:
        return int(np.argmax(a))
    n = concrete_int(it.arr_len(a))
    if n is None or n > 6 or n == 0:
        raise Unsupported("np.argmax on an array of symbolic length")
    rd = it.arr_reader(a)
    vals = [to_real(rd(i)) for i in range(n)]
    if n == 1:
        return 0
    feas = []
    for i in range(n):
        cond = conj(*([vals[j] < vals[i] for j in range(i)] + [vals[j] <= vals[i] for j in range(i + 1, n)]))
        if cond is True or (cond is not False and it.feasible(cond)):
            feas.append((i, cond))
    if not feas:
        raise Infeasible()
    c = it.chooser.choose(len(feas)) if len(feas) > 1 else 0
    i, cond = feas[c]
    if cond is not True:
        it.pc.append(cond)
    return i


def np_isclose(it, a, b, rtol=1e-05, atol=1e-08, equal_nan=False):
    f = lambda x, y: b_abs(it, it.binop(ast.Sub(), x, y)) <= to_real(atol) + to_real(rtol) * to_real(b_abs(it, y))
    if is_arr(a) or is_arr(b):
        return it.elementwise(f, a, b, dtype="bool")
    return f(a, b)


def np_less(it, a, b):
    return it.compare(ast.Lt(), a, b)


def np_round(it, x, decimals=0):
    if not is_z3(x):
        return round(x, decimals)
    if decimals != 0:
        raise Unsupported("np.round with decimals")
    memo = it.__dict__.setdefault("_round_memo", {})
    key = to_real(x).get_id()
    if key in memo:
        return z3.ToReal(memo[key][1])  # round() is a function: the same argument gives the same integer
    r = core.fresh("round", z3.IntSort())
    memo[key] = (x, r)
    it.facts.append(z3.And(to_real(x) - z3.ToReal(r) <= z3.RealVal("1/2"), z3.ToReal(r) - to_real(x) <= z3.RealVal("1/2")))
    it.assumptions_log.add("np.round(x): an integer within 1/2 of x (either neighbour on ties)")
    return z3.ToReal(r)


def np_linspace(it, a, b, num=50):
    it.assumptions_log.add("np.linspace(a, b, m)[k] == a + k*(b-a)/(m-1) (its own rounding is not modelled)")
    m = to_z3num(num)
    if it.definedness:
        it.oblige("defined", "linspace-count-positive", m >= 2)
    save = it.mode
    it.mode = "REAL"
    try:
        step = to_real(it.binop(ast.Sub(), b, a)) / to_real(m - 1)
    finally:
        it.mode = save
    return LArr(m, lambda k, a=a, step=step: to_real(a) + to_real(to_z3num(k)) * step)


NP = {
    "arange": np_arange, "zeros": np_zeros, "ones": np_ones, "empty": np_empty, "full": np_full, "zeros_like": np_zeros_like, "ones_like": np_ones_like, "array": np_array,
    "sum": np_sum, "divide": np_divide, "minimum": np_minimum, "maximum": np_maximum, "clip": np_clip, "where": np_where, "all": np_all, "any": np_any, "cumsum": np_cumsum,
    "prod": np_prod, "product": np_prod, "isfinite": np_isfinite, "isscalar": np_isscalar, "exp": np_exp, "argsort": np_argsort, "argmax": np_argmax, "isnan": np_isnan, "interp": np_interp, "matmul": np_matmul, "sqrt": np_sqrt, "isclose": np_isclose,
    "less": np_less, "round": np_round, "linspace": np_linspace, "abs": lambda it, x: b_abs(it, x), "ceil": lambda it, x: to_real(b_ceil(it, x)) if is_z3(x) else float(math.ceil(x)),
}


def sc_promotetoarray(it, x, *a, **k):
    it.assumptions_log.add("sc.promotetoarray: scalar -> 1-element array; array/list -> a fresh copy (probed: returns a copy)")
    if x is None:
        return LArr(0, lambda i: 0.0)
    if is_arr(x):
        return LArr(it.arr_len(x), it.arr_reader(x), dtype=it.arr_dtype(x))
    if isinstance(x, (list, tuple)):
        return np_array(it, list(x))
    return LArr(1, lambda i, x=x: x)


def sc_dcp(it, x, *a, **k):
    it.assumptions_log.add("sc.dcp returns a structurally equal, disjoint copy")
    if is_concrete(x):
        import copy

        return copy.deepcopy(x)
    if isinstance(x, LArr):
        return x.snapshot()
    if isinstance(x, (list, tuple, dict)):
        # containers of (immutable) symbolic scalars: a fresh container of the same contents
        def cp(v):
            if isinstance(v, list):
                return [cp(e) for e in v]
            if isinstance(v, tuple):
                return tuple(cp(e) for e in v)
            if isinstance(v, dict):
                return {k: cp(e) for k, e in v.items()}
            if is_z3(v) or is_concrete(v):
                return v
            if isinstance(v, LArr):
                return v.snapshot()
            raise Unsupported("sc.dcp of a container holding %r" % (v,))

        return cp(x)
    raise Unsupported("sc.dcp of symbolic object")


def arr_method(it, a, name, args, kwargs, node):
    if isinstance(a, np.ndarray) and a.dtype != object and name == "astype" and len(args) == 1 and isinstance(args[0], BuiltinV):
        ty = {b_bool: bool, b_int: int, b_float: float}.get(args[0].fn)
        if ty is None:
            raise Unsupported("astype(%r)" % (args[0],))
        return a.astype(ty)
    if isinstance(a, np.ndarray) and a.dtype != object and all(is_concrete(x) for x in args):
        return getattr(a, name)(*args, **kwargs)
    if isinstance(a, (list, dict, set, str, tuple, frozenset)):
        if name == "append" and isinstance(a, list):
            a.append(args[0])
            return None
        if name == "insert" and isinstance(a, list) and concrete_int(args[0]) is not None:
            a.insert(concrete_int(args[0]), args[1])
            return None
        if name == "copy" and isinstance(a, (list, dict)):
            return a.copy()
        if name == "index" and isinstance(a, list) and not is_concrete(args[0]):
            for j, v in enumerate(a):
                if it.branch(it._eqv(args[0], v)):
                    return j
            raise _Raise("ValueError")
        if name == "items" and isinstance(a, dict):
            return list(a.items())
        if name == "keys" and isinstance(a, dict):
            return list(a.keys())
        if name == "values" and isinstance(a, dict):
            return list(a.values())
        if name == "get" and isinstance(a, dict) and is_concrete(args[0]):
            return a.get(*args)
        if isinstance(a, dict) and name == "rename" and len(args) == 2 and is_concrete(args[0]) and is_concrete(args[1]):
            # sciris odict.rename(oldkey, newkey): same position, same value (plain dicts stand for odicts in contract-built objects)
            it.assumptions_log.add("sc.odict.rename(old, new) renames the key in place, keeping order and value")
            if args[0] not in a:
                raise _Raise("KeyError", node)
            items = [((args[1] if k == args[0] else k), v) for k, v in a.items()]
            a.clear()
            a.update(items)
            return None
        if all(is_concrete(x) for x in args) and is_concrete(a):
            try:
                return getattr(a, name)(*args, **kwargs)
            except (ValueError, KeyError, IndexError) as e:
                # a definite failure of a container operation on this path (list.remove / list.index of an absent element, ...):
                # reaching it is an obligation unless the code under contract catches it
                exc = type(e).__name__
                if it.definedness and not it.caught_here(exc):
                    it.oblige("defined", "%s@L%s" % (exc, getattr(node, "lineno", "?")), False, getattr(node, "lineno", None), note="%s: %s" % (exc, e))
                raise _Raise(exc, node)
        if isinstance(a, dict) and name == "pop" and args and is_concrete(args[0]):
            # concrete key, values of any kind
            if args[0] in a:
                return a.pop(args[0])
            if len(args) > 1:
                return args[1]
            raise _Raise("KeyError")
        if name == "format" and isinstance(a, str):
            it.assumptions_log.add("strings formatted from symbolic values are represented by their templates (only their emptiness is used)")
            return a
        if isinstance(a, str) and name in ("join", "replace", "strip", "split", "lower", "upper", "rjust", "ljust"):
            return Opaque("string built from non-literal parts")
        if name == "index" and isinstance(a, list) and is_concrete(args[0]):
            return a.index(args[0])
        raise Unsupported("method %s on %s with symbolic arguments" % (name, type(a).__name__))
    if name == "sum":
        return np_sum(it, a, *args, **kwargs)
    if name == "mean" and not args and not kwargs and is_arr(a):
        # arithmetic mean: sum / length (the length-0 case is a division by zero: NaN with a warning in numpy)
        n = it.arr_len(a)
        tot = np_sum(it, a)
        if it.definedness and concrete_int(n) is None:
            it.oblige("defined", "mean-of-empty@L%s" % getattr(node, "lineno", "?"), to_z3num(n) > 0, getattr(node, "lineno", None))
        elif concrete_int(n) == 0:
            raise Unsupported("mean of an empty array")
        return it.binop(ast.Div(), tot, n if concrete_int(n) is None else float(concrete_int(n)))
    if name == "fill":
        v = args[0]
        if isinstance(v, float) and v != v:
            # nan fill: unspecified contents
            e = np_empty(it, it.arr_len(a)) if is_arr(a) else None
            if isinstance(a, LArr):
                a.get = e.get
                return None
            if isinstance(a, HeapArr1):
                it.heap.write_a1_where(a.field, a.owner.ref, lambda j: True, lambda j, e=e: e.get(j))
                return None
            if isinstance(a, HeapArr2):
                e2 = np_empty(it, (0, 0))
                it.heap.write_a2_where(a.field, a.owner.ref, lambda i, j: True, lambda i, j, e2=e2: e2.get(i, j))
                return None
            if isinstance(a, LArr2):
                e2 = np_empty(it, (a.nr, a.nc))
                a.get = e2.get
                return None
        if isinstance(a, LArr):
            a.get = lambda i, v=v: v
            return None
        if isinstance(a, HeapArr1):
            it._log_write(("a1", a.field))
            it.heap.write_a1_where(a.field, a.owner.ref, lambda j: True, lambda j, v=v: to_real(v))
            return None
        if isinstance(a, LArr2):
            a.get = lambda i, j, v=v: v
            return None
        raise Unsupported("fill on %r" % (a,))
    if name == "copy":
        if is_arr2(a):
            d = it.arr2_dims(a)
            return LArr2(d[0], d[1], it.arr2_reader(a))
        return LArr(it.arr_len(a), it.arr_reader(a), dtype=it.arr_dtype(a))
    if name == "reshape":
        shape = args[0] if len(args) == 1 and isinstance(args[0], tuple) else tuple(args)
        if is_arr(a):
            rd = it.arr_reader(a)
            n = it.arr_len(a)
            if shape == (-1, 1):
                return LArr2(n, 1, lambda i, j: rd(i))
            if shape == (1, -1):
                return LArr2(1, n, lambda i, j: rd(j))
            if shape == (-1,):
                return LArr(n, rd)
        raise Unsupported("reshape%r" % (shape,))
    if name == "ravel":
        if is_arr(a):
            return LArr(it.arr_len(a), it.arr_reader(a), dtype=it.arr_dtype(a))
        if is_arr2(a):
            nr, nc = [concrete_int(v) for v in it.arr2_dims(a)]
            if nr is not None and nc is not None:
                rd2 = it.arr2_reader(a)
                cells = [rd2(i, j) for i in range(nr) for j in range(nc)]  # C order
                return LArr(len(cells), it._list_reader(cells))
        raise Unsupported("ravel of 2-D")
    if name == "tolist":
        n = concrete_int(it.arr_len(a))
        rd = it.arr_reader(a)
        if n is not None:
            return [rd(i) for i in range(n)]
        return MapSeq(it.arr_len(a), rd)
    if name == "astype":
        return a
    if name == "any":
        return np_any(it, a)
    if name == "all":
        return np_all(it, a)
    raise Unsupported("array method %s" % name)


# ------------------------------------------------------------------------------------------------ spec forms
def spec_old(it, node, env):
    """old(e): e evaluated in the pre-state (heap at function entry, parameters at entry)"""
    if it.old_state is None:
        raise Unsupported("old() outside a postcondition")
    heap, oenv = it.old_state
    save = it.heap
    it.heap = heap.copy()
    try:
        e2 = dict(oenv)
        for k, v in env.items():
            if k not in e2:
                e2[k] = v  # bound variables of enclosing quantifiers
            elif k in getattr(it, "spec_bound", ()):
                e2[k] = v
        return it.eval(node.args[0], e2)
    finally:
        it.heap = save


def spec_implies(it, node, env):
    a = it.truth(it.eval(node.args[0], env))
    if isinstance(a, bool):
        if not a:
            return True
        return it.truth(it.eval(node.args[1], env))
    if isinstance(a, (ForallV, ExistsV)) or (isinstance(a, tuple) and a and a[0] == "and"):
        return ImpliesV(a, lambda: it.truth(it.eval(node.args[1], env)))
    it.pc.append(a)
    n_pc = len(it.pc)
    try:
        b = it.truth(it.eval(node.args[1], env))
    except Infeasible:
        b = True  # the antecedent cannot hold on this path
    except (_Raise, Unsupported):
        # the consequent is not even evaluable (e.g. len() of a number): fine if the antecedent cannot hold on this path
        if it.feasible():
            raise
        b = True
    finally:
        del it.pc[n_pc - 1:]
    if isinstance(b, ForallV):
        return ForallV(b.n, lambda k, a=a, b=b: disj(neg(a), core.to_bool(b.body(k))))
    if isinstance(b, bool):
        return True if b else neg(a)
    return z3.Implies(a, b)


def spec_result(it, node, env):
    return env["__result__"]


def spec_coef(it, node, env):
    """coef(e, x): the coefficient of the symbolic scalar x in e, for e linear in x:  e[x:=1] - e[x:=0]"""
    e = to_real(it.eval(node.args[0], env))
    x = it.eval(node.args[1], env)
    if not is_z3(x) or not z3.is_const(x):
        raise Unsupported("coef(): second argument must be a symbolic scalar")
    one = z3.RealVal(1) if z3.is_real(x) else z3.IntVal(1)
    zero = z3.RealVal(0) if z3.is_real(x) else z3.IntVal(0)
    return z3.simplify(z3.substitute(e, (x, one)) - z3.substitute(e, (x, zero)))


def spec_nearest(it, node, env):
    """nearest(x): an integer r with |x - r| <= 1/2 (a fresh integer constrained by that fact; exact arithmetic)"""
    x = to_real(it.eval(node.args[0], env))
    r = core.fresh("nearest", z3.IntSort())
    it.pc.append(z3.And(x - z3.ToReal(r) <= z3.RealVal("1/2"), z3.ToReal(r) - x <= z3.RealVal("1/2")))
    return r


SPEC_FORMS = {"old": spec_old, "implies": spec_implies, "coef": spec_coef, "nearest": spec_nearest}
