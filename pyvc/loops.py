"""
pyvc.loops -- loops.

Concrete iterables are unrolled (complete).  A loop over a symbolic-length sequence is *summarised*:

  1. discovery: the body is executed once for a generic index k from the pre-loop state; every write (local scalar,
     local array cell/slice, heap field) is logged with its path condition;
  2. a template state T(j) "after j iterations" is built from the log:
        - accumulators (x += d, arr[slice] += d, obj.f += d, obj.a[i] += d, scatter-add through elem(k).g):
              value_j(loc) = value_0(loc) + SUM_{m<j} ite(cond(m) and loc is written by m, d(m), 0)
        - per-element stores (elem(m).f = v, elem(m).a[i] = v, arr[m] = v):
              value_j(loc) = v(idx(loc)) if idx(loc) < j and cond(idx(loc)) else value_0(loc)
        - last-value locals (temporaries assigned before use in every iteration);
  3. the template is VERIFIED: the body is executed again from T(k) and the result must equal T(k+1) at a generic
     location -- obligations of kind `loop-step`.  A dependence between iterations, an unmodelled write or a wrong
     guess makes a loop-step obligation fail (undecided), never a wrong summary.
  4. the post-loop state is T(n).

`break` / `return` inside a summarised loop are unsupported.  A `raise` inside the body yields an exceptional
outcome for some k0 and the assumption "no iteration raises" on the normal path.
"""
import ast
import z3

from . import core, sums
from .core import ObjV, SymList, MapSeq, LArr, LArr2, HeapArr1, HeapArr2, HeapCol, Unsupported, is_z3, to_z3num, to_real, ite, conj, disj, neg, fresh
from .interp import _Break, _Continue, _Return, _Raise, Infeasible, explore, Chooser, QFact, concrete_int, simp, is_arr


def exec_for(it, node, env):
    seq = it.iterable(it.eval(node.iter, env))
    if isinstance(seq, list):
        broke = False
        for x in seq:
            it.assign_target(node.target, x, env)
            try:
                it.exec_block(node.body, env)
            except _Break:
                broke = True
                break
            except _Continue:
                continue
        if not broke:
            it.exec_block(node.orelse, env)
        return
    if node.orelse:
        raise Unsupported("for/else over a symbolic sequence")
    Summariser(it, node, env, seq).run()


def exec_while(it, node, env):
    # while loops with a concrete trip count are unrolled; anything else needs an invariant from the contract
    for _ in range(10000):
        c = it.truth(it.eval(node.test, env))
        if not isinstance(c, bool):
            raise Unsupported("while loop with symbolic condition needs an invariant (line %s)" % node.lineno)
        if not c:
            it.exec_block(node.orelse, env)
            return
        try:
            it.exec_block(node.body, env)
        except _Break:
            return
        except _Continue:
            continue
    raise Unsupported("while loop did not terminate in 10000 iterations")


def assigned_names(stmts):
    out = set()
    for s in stmts:
        for n in ast.walk(s):
            if isinstance(n, ast.Name) and isinstance(n.ctx, (ast.Store, ast.Del)):
                out.add(n.id)
            elif isinstance(n, ast.AugAssign) and isinstance(n.target, ast.Name):
                out.add(n.target.id)
    return out


def mutated_names(stmts):
    """local names whose array object may be mutated in place by the statements"""
    out = set()
    for s in stmts:
        for n in ast.walk(s):
            if isinstance(n, ast.AugAssign):
                t = n.target
                if isinstance(t, ast.Name):
                    out.add(t.id)
                elif isinstance(t, ast.Subscript) and isinstance(t.value, ast.Name):
                    out.add(t.value.id)
            elif isinstance(n, ast.Assign):
                for t in n.targets:
                    if isinstance(t, ast.Subscript) and isinstance(t.value, ast.Name):
                        out.add(t.value.id)
            elif isinstance(n, ast.Call):
                if isinstance(n.func, ast.Attribute) and isinstance(n.func.value, ast.Name) and n.func.attr in ("fill", "sort", "resize", "put", "itemset"):
                    out.add(n.func.value.id)
                for kw in n.keywords:
                    if kw.arg == "out" and isinstance(kw.value, ast.Name):
                        out.add(kw.value.id)
    return out


class PathResult:
    def __init__(self, cond, env, heap, logs, outcome):
        self.cond = cond
        self.env = env
        self.heap = heap
        self.logs = logs
        self.outcome = outcome


class LoggingHeap(core.Heap):
    """Heap that records every write (used inside loop bodies)."""

    def __init__(self, base, log):
        core.Heap.__init__(self, base.tag)
        for k in ("scal", "a1", "a1len", "a2", "a2rows", "a2cols", "llen", "lelem", "lidx", "lext"):
            setattr(self, k, dict(getattr(base, k)))
        self.touched = set(base.touched)
        self.log = log
        self.markers = getattr(base, "markers", None)
        self.marker_of = getattr(base, "marker_of", {})

    def copy(self):
        h = core.Heap(self.tag)
        for k in ("scal", "a1", "a1len", "a2", "a2rows", "a2cols", "llen", "lelem", "lidx", "lext"):
            setattr(h, k, dict(getattr(self, k)))
        h.touched = set(self.touched)
        return h

    def _decl_mentioned(self, t, key):
        """is the store value NOT of the form  current + delta ?  (discovery heaps carry markers, see mark_heap)"""
        if self.markers is None:
            return True  # not a discovery run: never classify
        name = self.marker_of.get(key)
        if name is None:
            return True
        for x in core.uninterp_apps(t):
            if x.decl().name() == name:
                return True
        return False

    def write_scal(self, field, kind, ref, val, cond=True):
        inc = None
        if kind == "real":
            fm = self._scal(field, kind)
            cur = fm.read(ref)
            d = delta_of(val, cur)
            if not self._decl_mentioned(d, ("scal", field, kind)):
                inc = lambda d=d: d
        self.log.append(dict(kind="scal", field=field, skind=kind, ref=ref, guard=None, val=(lambda val=val: val), inc=inc))
        core.Heap.write_scal(self, field, kind, ref, val, cond)

    def write_a1(self, field, ref, i, val, cond=True):
        fm = self._a1(field)
        cur = fm.read(ref, i)
        d = delta_of(val, cur)
        inc = None
        if not self._decl_mentioned(d, ("a1", field)):
            inc = lambda j, d=d: d
        self.log.append(dict(kind="a1", field=field, ref=ref, guard=(lambda j, i=i: j == i), val=(lambda j, val=val: val), inc=inc, index=i))
        core.Heap.write_a1(self, field, ref, i, val, cond)

    def write_a1_where(self, field, ref, idx_guard, valf, cond=True):
        fm = self._a1(field)
        jj = fresh("j", z3.IntSort())
        d = delta_of(valf(jj), fm.read(ref, jj))
        inc = None
        if not self._decl_mentioned(d, ("a1", field)):
            inc = lambda j, d=d, jj=jj: z3.substitute(d, (jj, to_z3num(j)))
        self.log.append(dict(kind="a1", field=field, ref=ref, guard=idx_guard, val=valf, inc=inc, index=None))
        core.Heap.write_a1_where(self, field, ref, idx_guard, valf, cond)

    def set_a1(self, field, ref, n, valf):
        raise Unsupported("array field rebinding inside a summarised loop")

    def write_a2_where(self, field, ref, guard_ij, valf, cond=True, col=None, row=None):
        fm = self._a2(field)
        ii = fresh("i", z3.IntSort())
        cc = fresh("c", z3.IntSort())
        # the store touches one column: compare with the current content of that column
        d = delta_of(valf(ii, cc), fm.read(ref, row if row is not None else ii, col if col is not None else cc))
        inc = None
        if not self._decl_mentioned(d, ("a2", field)):
            inc = lambda i, c, d=d, ii=ii, cc=cc: z3.substitute(d, (ii, to_z3num(i)), (cc, to_z3num(c)))
        self.log.append(dict(kind="a2", field=field, ref=ref, guard=guard_ij, val=valf, inc=inc))
        core.Heap.write_a2_where(self, field, ref, guard_ij, valf, cond, col, row)


def delta_of(t, base):
    """t - base with the subtraction pushed through if-then-else (z3's simplifier does not hoist it)"""
    t = to_real(t) if not is_z3(t) or z3.is_arith(t) else t
    if is_z3(t) and z3.is_app(t) and t.decl().kind() == z3.Z3_OP_ITE:
        c, a, b = t.children()
        da, db = delta_of(a, base), delta_of(b, base)
        if da.eq(db):
            return da
        return z3.If(c, da, db)
    return z3.simplify(to_real(t) - base)


def mark_heap(heap):
    """discovery heap: every real-valued location reads as  old value + M(location)  with M a fresh uninterpreted function.
    A logged store whose value minus the location's current content does not mention M is an increment; everything
    else is a plain store.  M is replaced by 0 in every term taken from the discovery run."""
    h = heap.copy()
    markers = []
    h.marker_of = {}
    for key, fm in list(h.scal.items()):
        if key[1] != "real":
            continue
        m = z3.Function(core.fresh_name("M_" + key[0]), core.Ref, z3.RealSort())
        markers.append(m)
        h.marker_of[("scal",) + key] = m.name()
        h.scal[key] = fm.write(lambda r: True, lambda r, fm=fm, m=m: fm.read(r) + m(r))
    for field, fm in list(h.a1.items()):
        m = z3.Function(core.fresh_name("M_" + field), core.Ref, z3.IntSort(), z3.RealSort())
        markers.append(m)
        h.marker_of[("a1", field)] = m.name()
        h.a1[field] = fm.write(lambda r, i: True, lambda r, i, fm=fm, m=m: fm.read(r, i) + m(r, i))
    for field, fm in list(h.a2.items()):
        m = z3.Function(core.fresh_name("M_" + field), core.Ref, z3.IntSort(), z3.IntSort(), z3.RealSort())
        markers.append(m)
        h.marker_of[("a2", field)] = m.name()
        h.a2[field] = fm.write(lambda r, i, c: True, lambda r, i, c, fm=fm, m=m: fm.read(r, i, c) + m(r, i, c))
    return h, markers


class Summariser:
    def __init__(self, it, node, env, seq):
        self.it = it
        self.node = node
        self.env = env
        self.seq = seq
        self.n = to_z3num(it.seq_len(seq))
        self.line = node.lineno
        self.tag = "loop@L%d" % node.lineno

    # -------------------------------------------------------------------------------------------- body runs
    def run_body(self, k, env0, heap0, extra_pc=()):
        """execute the body for element k from (env0, heap0) on all paths; returns list of PathResult"""
        it = self.it
        saved = (it.heap, it.pc, it.chooser, it.obligations, it.definedness)
        results = []
        base_pc = list(saved[1]) + [0 <= k, k < self.n] + list(extra_pc)

        def run(ch):
            log = []
            it.heap = LoggingHeap(heap0, log)
            it.pc = list(base_pc)
            it.chooser = ch
            env = {}
            for name, v in env0.items():
                if isinstance(v, LArr):
                    env[name] = v.snapshot()
                elif isinstance(v, list):
                    env[name] = list(v)
                elif isinstance(v, dict):
                    env[name] = dict(v)
                else:
                    env[name] = v
            outcome = None
            if not it.feasible():
                raise Infeasible()
            try:
                it.assign_target(self.node.target, it.seq_elem(self.seq, k), env)
                it.exec_block(self.node.body, env)
            except _Continue:
                pass
            except _Break:
                raise Unsupported("break inside a loop over a symbolic sequence (line %d)" % self.line)
            except _Return:
                raise Unsupported("return inside a loop over a symbolic sequence (line %d)" % self.line)
            except _Raise as r:
                outcome = ("raise", r.exc_class, r.node)
            cond = conj(*it.pc[len(base_pc):])
            for name, v in env0.items():
                if isinstance(v, (list, dict)) and name in env and env[name] != v:
                    raise Unsupported("python container %s mutated inside a loop over a symbolic sequence (line %d)" % (name, self.line))
            return PathResult(cond, env, it.heap, log, outcome)

        try:
            results = explore(run)
        finally:
            it.heap, it.pc, it.chooser, _, it.definedness = saved
        return results

    # -------------------------------------------------------------------------------------------- main
    def run(self):
        it = self.it
        k = fresh("k", z3.IntSort())
        it.register_index(k)
        it.facts.append(self.n >= 0)
        heap0 = it.heap.copy()
        names = assigned_names(self.node.body)
        import numpy as _np

        for name in set(names) | mutated_names(self.node.body):
            v = self.env.get(name)
            if isinstance(v, _np.ndarray) and v.ndim == 1 and v.dtype != object:
                # a concrete array that the loop updates: same contents as a symbolic local array
                self.env[name] = LArr(len(v), it._list_reader([x.item() for x in v]), dtype="float" if v.dtype.kind == "f" else ("bool" if v.dtype == bool else "int"))
        env0 = dict(self.env)
        target_names = assigned_names([ast.Assign(targets=[self.node.target], value=ast.Constant(0))]) if True else set()

        # ---- discovery run: placeholders for loop-carried locals
        ph_s = {}  # scalar placeholders (z3 Real constants)
        ph_a = {}  # array placeholders (z3 functions Int -> Real)
        envd = dict(env0)
        for name in sorted(names):
            if name in target_names or name not in env0:
                continue
            v = env0[name]
            if (is_z3(v) and z3.is_arith(v)) or (isinstance(v, (int, float)) and not isinstance(v, bool)):
                p = fresh("acc_" + name, z3.RealSort())
                ph_s[name] = p
                envd[name] = p
        seen_arr = {}
        mut = mutated_names(self.node.body) | set(names)
        for name, v in env0.items():
            if isinstance(v, LArr) and name in mut:
                if id(v) in seen_arr:
                    raise Unsupported("local arrays %s and %s alias each other at a summarised loop (line %d)" % (seen_arr[id(v)], name, self.line))
                seen_arr[id(v)] = name
                f = z3.Function(core.fresh_name("arr_" + name), z3.IntSort(), z3.RealSort())
                ph_a[name] = f
                envd[name] = LArr(v.n, (lambda i, f=f: f(to_z3num(i))), v.fresh_alloc, v.dtype)
        save_def = it.definedness
        it.definedness = False
        # make sure every field the body may touch has a map to mark: a first throw-away run registers them
        try:
            self.run_body(k, envd, heap0)
        except Unsupported:
            pass
        finally:
            it.definedness = save_def
        hm, markers = mark_heap(heap0)
        hm.markers = markers
        self.markers = markers
        it.definedness = False
        try:
            paths = self.run_body(k, envd, hm)
        finally:
            it.definedness = save_def
        for p in paths:
            p.cond = self.unmark(p.cond)
            for name in list(p.env):
                v = p.env[name]
                if is_z3(v):
                    p.env[name] = self.unmark(v)
                elif isinstance(v, LArr):
                    p.env[name] = LArr(v.n, (lambda i, g=v.get: self.unmark(g(i))), v.fresh_alloc, v.dtype)
            for e in p.logs:
                e["ref"] = self.unmark(e["ref"])
                for fkey in ("guard", "val", "inc"):
                    if e.get(fkey) is not None:
                        e[fkey] = (lambda *a, f=e[fkey]: self.unmark(f(*a)))
        normal = [p for p in paths if p.outcome is None]
        raising = [p for p in paths if p.outcome is not None]

        # ---- classify locals
        self.scalar_acc = {}  # name -> delta(k) term
        self.last_val = {}  # name -> value(k) term, or ("opaque",) for non-numeric temporaries
        for name in sorted(names):
            if name in target_names or name in ph_a:
                continue
            outs = [(p.cond, p.env.get(name, None)) for p in normal]
            if name in ph_s:
                p = ph_s[name]
                if any(is_arr(o) for _, o in outs):
                    # x = 0; for ...: x += array.  For an empty sequence the loop does nothing (x stays a scalar);
                    # otherwise x becomes an array of the summand's length after the first iteration
                    if not it.branch(self.n > 0):
                        return
                    self._promote_scalar_to_array(name, env0, k, heap0)
                    return self.run()  # restart with the promoted accumulator
                numeric = all(o is not None and (is_z3(o) and z3.is_arith(o) or isinstance(o, (int, float))) for _, o in outs)
                if numeric:
                    deltas = [(c, delta_of(o, p)) for c, o in outs]
                    if not any(core.contains(d, p) for _, d in deltas):
                        self.scalar_acc[name] = self._merge(deltas)
                        continue
                    if not any(is_z3(o) and core.contains(o, p) for _, o in outs):
                        self.last_val[name] = self._merge([(c, to_real(o)) for c, o in outs])
                        continue
                raise Unsupported("local %s is loop-carried in an unsupported way (line %d)" % (name, self.line))
            # not numeric before the loop, or undefined before it: a temporary of the iteration
            if name in env0 and all(o is env0[name] for _, o in outs):
                continue
            self.last_val[name] = ("opaque",)

        # ---- collect write logs
        self.heap_logs = []  # (cond, entry)
        self.larr_final = {}  # name -> list of (cond, get)
        for p in normal:
            for e in p.logs:
                if e["kind"] == "larr":
                    continue
                self.heap_logs.append((p.cond, e))
            for name, v in p.env.items():
                if name in ph_a and isinstance(env0[name], LArr):
                    # the summary of a local array is cell by cell over ITS length: an iteration that rebinds the name to an array
                    # of another length (e.g. broadcasting a one-element array against a column) is outside it
                    n_in, n_out = env0[name].n, getattr(v, "n", None)
                    same = (n_out is not None) and ((concrete_int(n_in) is not None and concrete_int(n_in) == concrete_int(n_out)) or (is_z3(n_in) and is_z3(n_out) and to_z3num(n_in).eq(to_z3num(n_out))) or n_in is n_out)
                    if not same and concrete_int(n_in) == 1 and n_out is not None:
                        # x = np.array([c]); for ...: x = x + column.  numpy broadcasts the one-element array against the column in
                        # the first iteration; for an empty sequence the loop does nothing.  Treat x as the broadcast array.
                        if not it.branch(self.n > 0):
                            return
                        ln = n_out
                        if is_z3(ln):
                            ln = simp(z3.substitute(to_z3num(ln), (k, z3.IntVal(0))))
                            it.register_index(z3.IntVal(0))
                        first = env0[name].get(0)
                        it.assumptions_log.add("one-element array accumulator broadcast to the summand's length (for an empty sequence numpy keeps the one-element array; equivalent under broadcasting at the use sites)")
                        self.env[name] = LArr(ln, lambda i, first=first: first)
                        return self.run()
                    if not same:
                        raise Unsupported("local array %s changes its length inside the loop at line %d" % (name, self.line))
                    self.larr_final.setdefault(name, []).append((p.cond, v.get))
        self.k0 = k
        self.ph = ph_a
        self.heap0 = heap0
        self.env0 = env0
        self._build_field_templates()
        self._build_larr_templates(normal)

        # ---- verify the template: run the body from T(k), compare with T(k+1)
        k2 = fresh("k", z3.IntSort())
        it.register_index(k2)
        envk, heapk = self.template(k2)
        paths2 = self.run_body(k2, envk, heapk)
        normal2 = [p for p in paths2 if p.outcome is None]
        raise_conds2 = [p.cond for p in paths2 if p.outcome is not None]
        envn, heapn = self.template(k2 + 1)
        pre = [0 <= k2, k2 < self.n] + [neg(c) for c in raise_conds2 if c is not True]
        saved_pc = list(it.pc)
        it.pc = saved_pc + [x for x in pre if x is not True]
        try:
            self._check_step(normal2, envn, heapn, k2)
        finally:
            it.pc = saved_pc

        # ---- exceptional outcome / normal continuation
        if raising:
            kc = self.k0
            rc = disj(*[p.cond for p in raising])
            alt = it.chooser.choose(2)
            if alt == 1:
                kx = fresh("kraise", z3.IntSort())
                it.register_index(kx)
                cond_at = core.subst(rc, [(kc, kx)]) if is_z3(rc) else rc
                it.assume(z3.And(0 <= kx, kx < self.n))
                it.assume(cond_at)
                envx, heapx = self.template(kx)
                self.env.update(envx)
                it.heap = heapx
                raise _Raise(raising[0].outcome[1], raising[0].outcome[2])
            if is_z3(rc):
                it.qfacts.append(QFact([kc], [self.n], z3.Not(rc), name="no-raise@L%d" % self.line))
        envf, heapf = self.template(self.n)
        self.env.update(envf)
        it.heap = heapf

    # -------------------------------------------------------------------------------------------- helpers
    def unmark(self, t):
        if not is_z3(t) or not self.markers:
            return t
        pairs = []
        for m in self.markers:
            zero = z3.RealVal(0)
            pairs.append((m, zero))
        t = z3.simplify(z3.substitute_funs(t, *pairs))
        # sums created during the discovery run may have markers inside their summands: rebuild them from the unmarked summand
        names = {m.name() for m in self.markers}
        for _ in range(8):
            dirty = []
            for atom, j, args, app in sums.atom_apps([t]):
                probe = [atom.term] + ([atom.guard] if atom.guard is not True else [])
                if any(x.decl().name() in names for p in probe for x in core.uninterp_apps(p)):
                    dirty.append((atom, j, list(args), app))
            if not dirty:
                break
            reps = []
            for atom, j, args, app in dirty:
                new = sums.make_sum(lambda k, atom=atom, args=args: self.unmark(atom.summand(k, args)), 0, j)
                reps.append((app, new))
            t = z3.simplify(z3.substitute(t, *reps))
        return t

    def _merge(self, pairs):
        res = None
        for c, v in reversed(pairs):
            res = v if res is None else ite(c, v, res)
        return res

    def _promote_scalar_to_array(self, name, env0, k, heap0):
        """x = 0; for ..: x += array   ->  treat x as zeros(len)+x0 (numpy keeps the scalar only for an empty sequence)"""
        it = self.it
        v0 = env0[name]
        # find the array length from one more discovery run
        p = fresh("acc", z3.RealSort())
        envd = dict(env0)
        envd[name] = p
        save_def = it.definedness
        it.definedness = False
        try:
            paths = self.run_body(k, envd, heap0)
        finally:
            it.definedness = save_def
        ln = None
        for pth in paths:
            o = pth.env.get(name)
            if is_arr(o):
                ln = it.arr_len(o)
                if is_z3(ln):
                    # the summand's length for the first element (all elements must agree: shape obligations in the body)
                    ln = simp(z3.substitute(ln, (k, z3.IntVal(0))))
                    it.register_index(z3.IntVal(0))
                break
        it.assumptions_log.add("scalar accumulator promoted to an array of the summand's length (for an empty sequence numpy keeps the scalar; equivalent under broadcasting at the use sites)")
        self.env[name] = LArr(ln, lambda i, v0=v0: v0)

    def _subst_k(self, t, j):
        if not is_z3(t):
            return t
        return z3.substitute(t, (self.k0, to_z3num(j)))

    def _subst_ph(self, t, env_at):
        """replace accumulator placeholders by their template values (normally they do not occur)"""
        return t

    def _build_field_templates(self):
        """group logged heap writes by (kind, field)"""
        self.field_writes = {}
        for cond, e in self.heap_logs:
            key = (e["kind"], e["field"], e.get("skind"))
            self.field_writes.setdefault(key, []).append((cond, e))
        self.field_mode = {}
        for key, ws in self.field_writes.items():
            incs = [e["inc"] is not None for _, e in ws]
            if all(incs):
                self.field_mode[key] = "inc"
            elif not any(incs):
                self.field_mode[key] = "set"
            else:
                raise Unsupported("field %s is both assigned and incremented inside the loop at line %d" % (key[1], self.line))

    def _recv_index(self, ref):
        """if ref is exactly elem(seq, k0) of a SymList (or a component of the zipped element): the inverse r -> index"""
        it = self.it
        k = self.k0
        lists = []
        if isinstance(self.seq, SymList):
            lists.append(self.seq)
        cands = getattr(self.seq, "_lists", None)
        if cands:
            lists += cands
        for s in lists:
            e = it.heap.list_elem(s.field, s.owner.ref, k)
            if ref.eq(e):
                return s
        # search: any SymList application lelem(owner, k0) equal to ref
        if z3.is_app(ref) and ref.num_args() == 2 and ref.arg(1).eq(k) and ref.decl().name().endswith("[]"):
            field = ref.decl().name()[:-2]
            owner = ref.arg(0)
            if not core.contains(owner, k):
                return ("raw", field, owner)
        return None

    def _list_fns(self, s):
        it = self.it
        if isinstance(s, tuple):
            _, field, owner = s
            return (lambda r: it.heap.list_idx(field, owner, r)), (lambda r: it.heap.list_member(field, owner, r))
        return (lambda r: it.heap.list_idx(s.field, s.owner.ref, r)), (lambda r: it.heap.list_member(s.field, s.owner.ref, r))

    def template_heap(self, j):
        """heap after j iterations"""
        it = self.it
        j = to_z3num(j)
        k = self.k0
        h = self.heap0.copy()
        for key, ws in self.field_writes.items():
            kind, field, skind = key
            h.touched.add(key)
            mode = self.field_mode[key]
            if mode == "inc":
                self._tmpl_inc(h, kind, field, skind, ws, j)
            else:
                self._tmpl_set(h, kind, field, skind, ws, j)
        return h

    def _tmpl_inc(self, h, kind, field, skind, ws, j):
        k = self.k0
        h0 = self.heap0

        def total(r, *idx):
            def summand(m):
                tot = z3.RealVal(0)
                for cond, e in ws:
                    ref_m = self._subst_k(e["ref"], m)
                    c_m = self._subst_k(cond, m) if is_z3(cond) else cond
                    if kind == "scal":
                        g = True
                        d = e["inc"]()
                    else:
                        g = e["guard"](*idx)
                        d = e["inc"](*idx)
                    g = self._subst_k(g, m) if is_z3(g) else g
                    d = self._subst_k(to_real(d), m)
                    same = core.ref_eq(r, ref_m)
                    tot = tot + ite(conj(c_m, same, g), d, z3.RealVal(0))
                return tot

            return sums.make_sum(summand, 0, j)

        if kind == "scal":
            fm = h._scal(field, skind)
            base = h0._scal(field, skind)
            h.scal[(field, skind)] = fm.write(lambda r: True, lambda r, base=base: base.read(r) + total(r))
        elif kind == "a1":
            fm = h._a1(field)
            base = h0._a1(field)
            h.a1[field] = fm.write(lambda r, i: True, lambda r, i, base=base: base.read(r, i) + total(r, i))
        else:
            fm = h._a2(field)
            base = h0._a2(field)
            h.a2[field] = fm.write(lambda r, i, c: True, lambda r, i, c, base=base: base.read(r, i, c) + total(r, i, c))

    def _tmpl_set(self, h, kind, field, skind, ws, j):
        it = self.it
        k = self.k0
        # all receivers must be the loop element (injective) or loop-invariant (last writer wins)
        for cond, e in ws:
            ref = e["ref"]
            if core.contains(ref, k):
                s = self._recv_index(ref)
                if s is None:
                    raise Unsupported("store to %s through a receiver that is not the loop element (line %d)" % (field, self.line))
                idxf, memf = self._list_fns(s)

                def guard_r(r, idxf=idxf, memf=memf, cond=cond):
                    m = idxf(r)
                    c_m = self._subst_k(cond, m) if is_z3(cond) else cond
                    return conj(memf(r), m < j, c_m)

                inv = idxf
            else:
                # loop-invariant receiver: value of the last iteration (j-1) if j > 0
                def guard_r(r, ref=ref, cond=cond):
                    c_m = self._subst_k(cond, j - 1) if is_z3(cond) else cond
                    return conj(core.ref_eq(r, ref), j > 0, c_m)

                inv = lambda r: j - 1
            if kind == "scal":
                fm = h._scal(field, skind)
                val = e["val"]()
                h.scal[(field, skind)] = fm.write(guard_r, lambda r, val=val, inv=inv: self._subst_k(val, inv(r)))
            elif kind == "a1":
                fm = h._a1(field)
                h.a1[field] = fm.write(
                    lambda r, i, e=e, guard_r=guard_r, inv=inv: conj(guard_r(r), self._subst_k(e["guard"](i), inv(r))),
                    lambda r, i, e=e, inv=inv: self._subst_k(to_real(e["val"](i)), inv(r)),
                )
            else:
                fm = h._a2(field)
                h.a2[field] = fm.write(
                    lambda r, i, c, e=e, guard_r=guard_r, inv=inv: conj(guard_r(r), self._subst_k(e["guard"](i, c), inv(r))),
                    lambda r, i, c, e=e, inv=inv: self._subst_k(to_real(e["val"](i, c)), inv(r)),
                )

    def _build_larr_templates(self, normal):
        """local arrays: delta function d(k; i) = get_out(i) - placeholder(i) must not mention the placeholder (additive),
        or get_out(i) = ite(i == k, v(k), placeholder(i)) (per-index store)"""
        self.larr_mode = {}
        it = self.it
        for name, outs in self.larr_final.items():
            f = self.ph[name]
            i = fresh("i", z3.IntSort())
            cn = concrete_int(self.env0[name].n)
            if cn is not None and cn <= 64:
                # concrete length: cell by cell (element readers of eagerly evaluated arrays are tables over concrete indices)
                ds = []
                for j in range(cn):
                    mj = self._merge([(c, to_real(g(j))) for c, g in outs])
                    ds.append(delta_of(mj, f(z3.IntVal(j))))
                if not any(self._mentions_fn(dj, f) for dj in ds):
                    d = ds[-1]
                    for j in range(cn - 2, -1, -1):
                        d = z3.If(i == j, ds[j], d)
                    if all(z3.is_rational_value(z3.simplify(dj)) and z3.simplify(dj).numerator_as_long() == 0 for dj in ds):
                        continue
                    self.larr_mode[name] = ("inc", i, d)
                    continue
            merged = self._merge([(c, to_real(g(i))) for c, g in outs])
            d = delta_of(merged, f(i))
            if not self._mentions_fn(d, f):
                if z3.is_rational_value(d) and d.numerator_as_long() == 0:
                    continue
                self.larr_mode[name] = ("inc", i, d)
                continue
            # per-index store at i == k
            at_k = simp(z3.substitute(merged, (i, self.k0)))
            other = simp(z3.substitute(merged, (i, self.k0 + 1)))
            if not self._mentions_fn(at_k, f):
                self.larr_mode[name] = ("setk", i, merged, at_k)
                continue
            raise Unsupported("local array %s is updated in an unsupported way inside the loop at line %d" % (name, self.line))

    def _mentions_fn(self, t, f):
        seen = set()
        stack = [t]
        while stack:
            x = stack.pop()
            if x.get_id() in seen:
                continue
            seen.add(x.get_id())
            if z3.is_app(x) and x.decl().eq(f):
                return True
            stack.extend(x.children())
        return False

    def template(self, j):
        """(env overrides, heap) after j iterations"""
        it = self.it
        j = to_z3num(j)
        env = dict(self.env0)
        for name, d in self.scalar_acc.items():
            x0 = self.env0[name]
            s = sums.make_sum(lambda m, d=d: self._subst_k(d, m), 0, j)
            env[name] = simp(to_real(x0) + s)
        for name, v in self.last_val.items():
            if isinstance(v, tuple) or name not in self.env0:
                env.pop(name, None)  # temporaries of the iteration are not available after the loop
                continue
            env[name] = ite(j > 0, self._subst_k(v, j - 1), self.env0[name])
        for name, mode in self.larr_mode.items():
            a0 = self.env0[name]
            g0 = a0.get
            if mode[0] == "inc":
                _, i, d = mode

                def get(x, i=i, d=d, g0=g0):
                    dx = z3.substitute(d, (i, to_z3num(x)))
                    s = sums.make_sum(lambda m, dx=dx: self._subst_k(dx, m), 0, j)
                    return simp(to_real(g0(x)) + s)

            else:
                _, i, merged, at_k = mode

                def get(x, at_k=at_k, g0=g0):
                    x = to_z3num(x)
                    return ite(z3.And(0 <= x, x < j), self._subst_k(at_k, x), to_real(g0(x)))

            env[name] = LArr(a0.n, get, a0.fresh_alloc, a0.dtype)
        # loop variable itself is not defined by the template
        return env, self.template_heap(j)

    def _check_step(self, paths, envn, heapn, k2):
        it = self.it
        if not paths:
            return
        pre_note = "inductive step of the loop summary at line %d" % self.line

        def merged(fn):
            return self._merge([(p.cond, fn(p)) for p in paths])

        for name in self.scalar_acc:
            got = merged(lambda p: to_real(p.env[name]))
            it.oblige("loop-step", "%s/acc:%s" % (self.tag, name), got == to_real(envn[name]), self.line, pre_note)
        for name, v in self.last_val.items():
            if isinstance(v, tuple):
                continue
            got = merged(lambda p: to_real(p.env[name]))
            it.oblige("loop-step", "%s/last:%s" % (self.tag, name), got == to_real(envn[name]), self.line, pre_note)
        for name in self.larr_mode:
            i = fresh("i", z3.IntSort())
            got = merged(lambda p: to_real(p.env[name].get(i)))
            n0 = to_z3num(self.env0[name].n)
            it.oblige("loop-step", "%s/arr:%s" % (self.tag, name), z3.Implies(z3.And(0 <= i, i < n0), got == to_real(envn[name].get(i))), self.line, pre_note)
        # locals that were not classified as modified must be unchanged
        for name, v0 in self.env0.items():
            if name in self.scalar_acc or name in self.last_val or name in self.larr_mode:
                continue
            for p in paths:
                v1 = p.env.get(name)
                if isinstance(v0, LArr):
                    i = fresh("i", z3.IntSort())
                    a, b = to_real(v1.get(i)), to_real(v0.get(i))
                    if not a.eq(b):
                        it.oblige("loop-step", "%s/unchanged:%s" % (self.tag, name), a == b, self.line, pre_note)
                elif is_z3(v0) and is_z3(v1) and not v0.eq(v1):
                    raise Unsupported("local %s changed in the verification run but not in the discovery run" % name)
        # heap: every touched field at a generic location
        touched = set(self.field_writes)
        for p in paths:
            for e in p.logs:
                if e["kind"] != "larr":
                    touched.add((e["kind"], e["field"], e.get("skind")))
        for kind, field, skind in sorted(touched, key=str):
            r = fresh("r", core.Ref)
            if kind == "scal":
                got = merged(lambda p: p.heap.read_scal(field, skind, r))
                want = heapn.read_scal(field, skind, r)
                goal = got == want
            elif kind == "a1":
                i = fresh("i", z3.IntSort())
                got = merged(lambda p: p.heap.read_a1(field, r, i))
                want = heapn.read_a1(field, r, i)
                goal = z3.Implies(z3.And(0 <= i, i < heapn.len_a1(field, r)), got == want)  # cells outside the array do not exist
            else:
                i = fresh("i", z3.IntSort())
                c = fresh("c", z3.IntSort())
                got = merged(lambda p: p.heap.read_a2(field, r, i, c))
                want = heapn.read_a2(field, r, i, c)
                goal = z3.Implies(z3.And(0 <= i, i < heapn.rows_a2(field, r), 0 <= c, c < heapn.cols_a2(field, r)), got == want)
            it.oblige("loop-step", "%s/heap:%s" % (self.tag, field), goal, self.line, pre_note)
