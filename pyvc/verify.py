"""
pyvc.verify -- contracts -> obligations -> verdicts.

verify_function(qualname, contract, schema) symbolically executes the function's real AST on every path under the
contract's `requires`, and produces named obligations:

  ensures[i]        functional postconditions (evaluated in the post-state, old(...) in the pre-state)
  raises            the exception escaping a path is one the contract allows, under the stated condition
  frame             every heap location outside `modifies` is unchanged
  defined/...       divisions, indices, shapes, None-dereferences, unbound names on the executed path
  loop-step/...     inductive step of every loop summary
  cover             the assumptions of each path are satisfiable together with all lemma instances (vacuity guard)

Obligations are discharged by z3 (quantifier-free; sums through the lemma engine below); cvc5 is tried on `unknown`.
"""
import ast
import time
import z3

from . import core, sums, source
from .core import ObjV, SymList, MapSeq, LArr, LArr2, HeapArr1, HeapArr2, Unsupported, CheckerError, is_z3, to_z3num, to_real, fresh, conj, disj, neg, ite, NONE
from .interp import ImpliesV, Interp, Obligation, QFact, ForallV, ExistsV, explore, Chooser, _Return, _Raise, _Continue, _Break, Infeasible, Aborted, concrete_int, is_arr


TrackingHeap = core.Heap


def _deep_snapshot(env):
    """structural copy of a contract-built environment (objects of concrete shape, lists, dicts, local arrays), preserving sharing"""
    from .interp import PyObjV

    memo = {}

    def cp(v):
        if id(v) in memo:
            return memo[id(v)]
        if isinstance(v, PyObjV):
            o = PyObjV(v.cls, v.module, {})
            memo[id(v)] = o
            o.fields = {k: cp(x) for k, x in v.fields.items()}
            return o
        if isinstance(v, list):
            o = []
            memo[id(v)] = o
            o.extend(cp(x) for x in v)
            return o
        if isinstance(v, dict):
            o = {}
            memo[id(v)] = o
            for k, x in v.items():
                o[k] = cp(x)
            return o
        if isinstance(v, tuple):
            return tuple(cp(x) for x in v)
        if isinstance(v, set):
            return set(v)
        if isinstance(v, LArr):
            o = v.snapshot()
            memo[id(v)] = o
            return o
        if isinstance(v, LArr2):
            o = LArr2(v.nr, v.nc, v.get)
            memo[id(v)] = o
            return o
        return v

    return {k: cp(v) for k, v in env.items()}


def make_param(it, name, kind):
    if kind == "int":
        return z3.Int(name)
    if kind == "real":
        return z3.Real(name)
    if kind == "bool":
        return z3.Bool(name)
    if kind == "str":
        return z3.Const(name, core.Str)
    if kind.startswith("obj:"):
        return it.new_obj(name, kind[4:].split("|"))
    if kind.startswith("obj?:"):
        return it.new_obj(name, kind[5:].split("|"), maybe_none=True)
    if kind.startswith("arr1:"):
        n = int(kind.split(":")[1])
        vals = [z3.Real("%s[%d]" % (name, i)) for i in range(n)]
        return LArr(n, lambda i, vals=vals: vals[concrete_int(i)] if concrete_int(i) is not None else _select(vals, i), fresh_alloc=False)
    if kind == "arr1":
        n = z3.Int("len_" + name)
        f = z3.Function("arg_" + name, z3.IntSort(), z3.RealSort())
        it.facts.append(n >= 0)
        return LArr(n, lambda i, f=f: f(to_z3num(i)), fresh_alloc=False)
    if kind.startswith("const:"):
        return eval(kind[6:], {})
    raise Unsupported("parameter kind %s" % kind)


def _select(vals, i):
    res = vals[-1]
    for j in range(len(vals) - 2, -1, -1):
        res = z3.If(i == j, vals[j], res)
    return res


def parse_expr(s):
    try:
        return ast.parse(s, mode="eval").body
    except SyntaxError:
        return ast.parse("(" + s + ")", mode="eval").body


class PathOutcome:
    def __init__(self):
        self.kind = None
        self.value = None
        self.exc = None


def assume_spec(it, v, name=""):
    """assume the value of a spec expression (Bool term, ForallV, conjunction)"""
    if isinstance(v, bool):
        if not v:
            raise Infeasible()
        return
    if isinstance(v, ForallV):
        it.add_forall(v, name)
        return
    if isinstance(v, tuple) and v and v[0] == "and":
        for p in v[1]:
            assume_spec(it, p, name)
        assume_spec(it, v[2], name)
        return
    if isinstance(v, ExistsV):
        k = fresh("ex", z3.IntSort())
        it.register_index(k)
        it.pc.append(z3.And(0 <= k, k < to_z3num(v.n)))
        assume_spec(it, it.truth(v.body(k)), name)
        return
    if is_z3(v):
        it.pc.append(v)
        return
    raise Unsupported("cannot assume spec value %r" % (v,))


def goal_of(it, v):
    """turn a spec value into a z3 goal, skolemising universals; returns (extra_assumptions, goal)"""
    if isinstance(v, bool):
        return [], z3.BoolVal(v)
    if isinstance(v, ForallV):
        k = fresh("sk", z3.IntSort())
        it.register_index(k)
        pre = [0 <= k, k < to_z3num(v.n)]
        if getattr(v, "elem", None) is not None:
            e = v.elem(k)
            if is_z3(e) and z3.is_int(e) and not e.eq(k):
                it.register_index(z3.simplify(e))  # e.g. 1 + k for range(1, R): quantified assumptions are instantiated there too
        it.pc += pre  # the body is evaluated for an element in range (dispatch feasibility uses it)
        try:
            b = v.body(k)
            sub_pre, g = goal_of(it, it.truth(b) if not isinstance(b, (ForallV, ExistsV, bool)) else b)
        finally:
            del it.pc[-len(pre):]
        return pre + sub_pre, g
    if isinstance(v, tuple) and v and v[0] == "and":
        pre, g = goal_of(it, v[2])
        plain = conj(*v[1])
        return [], z3.And(core.to_bool(plain) if not isinstance(plain, bool) else z3.BoolVal(plain), z3.Implies(z3.And(pre) if pre else z3.BoolVal(True), g))
    if isinstance(v, ImpliesV):
        # assume the antecedent (plain part into the path condition, universal part as a quantified fact), prove the consequent
        n_pc = len(it.pc)
        assume_spec(it, v.antecedent, "antecedent")
        extra = it.pc[n_pc:]
        del it.pc[n_pc:]
        it.pc += extra
        try:
            b = v.thunk()
            sub_pre, g = goal_of(it, b)
        finally:
            del it.pc[n_pc:]
        return list(extra) + sub_pre, g
    if isinstance(v, ExistsV):
        # an existential goal is proved by one of the index terms known on the path (e.g. the witness of a failed `all`)
        alts = []
        for t in list(it.index_terms):
            b = v.body(t)
            b = it.truth(b) if not isinstance(b, (bool,)) else b
            if isinstance(b, (ForallV, ExistsV)):
                raise Unsupported("nested quantifier under an existential goal")
            alts.append(conj(z3.And(0 <= t, t < to_z3num(v.n)), b))
        return [], core.to_bool(disj(*alts)) if alts else z3.BoolVal(False)
    if is_z3(v):
        return [], v
    raise Unsupported("cannot prove spec value %r" % (v,))


# ---------------------------------------------------------------------------------------------------- modifies
class Modifies:
    """allowed-to-change predicate per (kind, field)"""

    def __init__(self, it, entries, env):
        self.it = it
        self.entries = []
        for s in entries:
            node = parse_expr(s)
            self.entries.append(node)
        self.env = env

    def allowed(self, kind, field, r, idx):
        it = self.it
        alts = []
        for node in self.entries:
            gen = None
            e = node
            if isinstance(node, ast.GeneratorExp):
                gen = node.generators[0]
                e = node.elt
            sub = None
            if isinstance(e, ast.Subscript):
                sub = e.slice
                e = e.value
            if not isinstance(e, ast.Attribute) or e.attr != field.split(".")[-1]:
                continue
            # receiver condition
            if gen is None:
                recv = it.eval(e.value, dict(self.env))
                if it.fq(recv, e.attr) != field:
                    continue
                rc = core.ref_eq(r, recv.ref)
                env2 = dict(self.env)
            else:
                seq = it.eval(gen.iter, dict(self.env))
                if not isinstance(seq, SymList):
                    raise Unsupported("modifies generator over a non-list")
                if isinstance(gen.target, ast.Name) and isinstance(e.value, ast.Name) and e.value.id == gen.target.id:
                    if it.fq(ObjV(r, seq.elem_classes), e.attr) != field:
                        continue
                    rc = it.heap.list_member(seq.field, seq.owner.ref, r)
                    env2 = dict(self.env)
                    env2[gen.target.id] = ObjV(r, seq.elem_classes)
                    if gen.ifs:
                        rc = conj(rc, *[it.truth(it.eval(c, env2)) for c in gen.ifs])
                else:
                    # l.dest.vals[...] for l in self.outlinks: exists an element with that receiver -- decided element by
                    # element when the precondition fixes the length of the list (`unroll_max`)
                    c = it.forced_length(seq)
                    if c is None:
                        raise Unsupported("modifies through a derived receiver needs a list of fixed length (unroll_max)")
                    for i in range(c):
                        env2 = dict(self.env)
                        it.assign_target(gen.target, it.seq_elem(seq, z3.IntVal(i)), env2)
                        recv = it.eval(e.value, env2)
                        if it.fq(recv, e.attr) != field:
                            continue
                        rc = core.ref_eq(r, recv.ref)
                        if gen.ifs:
                            rc = conj(rc, *[it.truth(it.eval(cnd, env2)) for cnd in gen.ifs])
                        alts.append(conj(rc, self._sub_cond(kind, sub, idx, env2)))
                    continue
            alts.append(conj(rc, self._sub_cond(kind, sub, idx, env2)))
        return disj(*alts)

    def _sub_cond(self, kind, sub, idx, env2):
        ic = True
        if sub is not None and idx:
            if kind == "a1":
                ic = self._idx_cond(sub, idx[0], env2)
            elif kind == "a2":
                if isinstance(sub, ast.Tuple):
                    ic = conj(self._idx_cond(sub.elts[0], idx[0], env2), self._idx_cond(sub.elts[1], idx[1], env2))
                else:
                    ic = self._idx_cond(sub, idx[0], env2)
        return ic

    def _idx_cond(self, sub, i, env):
        if isinstance(sub, ast.Slice):
            c = []
            if sub.lower is not None:
                c.append(i >= to_z3num(self.it.eval(sub.lower, env)))
            if sub.upper is not None:
                c.append(i < to_z3num(self.it.eval(sub.upper, env)))
            return conj(*c)
        return i == to_z3num(self.it.eval(sub, env))


# ---------------------------------------------------------------------------------------------------- running
class FunctionReport:
    def __init__(self, qualname):
        self.qualname = qualname
        self.obligations = []
        self.paths = 0
        self.unsupported = []
        self.src_hash = None
        self.assumptions = set()
        self.seconds = 0.0
        self.lemma_side_proofs = 0


def verify_function(qualname, contract, schema, timeout_ms=10000, contracts=None, only=None):
    t0 = time.time()
    # side-proof caches are keyed on z3 term ids, which are only stable while the terms are alive: one function, one cache
    _side_cache.clear()
    _side_timeouts.clear()
    if contract.get("schema_override"):
        # a contract may narrow the class sets of fields (a stronger type invariant in its precondition)
        schema = {k: (dict(v) if isinstance(v, dict) else v) for k, v in schema.items()}
        for cls, fields in contract["schema_override"].items():
            schema.setdefault(cls, {}).update(fields)
    fi = source.lookup(qualname)
    rep = FunctionReport(qualname)
    rep.src_hash = fi.src_hash
    mod = fi.module
    recv_classes = contract.get("self_classes")
    if recv_classes is None and fi.cls is not None:
        recv_classes = mod.receivers(fi.cls, fi.name.split(".")[0] if not fi.qualname.endswith(".setter") else fi.name)
        if fi.qualname.endswith(".setter"):
            recv_classes = mod.subclasses(fi.cls)
    path_no = [0]
    body_stmts = fi.body()
    frag = contract.get("fragment")
    frag_loop = None
    if frag is not None and "stmt_top" in frag:
        # the contract is on ONE top-level statement of the function: the one whose source text starts with the given text
        sel = [st for st in body_stmts if ast.unparse(st).replace('"', "'").startswith(frag["stmt_top"].replace('"', "'"))]
        if len(sel) != 1:
            raise Unsupported("fragment: %d top-level statements start with %r in %s" % (len(sel), frag["stmt_top"], qualname))
        rep.fragment = "statement at line %d (`%s ...`)" % (sel[0].lineno, frag["stmt_top"][:40])
        body_stmts = sel
        frag = None
    if frag is not None and "before" in frag:
        # the contract is on the head of the function: every top-level statement before the one whose source text starts with the
        # given text (the function's parameters are the contract's parameters; locals assigned by the head are visible to clauses)
        idx = [i for i, st in enumerate(body_stmts) if ast.unparse(st).replace('"', "'").startswith(frag["before"].replace('"', "'"))]
        if len(idx) != 1:
            raise Unsupported("fragment: %d top-level statements start with %r in %s" % (len(idx), frag["before"], qualname))
        rep.fragment = "statements before line %d (`%s ...`)" % (body_stmts[idx[0]].lineno, frag["before"][:40])
        body_stmts = body_stmts[: idx[0]]
        frag = None
    if frag is not None and "after" in frag:
        # the contract is on the tail of the function: every top-level statement after the one whose source text starts with
        # the given text (the variables bound before it are contract parameters)
        idx = [i for i, st in enumerate(body_stmts) if ast.unparse(st).replace('"', "'").startswith(frag["after"].replace('"', "'"))]
        if len(idx) != 1:
            raise Unsupported("fragment: %d top-level statements start with %r in %s" % (len(idx), frag["after"], qualname))
        rep.fragment = "statements after line %d (`%s ...`)" % (body_stmts[idx[0]].lineno, frag["after"][:40])
        body_stmts = body_stmts[idx[0] + 1:]
        frag = None
    if frag is not None:
        # the contract is on a loop body: the statements of the `for` whose iterable has the given source text, executed
        # for an arbitrary element (the loop variable is a contract parameter)
        loops = [n for n in ast.walk(fi.node) if isinstance(n, ast.For)]
        by_iter = [n for n in loops if "iter" in frag and ast.unparse(n.iter).replace('"', "'") == frag["iter"].replace('"', "'")]
        by_body = [n for n in loops if frag.get("body_contains") and frag["body_contains"] in "\n".join(ast.unparse(b) for b in n.body)]
        both = [n for n in by_iter if n in by_body]
        by_body = [n for n in by_body if not any(m is not n and m in list(ast.walk(n)) for m in by_body)]  # innermost (for the body-only fallback)
        # the loop is named by the text of its iterable and / or by a text its body contains; either may have been rewritten, so the
        # two are combined: both agree > the iterable text alone is unambiguous > the body text alone is unambiguous
        if "iter" not in frag:
            frag = dict(frag, iter="<any>")
        if both:
            hits = both
        elif frag.get("body_contains") and len(by_iter) == 1:
            hits = by_iter
        elif frag.get("body_contains") and len(by_body) == 1:
            hits = by_body
        elif not frag.get("body_contains"):
            hits = by_iter
        else:
            hits = []
        if len(hits) != 1:
            raise Unsupported("fragment: %d loops over %s in %s" % (len(hits), frag["iter"], qualname))
        body_stmts = hits[0].body
        frag_loop = hits[0]
        rep.fragment = "body of `for %s in %s` (line %d)" % (ast.unparse(hits[0].target), ast.unparse(hits[0].iter), hits[0].lineno)
        if frag.get("stmt"):
            # one statement of that loop body: the one whose source text starts with the given text
            sel = [st for st in body_stmts if ast.unparse(st).replace('"', "'").startswith(frag["stmt"].replace('"', "'"))]
            if len(sel) != 1:
                raise Unsupported("fragment: %d statements start with %r in the loop over %s in %s" % (len(sel), frag["stmt"], frag["iter"], qualname))
            body_stmts = sel
            rep.fragment = "statement at line %d (`%s ...`) of the body of `for %s in %s`" % (sel[0].lineno, frag["stmt"][:40], ast.unparse(hits[0].target), frag["iter"])

    def run(ch):
        it = Interp(mod, schema, mode=contract.get("mode", "REAL"), contracts=contracts or {})
        it.families = schema.get("__families__")
        it.concrete_new = set(contract.get("concrete_new", ()))
        it.contract_raises = set(contract.get("raises") or ())
        if contract.get("class_module"):
            it.class_module = source.load(contract["class_module"])
            for cname, (cnode, cbases) in it.class_module.classes.items():
                core.CLASSES.add(cname, cbases)
        it.chooser = ch
        it.heap = TrackingHeap("h")
        env = {}
        argnames = [a.arg for a in fi.node.args.args]
        params = contract.get("params", {})
        for a in argnames:
            if a == "self" and "make_env" in contract:
                pass
            elif a == "self" and fi.cls is not None:
                env["self"] = it.new_obj("self", recv_classes)
                # refine: exactly the receiver classes (no further subclass expansion)
                env["self"] = ObjV(env["self"].ref, recv_classes)
                it.facts.append(core.CLASSES.classset_term(env["self"].ref, recv_classes))
            elif a == "cls" and fi.is_classmethod:
                from .interp import ClassV

                env["cls"] = ClassV(contract.get("cls", fi.cls), mod)
            elif a in params:
                env[a] = make_param(it, a, params[a])
            elif "make_env" in contract:
                pass
            else:
                raise Unsupported("contract for %s gives no kind for parameter %s" % (qualname, a))
        for a in params:
            if a not in env:
                env[a] = make_param(it, a, params[a])  # locals of the enclosing function visible to a fragment
        for gname, gkind in contract.get("ghost_params", {}).items():
            env[gname] = make_param(it, gname, gkind)
        if "make_env" in contract:
            it.pre_env = env  # the parameters and ghost parameters made so far, for make_env to build on
            env.update(contract["make_env"](it))  # contract-built pre-state (objects of concrete shape with symbolic contents)
        it.expr_stubs = contract.get("stubs")
        it.call_stubs = contract.get("call_stubs")
        it.unroll_max = contract.get("unroll_max")
        it.ghost_env = env
        it.func_stack.append(fi.qualname)
        # requires
        it.spec_mode = True
        it.definedness = False
        for i, r in enumerate(contract.get("requires", [])):
            v = it.eval(parse_expr(r), dict(env))
            v = it.truth(v) if not isinstance(v, (ForallV, ExistsV, tuple, bool)) else v
            assume_spec(it, v, "requires[%d]" % i)
        if not it.feasible():
            raise CheckerError("requires of %s is unsatisfiable" % qualname)
        it.spec_mode = False
        it.definedness = True
        entry = (list(it.facts), list(it.pc), list(it.qfacts))
        old_heap = it.heap.copy()
        old_env = {k: (v.snapshot() if isinstance(v, LArr) else v) for k, v in env.items()}  # arrays passed in may be mutated in place
        # contract-built objects of concrete shape are mutated in place by the execution: the replay needs their ENTRY state
        entry_env = _deep_snapshot(env) if "make_env" in contract else old_env
        it.replay_env = entry_env
        it.live_env = env
        it.heap.touched = set()
        out = PathOutcome()
        body_env = dict(env)
        if frag_loop is not None and contract["fragment"].get("iter_range"):
            # the loop's iterable, evaluated in the contract's pre-state, must be the integer range the contract states (whatever
            # its source text): first index and stop index are obligations of the fragment
            spec = contract["fragment"]["iter_range"]
            it.definedness = False
            rv = it.eval(frag_loop.iter, dict(env))
            it.definedness = True
            if isinstance(rv, range):
                if rv.step != 1:
                    raise Unsupported("iter_range: a range with a step")
                first, stop = rv.start, rv.stop
            elif isinstance(rv, MapSeq):
                first = rv.get(z3.IntVal(0))
                stop = to_z3num(first) + to_z3num(rv.n)
            else:
                raise Unsupported("iter_range: the iterable of the loop is not an integer range (%r)" % (rv,))
            it.spec_mode = True
            want_first, want_stop = it.eval(parse_expr(spec["first"]), dict(env)), it.eval(parse_expr(spec["stop"]), dict(env))
            it.spec_mode = False
            it.oblige("post", "%s/first" % spec["label"], to_z3num(first) == to_z3num(want_first), frag_loop.lineno, "the loop `for %s in %s` starts at %s" % (ast.unparse(frag_loop.target), ast.unparse(frag_loop.iter), spec["first"]))
            it.oblige("post", "%s/stop" % spec["label"], to_z3num(stop) == to_z3num(want_stop), frag_loop.lineno, "the loop `for %s in %s` stops before %s" % (ast.unparse(frag_loop.target), ast.unparse(frag_loop.iter), spec["stop"]))
        try:
            it.exec_block(body_stmts, body_env)
            out.kind = "return"
            out.value = None
            body_env["LOOP_EXIT"] = "end"
        except _Continue:
            out.kind = "return"  # fragment = loop body: `continue` ends the iteration normally
            out.value = None
            body_env["LOOP_EXIT"] = "continue"
        except _Break:
            out.kind = "return"  # fragment = loop body: `break` ends the iteration AND the loop: clauses can tell through LOOP_EXIT
            out.value = None
            body_env["LOOP_EXIT"] = "break"
        except _Return as r:
            out.kind = "return"
            out.value = r.value
            body_env["LOOP_EXIT"] = "return"   # a fragment left by a `return` statement (as opposed to running to its end)
        except _Raise as r:
            out.kind = "raise"
            out.exc = r.exc_class
            out.line = getattr(r.node, "lineno", None)
        except Aborted:
            # the path ran into a point recorded as "must be unreachable": keep that obligation (it decides the path)
            out.kind = "abort"
        if contract.get("fragment") is not None:
            # a fragment's clauses talk about the local variables it assigns (accumulators of the enclosing function): their
            # final values; old(x) is their value at entry
            live = dict(env)
            live.update(body_env)
            it.live_env = live
        rel = contract.get("relational")
        if rel is not None and out.kind == "return":
            # second execution of the same function with some parameters replaced (relational clause: monotonicity etc.)
            if it.heap.touched:
                raise Unsupported("relational clause on a function that writes to the heap")
            env2 = dict(env)
            for pname, pkind in rel["vary"].items():
                env2[pname] = make_param(it, pname + "_2", pkind)
            it.spec_mode = True
            it.definedness = False
            both = dict(env)
            both.update({k + "_2": v for k, v in env2.items() if k in rel["vary"]})
            for i, r in enumerate(rel.get("requires", [])):
                v = it.eval(parse_expr(r), dict(both))
                v = it.truth(v) if not isinstance(v, (ForallV, ExistsV, tuple, bool)) else v
                assume_spec(it, v, "relational.requires[%d]" % i)
            if not it.feasible():
                raise Infeasible()
            it.spec_mode = False
            it.definedness = False  # definedness was already obliged by the first run
            try:
                it.exec_block(body_stmts, dict(env2))
                res2 = None
            except _Return as r2:
                res2 = r2.value
            except _Raise:
                raise Infeasible()  # relational clauses talk about pairs of normal returns
            it.ghost["result_2"] = res2
            for k in rel["vary"]:
                it.ghost[k + "_2"] = env2[k]
            old_env = dict(old_env)
        path_no[0] += 1
        pid = "p%d" % path_no[0]
        it.oblig_prefix = ""
        try:
            return finish(it, out, pid, old_heap, old_env, entry)
        except Infeasible:
            raise CheckerError("path %s of %s became infeasible while its contract clauses were evaluated" % (pid, qualname))

    def finish(it, out, pid, old_heap, old_env, entry_state):
        # ---- postconditions
        it.spec_mode = True
        it.definedness = False
        it.old_state = (old_heap, old_env)
        if out.kind == "abort":
            for ob in it.obligations:
                ob.replay_ctx = (fi, getattr(it, 'replay_env', old_env), it._mro)
                ob.entry = entry_state
            return it.obligations, out
        if out.kind == "return":
            post_env = dict(it.live_env)  # parameter names denote the objects passed in, in their final state; old(x) their entry state
            post_env["result"] = out.value
            for g, gv in it.ghost.items():
                post_env[g] = gv
            for i, entry in enumerate(contract.get("ensures", [])):
                ename, expr = entry if isinstance(entry, tuple) else ("ensures[%d]" % i, entry)
                try:
                    saved = list(it.pc)
                    saved_q = list(it.qfacts)
                    v = it.eval(parse_expr(expr), dict(post_env))
                    v = it.truth(v) if not isinstance(v, (ForallV, ExistsV, ImpliesV, tuple, bool)) else v
                    pre, goal = goal_of(it, v)
                    it.pc = saved + pre
                    it.oblige("post", "%s/%s" % (ename, pid), goal, None, expr)
                    it.pc = saved
                    it.qfacts = saved_q
                except Unsupported as u:
                    rep.unsupported.append("%s/%s: %s" % (ename, pid, u))
                except (Aborted, _Raise) as ex:
                    # the clause DEFINITELY fails to evaluate in this post-state (a key / index / attribute it speaks about is
                    # not there): what it asserts does not hold
                    it.pc = saved
                    it.qfacts = saved_q
                    it.oblige("post", "%s/%s" % (ename, pid), False, None, "%s -- cannot be evaluated in the post-state (%s): a key, index or attribute the clause speaks about is missing"
                              % (expr, getattr(ex, "exc_class", None) or "definite failure"))
            # frame
            if "modifies" in contract:
                try:
                    frame_obligations(it, contract["modifies"], old_heap, old_env, pid)
                except Unsupported as u:
                    rep.unsupported.append("frame/%s: %s" % (pid, u))
            # a contract with no postcondition at all whose exceptions are unconditional (`raises={"X": "True"}, ensures=[]`) describes a REFUSAL:
            # a path that returns normally accepted what the contract says is refused
            rs = contract.get("raises") or {}
            if contract.get("ensures") == [] and rs and all(cnd is True or cnd == "True" for cnd in rs.values()) and "modifies" not in contract:
                it.oblige("raises", "must-raise:%s/%s" % ("|".join(sorted(rs)), pid), False, None, "the contract says this input is refused with %s, but this path returns normally" % " / ".join(sorted(rs)))
        else:
            allowed = contract.get("raises", {})
            if out.exc not in allowed:
                it.oblige("raises", "unexpected-exception:%s@L%s/%s" % (out.exc, out.line, pid), False, out.line, "exception %s escapes but the contract does not allow it" % out.exc)
            else:
                cond = allowed[out.exc]
                if cond is not True and cond is not None:
                    save = it.heap
                    it.heap = old_heap.copy()
                    try:
                        v = it.truth(it.eval(parse_expr(cond), dict(old_env)))
                    finally:
                        it.heap = save
                    pre, goal = goal_of(it, v)
                    saved = list(it.pc)
                    it.pc = saved + pre
                    it.oblige("raises", "raises:%s/%s" % (out.exc, pid), goal, out.line, cond)
                    it.pc = saved
        # cover (vacuity guard)
        it.oblige("cover", "cover/%s" % pid, False, None, "path assumptions must be satisfiable (expected: refuted)")
        rep.assumptions |= it.assumptions_log
        for ob in it.obligations:
            ob.replay_ctx = (fi, getattr(it, 'replay_env', old_env), it._mro)
            ob.entry = entry_state
        return it.obligations, out

    try:
        results = explore(run)
    except Unsupported as u:
        rep.unsupported.append("execution: %s" % u)
        results = []
    rep.paths = len(results)
    for obls, out in results:
        rep.obligations += obls
    # cover obligations for `returns`/`raises` outcomes that the contract says must be reachable
    must = contract.get("reachable", [])
    kinds = set()
    for obls, out in results:
        kinds.add(out.kind if out.kind in ("return", "abort") else "raise:" + out.exc)
    for m in must:
        if m not in kinds:
            ob = Obligation("reachable:%s" % m, "cover", [], z3.BoolVal(False), None)
            ob.status = "unreachable"
            rep.obligations.append(ob)
    for ob in rep.obligations:
        if only and not any(o in ob.name for o in only):
            ob.status = "skipped"
            continue
        discharge(ob, timeout_ms, rep)
    rep.seconds = time.time() - t0
    return rep


def apply_contract(it, fi, contract, args, kwargs, node=None):
    """MODULAR call: the caller sees the callee's contract, not its body.  The callee's requires become obligations of the caller
    (`pre:` ...), the locations in its modifies clause are havocked, its ensures are assumed.  Supported frames: scalar fields of
    the receiver (`self.f`); the callee's contract is discharged on its own (it is a registered contract)."""
    argnames = [a.arg for a in fi.node.args.args]
    env = {}
    for n_, v in zip(argnames, args):
        env[n_] = v
    for k, v in kwargs.items():
        env[k] = v
    line = getattr(node, "lineno", None)
    saved_mode, saved_def, saved_old = it.spec_mode, it.definedness, it.old_state
    it.spec_mode, it.definedness = True, False
    try:
        for i, r in enumerate(contract.get("requires", [])):
            v = it.truth(it.eval(parse_expr(r), dict(env)))
            if isinstance(v, (ForallV, ExistsV, tuple)):
                raise Unsupported("modular call of %s: quantified precondition" % fi.qualname)
            it.oblige("defined", "pre:%s.requires[%d]@L%s" % (fi.qualname.split(":")[-1], i, line), v if not isinstance(v, bool) else z3.BoolVal(v), line,
                      note="precondition of the callee's contract at the call site: %s" % r)
        old_heap = it.heap.copy()
        old_env = dict(env)
        for m in contract.get("modifies", []):
            mn = parse_expr(m)
            if not (isinstance(mn, ast.Attribute) and isinstance(mn.value, ast.Name) and mn.value.id == "self"):
                raise Unsupported("modular call of %s: frame entry %s (only scalar fields of the receiver are supported)" % (fi.qualname, m))
            o = env["self"]
            kind = it.field_kind(o.classes, mn.attr)
            if kind not in ("real", "int", "bool"):
                raise Unsupported("modular call of %s: frame entry %s of kind %s" % (fi.qualname, m, kind))
            sort = {"real": z3.RealSort(), "int": z3.IntSort(), "bool": z3.BoolSort()}[kind]
            it.heap.write_scal(it.fq(o, mn.attr), kind, o.ref, fresh("havoc_" + mn.attr, sort))
        it.old_state = (old_heap, old_env)
        post_env = dict(env)
        post_env["result"] = None
        for entry in contract.get("ensures", []):
            expr = entry[1] if isinstance(entry, tuple) else entry
            v = it.truth(it.eval(parse_expr(expr), dict(post_env)))
            assume_spec(it, v, "callee-ensures")
        it.assumptions_log.add("modular call: %s is represented by its contract (discharged separately)" % fi.qualname)
    finally:
        it.spec_mode, it.definedness, it.old_state = saved_mode, saved_def, saved_old
    return None


def frame_obligations(it, modifies, old_heap, old_env, pid):
    mod = Modifies(it, modifies, old_env)
    new_heap = it.heap
    for kind, field, skind in sorted(new_heap.touched, key=str):
        r = fresh("fr", core.Ref)
        if kind == "scal":
            # the ?none flags of optional fields follow their field
            fname = field[:-5] if field.endswith("?none") else field
            allowed = mod.allowed("scal", fname, r, ())
            goal = z3.Implies(z3.Not(core.to_bool(allowed)) if not isinstance(allowed, bool) else z3.BoolVal(not allowed), new_heap.read_scal(field, skind, r) == old_heap.read_scal(field, skind, r))
        elif kind == "a1":
            i = fresh("fi", z3.IntSort())
            allowed = mod.allowed("a1", field, r, (i,))
            goal = z3.Implies(z3.Not(core.to_bool(allowed)) if not isinstance(allowed, bool) else z3.BoolVal(not allowed), new_heap.read_a1(field, r, i) == old_heap.read_a1(field, r, i))
        elif kind == "a2shape":
            allowed = mod.allowed("a2", field, r, ())
            goal = z3.Implies(z3.Not(core.to_bool(allowed)) if not isinstance(allowed, bool) else z3.BoolVal(not allowed), z3.And(new_heap.rows_a2(field, r) == old_heap.rows_a2(field, r), new_heap.cols_a2(field, r) == old_heap.cols_a2(field, r)))
        elif kind == "a1len":
            allowed = mod.allowed("a1", field, r, ())
            goal = z3.Implies(z3.Not(core.to_bool(allowed)) if not isinstance(allowed, bool) else z3.BoolVal(not allowed), new_heap.len_a1(field, r) == old_heap.len_a1(field, r))
        else:
            i = fresh("fi", z3.IntSort())
            c = fresh("fc", z3.IntSort())
            allowed = mod.allowed("a2", field, r, (i, c))
            goal = z3.Implies(z3.Not(core.to_bool(allowed)) if not isinstance(allowed, bool) else z3.BoolVal(not allowed), new_heap.read_a2(field, r, i, c) == old_heap.read_a2(field, r, i, c))
        it.oblige("frame", "frame:%s/%s" % (field, pid), goal, None, "locations of field %s outside modifies are unchanged" % field)


# ---------------------------------------------------------------------------------------------------- discharge
def _solver(timeout_ms):
    s = z3.Solver()
    s.set("timeout", int(timeout_ms))
    return s


def _k_bound(c):
    """conjunct of an atom guard that bounds the canonical index by a term free of it: ('ub', U) for K < U, ('lb', L) for K >= L"""
    K = sums.K
    flip = False
    while z3.is_not(c):
        c = c.arg(0)
        flip = not flip
    kind = c.decl().kind()
    if kind not in (z3.Z3_OP_LE, z3.Z3_OP_GE, z3.Z3_OP_LT, z3.Z3_OP_GT):
        return None
    a, b = c.children()
    if not z3.is_int(a):
        return None
    if a.eq(K) and not core.contains(b, K):
        res = {z3.Z3_OP_LE: ("ub", b + 1), z3.Z3_OP_LT: ("ub", b), z3.Z3_OP_GE: ("lb", b), z3.Z3_OP_GT: ("lb", b + 1)}[kind]
    elif b.eq(K) and not core.contains(a, K):
        res = {z3.Z3_OP_LE: ("lb", a), z3.Z3_OP_LT: ("lb", a + 1), z3.Z3_OP_GE: ("ub", a + 1), z3.Z3_OP_GT: ("ub", a)}[kind]
    else:
        return None
    if flip:
        res = ("lb" if res[0] == "ub" else "ub", res[1])
    return res


def range_split_facts(apps):
    """lemma sum_range_upper / sum_range_lower (pyvc.lemmas): for a prefix sum whose guard bounds the index by a term p free
    of it,   A_{G and K<p}(j) = A_G(min(j, max(p,0)))   and   A_{G and K>=p}(j) = A_G(j) - A_G(min(j, max(p,0)))   for j >= 0"""
    facts, terms = [], []
    for atom, j, args, term in apps:
        if atom.guard is True:
            continue
        args = list(args)
        conjs = sums._conjuncts(atom.guard_at(sums.K, args))
        for n, c in enumerate(conjs):
            b = _k_bound(c)
            if b is None:
                continue
            rest = conjs[:n] + conjs[n + 1:]
            g2 = True if not rest else (z3.And(rest) if len(rest) > 1 else rest[0])
            a2, actual2 = sums.get_atom(g2, atom.term_at(sums.K, args))
            app2 = (lambda x: z3.ToReal(x)) if a2.key == "T ? 1.0" else (lambda x, a2=a2, actual2=actual2: a2.app(x, actual2))
            kind, B = b
            B = z3.simplify(B)
            m = z3.If(B <= 0, z3.IntVal(0), z3.If(B <= j, B, j))
            if kind == "ub":
                facts.append(z3.Implies(j >= 0, term == app2(m)))
            else:
                facts.append(z3.Implies(j >= 0, term == app2(j) - app2(m)))
                terms.append(app2(j))
            terms.append(app2(m))
            break
    return facts, terms


def lemma_facts(assumptions, goal, index_terms, qfacts, timeout_ms, rep=None, depth=0, only_terms=None):
    """instances of the sum lemmas justified under `assumptions` (side conditions proved for a fresh k)"""
    facts = []
    apps = sums.atom_apps(list(only_terms) if only_terms is not None else (list(assumptions) + [goal]))
    if not apps:
        return facts
    rfacts, rterms = range_split_facts(apps)
    if rfacts:
        facts += rfacts
        seen_ids = {t.get_id() for _, _, _, t in apps}
        apps += [x for x in sums.atom_apps(rterms) if x[3].get_id() not in seen_ids]
    groups = {}
    for atom, j, args, term in apps:
        key = (atom.key, tuple(a.get_id() for a in args))
        groups.setdefault(key, (atom, args, []))[2].append(j)
    # one generic index per obligation: its instances of the quantified assumptions are valid facts and are added once
    k = fresh("lk", z3.IntSort())
    kinst = []
    for q in qfacts:
        import itertools

        terms = list(index_terms) + [k]
        for ks in itertools.product(terms, repeat=len(q.qvars)):
            if any(x is k for x in ks):
                kinst.append(q.instance(*ks))
    hyps_base = _BaseSolver(list(assumptions) + kinst, timeout_ms)
    base_ids = frozenset(h.get_id() for h in assumptions)
    for (akey, argids), (atom, args, js) in groups.items():
        args = list(args)
        facts.append(atom.app(0, args) == 0)
        # distinct index terms
        uniq = []
        for j in js:
            if not any(j.eq(u) for u in uniq):
                uniq.append(j)
        # unfolding between syntactically consecutive points
        for a in uniq:
            for b in uniq:
                d = z3.simplify(b - a)
                if z3.is_int_value(d) and d.as_long() == 1:
                    facts.append(z3.Implies(a >= 0, sums.unfold_fact(atom, a, args)))
        # side proofs: sign of the summand on [0, j)
        for j in uniq:
            cj = concrete_int(j)
            if cj is not None and cj <= 0:
                continue
            inst = []
            rng = [0 <= k, k < j, atom.guard_at(k, args)]
            t = atom.term_at(k, args)
            if depth == 0 and sums.atom_apps([t]):
                # the summand itself contains sums (sum over rows inside a sum over links): one level of nesting
                inst = lemma_facts(list(assumptions) + kinst + rng, t >= 0, list(index_terms) + [k], qfacts, timeout_ms, rep, depth=1, only_terms=[t])
            if _valid(hyps_base + inst + rng, t >= 0, timeout_ms, rep, key=(akey, argids, j.get_id(), 'ge0', base_ids)):
                facts.append(z3.Implies(j >= 0, atom.app(j, args) >= 0))
                # monotone prefixes and element bounds
                for j2 in uniq:
                    if not j2.eq(j):
                        facts.append(z3.Implies(z3.And(0 <= j2, j2 <= j), atom.app(j2, args) <= atom.app(j, args)))
                for tix in index_terms:
                    facts.append(z3.Implies(z3.And(0 <= tix, tix < j), atom.summand(tix, args) <= atom.app(j, args)))
                if _valid(hyps_base + inst + rng, t == 0, timeout_ms, rep, key=(akey, argids, j.get_id(), 'eq0', base_ids)):
                    facts.append(z3.Implies(j >= 0, atom.app(j, args) == 0))
            elif _valid(hyps_base + inst + rng, t <= 0, timeout_ms, rep, key=(akey, argids, j.get_id(), 'le0', base_ids)):
                facts.append(z3.Implies(j >= 0, atom.app(j, args) <= 0))
            # first / last element split when the bound is known positive
            facts.append(z3.Implies(j >= 1, sums.unfold_fact(atom, j - 1, args)))
            facts.append(z3.Implies(j >= 1, atom.app(1, args) == atom.summand(0, args)))
    # pairwise: pointwise equal / ordered summands over the same range
    glist = list(groups.values())
    if len(glist) <= 8:
        for x in range(len(glist)):
            for y in range(x + 1, len(glist)):
                a1, args1, js1 = glist[x]
                a2, args2, js2 = glist[y]
                for j in js1:
                    if not any(j.eq(u) for u in js2):
                        continue
                    cj = concrete_int(j)
                    if cj is not None and cj <= 0:
                        continue
                    inst = []
                    rng = [0 <= k, k < j]
                    s1, s2 = a1.summand(k, list(args1)), a2.summand(k, list(args2))
                    pk = (a1.key, a2.key, tuple(x.get_id() for x in args1), tuple(x.get_id() for x in args2), j.get_id())
                    if _valid(hyps_base + inst + rng, s1 == s2, timeout_ms, rep, key=pk + ('eq', base_ids)):
                        facts.append(a1.app(j, list(args1)) == a2.app(j, list(args2)))
                    elif _valid(hyps_base + inst + rng, s1 <= s2, timeout_ms, rep, key=pk + ('le', base_ids)):
                        facts.append(z3.Implies(j >= 0, a1.app(j, list(args1)) <= a2.app(j, list(args2))))
                    elif _valid(hyps_base + inst + rng, s2 <= s1, timeout_ms, rep, key=pk + ('ge', base_ids)):
                        facts.append(z3.Implies(j >= 0, a2.app(j, list(args2)) <= a1.app(j, list(args1))))
                    break
    return facts


_side_cache = {}
_nest_counter = [0]


class _BaseSolver:
    """incremental solver holding the assumptions of one obligation; side proofs push/pop on it"""

    def __init__(self, base, timeout_ms):
        self.base = base
        self.extra = []
        self.solver = None
        self.timeout_ms = timeout_ms

    def __add__(self, other):
        b = _BaseSolver(self.base, self.timeout_ms)
        b.solver = self.solver
        b.owner = getattr(self, "owner", self)
        b.extra = self.extra + list(other)
        return b

    def check_valid(self, goal):
        owner = getattr(self, "owner", self)
        if owner.solver is None:
            owner.solver = _solver(min(owner.timeout_ms, 1500))
            owner.solver.set("rlimit", 4000000)
            owner.solver.add(*owner.base)
            owner.solver.add(*core.list_axiom_instances(owner.base))
        s = owner.solver
        s.push()
        try:
            s.add(*self.extra)
            s.add(z3.Not(goal))
            s.add(*core.list_axiom_instances(self.extra + [goal]))
            r = s.check()
            self.last_unknown = r == z3.unknown
            owner.last_unknown = self.last_unknown
            return r == z3.unsat
        finally:
            s.pop()


_side_timeouts = set()


def _valid(hyps, goal, timeout_ms, rep=None, key=None):
    """side proof; results are cached per claim: a claim valid under a set of hypotheses is valid under any superset"""
    if isinstance(hyps, _BaseSolver):
        ids = None
        if key is not None:
            ids = key[-1]
            for prev_ids, res in _side_cache.get(key[:-1], []):
                if res and prev_ids <= ids:
                    return True
                if not res and prev_ids == ids:
                    return False
            if key[:-1] in _side_timeouts:
                return False  # the same claim already ran into the side-proof budget on another path: not tried again
        if rep is not None:
            rep.lemma_side_proofs += 1
        res = hyps.check_valid(goal)
        if key is not None:
            _side_cache.setdefault(key[:-1], []).append((ids, res))
            if not res and getattr(hyps, "last_unknown", False):
                _side_timeouts.add(key[:-1])
        return res
    ids = None
    if key is not None:
        ids = key[-1]
        for prev_ids, res in _side_cache.get(key[:-1], []):
            if res and prev_ids <= ids:
                return True
            if not res and prev_ids == ids:
                return False
    s = _solver(min(timeout_ms, 5000))
    s.add(*hyps)
    s.add(z3.Not(goal))
    s.add(*core.list_axiom_instances(list(hyps) + [goal]))
    if rep is not None:
        rep.lemma_side_proofs += 1
    res = s.check() == z3.unsat
    if key is not None:
        _side_cache.setdefault(key[:-1], []).append((ids, res))
    return res


def _mentions_fresh(h, k):
    return core.contains(h, k)


def goal_index_terms(ob, limit=10):
    """integer terms used as array indices in the goal (e.g. j + 1): quantified assumptions are instantiated on them too"""
    out = list(ob.index_terms)
    seen = {t.get_id() for t in out}
    for x in core.uninterp_apps(ob.goal):
        nm = x.decl().name()
        if nm.endswith("[]") or nm.endswith("[,]"):
            for a in x.children()[1:]:
                if z3.is_int(a) and not z3.is_int_value(a) and a.get_id() not in seen and len(out) < len(ob.index_terms) + limit:
                    seen.add(a.get_id())
                    out.append(a)
    return out


def div_cancel_hints(terms, limit=40):
    """valid facts of real arithmetic the nonlinear solver does not find by itself:  d != 0  =>  (a*d)/d == a   for quotients
    whose (linearly simplified) numerator has the denominator as a factor"""
    hints = []
    seen = set()
    stack = list(terms)
    while stack and len(hints) < limit:
        t = stack.pop()
        if not z3.is_expr(t) or t.get_id() in seen:
            continue
        seen.add(t.get_id())
        stack.extend(t.children())
        if z3.is_app(t) and t.decl().kind() == z3.Z3_OP_DIV and z3.is_real(t):
            num, d = t.children()
            if z3.is_rational_value(d):
                continue
            hints.append(z3.Implies(d != 0, t * d == num))  # (x/d)*d == x
            ns = z3.simplify(num)
            if z3.is_app(ns) and ns.decl().kind() == z3.Z3_OP_MUL:
                fs = ns.children()
                for i, f in enumerate(fs):
                    if f.eq(d):
                        rest = fs[:i] + fs[i + 1:]
                        a = rest[0] if len(rest) == 1 else z3.Product(*rest)
                        hints.append(z3.Implies(d != 0, t == a))
                        break
    return hints


def div_cancel_rewrite(assumptions, goal):
    """(a*d)/d -> a wherever the assumptions entail d != 0 (checked by the solver first): the same problem with the quotient
    removed, which keeps it inside linear arithmetic.  Returns (assumptions', goal') or None when nothing applies."""
    pairs = []
    seen = set()
    stack = [goal] + list(assumptions)
    while stack:
        t = stack.pop()
        if not z3.is_expr(t) or t.get_id() in seen:
            continue
        seen.add(t.get_id())
        stack.extend(t.children())
        if z3.is_app(t) and t.decl().kind() == z3.Z3_OP_DIV and z3.is_real(t):
            num, d = t.children()
            if z3.is_rational_value(d):
                continue
            ns = z3.simplify(num)
            if z3.is_app(ns) and ns.decl().kind() == z3.Z3_OP_MUL:
                fs = ns.children()
                for i, f in enumerate(fs):
                    if f.eq(d):
                        rest = fs[:i] + fs[i + 1:]
                        pairs.append((t, rest[0] if len(rest) == 1 else z3.Product(*rest), d))
                        break
    if not pairs:
        return None
    ok = []
    dens = {}
    for t, a, d in pairs:
        if d.get_id() not in dens:
            sd = _solver(2000)
            sd.add(*assumptions)
            sd.add(d == 0)
            dens[d.get_id()] = sd.check() == z3.unsat
        if dens[d.get_id()]:
            ok.append((t, a))
    if not ok:
        return None
    return [z3.substitute(x, *ok) for x in assumptions], z3.substitute(goal, *ok)


def full_assumptions(ob, timeout_ms, rep=None):
    base = list(ob.assumptions)
    ob.index_terms = goal_index_terms(ob)
    for q in ob.qfacts:
        base += q.instances(ob.index_terms)
    base += core.str_distinct_facts()
    base += div_cancel_hints([ob.goal] + list(ob.assumptions))
    lf = lemma_facts(base, ob.goal, ob.index_terms, ob.qfacts, timeout_ms, rep)
    # a second round: lemma facts may mention new applications (unfoldings)
    if lf:
        lf2 = lemma_facts(base + lf, ob.goal, ob.index_terms, ob.qfacts, timeout_ms, rep)
        seen = {f.get_id() for f in lf}
        lf += [f for f in lf2 if f.get_id() not in seen]
    return base + lf


def _is_discrete(t, memo):
    """no real-sorted sub-term (integer / reference / boolean reasoning only)"""
    import z3.z3core as zc

    ctx = t.ctx.ref()
    stack = [t.as_ast()]
    seen = set()
    while stack:
        a = stack.pop()
        i = zc.Z3_get_ast_id(ctx, a)
        if i in seen:
            continue
        seen.add(i)
        if i in memo:
            if not memo[i]:
                return False
            continue
        if zc.Z3_get_sort_kind(ctx, zc.Z3_get_sort(ctx, a)) == z3.Z3_REAL_SORT:
            memo[i] = False
            return False
        if zc.Z3_get_ast_kind(ctx, a) == z3.Z3_APP_AST:
            app = zc.Z3_to_app(ctx, a)
            for j in range(zc.Z3_get_app_num_args(ctx, app)):
                stack.append(zc.Z3_get_app_arg(ctx, app, j))
    return True


def prune_goal(goal, assumptions, budget_ms=4000):
    """decide the discrete conditions (index comparisons, typeof tests, list membership) that guard if-then-else terms in
    the goal under the discrete part of the assumptions, and substitute their truth values.  Sound: a condition is replaced
    by True/False only if the assumptions entail it; the nonlinear real reasoning then sees far fewer case splits."""
    memo = {}
    conds = {}
    seen = set()
    stack = [goal]
    while stack:
        t = stack.pop()
        if t.get_id() in seen:
            continue
        seen.add(t.get_id())
        if z3.is_app(t):
            if t.decl().kind() == z3.Z3_OP_ITE:
                c = t.arg(0)
                for a in (c.children() if (z3.is_and(c) or z3.is_or(c)) else [c]):
                    if _is_discrete(a, memo):
                        conds[a.get_id()] = a
                if _is_discrete(c, memo):
                    conds[c.get_id()] = c
            stack.extend(t.children())
    if not conds:
        return goal
    disc = [a for a in assumptions if _is_discrete(a, memo)]
    s = z3.Solver()
    s.set("timeout", 500)
    s.add(*disc)
    s.add(*core.list_axiom_instances(disc + list(conds.values())))
    t0 = time.time()
    reps = []
    for c in conds.values():
        if (time.time() - t0) * 1000 > budget_ms:
            break
        s.push()
        s.add(z3.Not(c))
        r = s.check()
        s.pop()
        if r == z3.unsat:
            reps.append((c, z3.BoolVal(True)))
            continue
        s.push()
        s.add(c)
        r = s.check()
        s.pop()
        if r == z3.unsat:
            reps.append((c, z3.BoolVal(False)))
    if not reps:
        return goal
    return z3.simplify(z3.substitute(goal, *reps))


def discharge(ob, timeout_ms=10000, rep=None):
    t0 = time.time()
    # stage 1: without sum-lemma instances (fewer assumptions: a proof here is a proof)
    if ob.kind != "cover":
        base = list(ob.assumptions)
        ob.index_terms = goal_index_terms(ob)
        for q in ob.qfacts:
            base += q.instances(ob.index_terms)
        base += core.str_distinct_facts()
        rw = div_cancel_rewrite(base, ob.goal)
        for b_, g_ in ([rw] if rw is not None else []) + [(base, ob.goal)]:
            s1 = _solver(min(timeout_ms, 1500))
            s1.add(*b_)
            s1.add(z3.Not(g_))
            s1.add(*core.list_axiom_instances(list(b_) + [g_]))
            if s1.check() == z3.unsat:
                ob.status = "proved"
                ob.backend = "z3"
                ob.seconds = time.time() - t0
                return ob
    try:
        assumptions = full_assumptions(ob, timeout_ms, rep)
    except Exception as e:  # pragma: no cover
        ob.status = "error"
        ob.note = "%s: %s" % (type(e).__name__, e)
        ob.seconds = time.time() - t0
        return ob
    s = _solver(timeout_ms if ob.kind != "cover" else min(timeout_ms, 4000))
    if ob.kind == "cover":
        s.set("rlimit", 30000000)  # the wall-clock timeout is not always honoured by the nonlinear engine
    s.add(*assumptions)
    goal = ob.goal
    if ob.kind != "cover":
        try:
            goal = prune_goal(goal, assumptions)
        except z3.Z3Exception:
            goal = ob.goal
    s.add(z3.Not(goal))
    s.add(*core.list_axiom_instances(list(assumptions) + [goal]))
    if ob.kind != "cover":
        s.set("timeout", min(int(timeout_ms), 2000))  # first a short attempt, then other arithmetic solvers / seeds, then the full budget
    r = s.check()
    ob.backend = "z3"
    if r == z3.unknown and ob.kind != "cover":
        # z3's nonlinear search is sensitive to incidental term order: retry with other seeds / arithmetic solvers before giving up
        for attempt, opts in enumerate(({"arith.solver": 2}, {"random_seed": 7}, {"random_seed": 23, "arith.solver": 2}, {"random_seed": 101, "arith.nl.order": True}, {})):
            s2 = _solver(6000 if opts else timeout_ms)
            for k, v in opts.items():
                try:
                    s2.set(k, v)
                except z3.Z3Exception:
                    pass
            s2.add(*assumptions)
            s2.add(z3.Not(goal))
            s2.add(*core.list_axiom_instances(list(assumptions) + [goal]))
            r = s2.check()
            if r != z3.unknown:
                s = s2
                ob.note = (ob.note or "") + " [decided on retry %d]" % (attempt + 1)
                break
    if r == z3.unknown and ob.kind != "cover":
        r2 = _try_cvc5(s, timeout_ms)
        if r2 is not None:
            r = r2
            ob.backend = "cvc5"
    if ob.kind == "cover":
        # expected: satisfiable assumptions
        if r == z3.sat:
            ob.status = "proved"
        elif r == z3.unsat:
            ob.status = "vacuous"
        else:
            # the consistency of the lemma instances could not be decided within the budget: fall back to the path
            # assumptions alone (what the path exploration itself relies on)
            s0 = _solver(min(timeout_ms, 4000))
            base0 = list(ob.assumptions)
            for q in ob.qfacts:
                base0 += q.instances(ob.index_terms)
            s0.add(*base0)
            s0.add(*core.list_axiom_instances(base0))
            r0 = s0.check()
            ob.status = "proved" if r0 == z3.sat else ("vacuous" if r0 == z3.unsat else "unknown")
            ob.note = (ob.note or "") + " [cover decided without the sum-lemma instances: their joint consistency check timed out]"
    else:
        if r == z3.unsat:
            ob.status = "proved"
        elif r == z3.sat:
            ob.status = "refuted"
            ob.model = s.model() if ob.backend == "z3" else None
            ob.solver = s
        else:
            ob.status = "unknown"
            ob.note = (ob.note or "") + " reason=" + s.reason_unknown()
    ob.seconds = time.time() - t0
    return ob


def _try_cvc5(solver, timeout_ms):
    import subprocess, tempfile, os

    try:
        smt = solver.to_smt2()
        with tempfile.NamedTemporaryFile("w", suffix=".smt2", delete=False) as f:
            f.write("(set-logic ALL)\n" + smt)
            path = f.name
        try:
            out = subprocess.run(["/usr/bin/cvc5", "--tlimit=%d" % timeout_ms, "--nl-ext-tplanes", path], capture_output=True, text=True, timeout=timeout_ms / 1000 + 5)
        finally:
            os.unlink(path)
        first = out.stdout.strip().splitlines()[0] if out.stdout.strip() else ""
        if first == "unsat":
            return z3.unsat
        if first == "sat":
            return z3.sat
    except Exception:
        pass
    return None


def entry_model(ob, max_len=3, seed=0):
    """a model of the function-entry assumptions (facts + requires), with the quantified requires instantiated on the first
    indices and list lengths capped: the starting point of the bounded counterexample search.  Shapes (list lengths, row
    counts) and the classes of list elements are randomised per seed so that different structures are explored."""
    import random

    rng = random.Random(seed)
    facts, pc, qfacts = ob.entry
    s = z3.Solver()
    s.set("timeout", 10000)
    s.set("random_seed", seed)
    base = list(facts) + list(pc)
    idx = [z3.IntVal(i) for i in range(max_len + 1)]
    for q in qfacts:
        base += q.instances(idx)
    s.add(*base)
    lens = {}
    owners = {}
    for t in base:
        for x in core.uninterp_apps(t):
            nm = x.decl().name()
            if nm.startswith("len(") and x.num_args() == 1:
                lens[x.get_id()] = x
                owners[(nm[4:-1], x.arg(0).get_id())] = (nm[4:-1], x.arg(0))
            elif (nm.startswith("h.rows(") or nm.startswith("h.len(")) and x.num_args() == 1:
                lens[x.get_id()] = x
    for x in lens.values():
        s.add(x >= 0, x <= max_len)
    s.add(*core.list_axiom_instances(base))
    # random shape / class preferences (dropped if they conflict with the precondition)
    prefs = []
    for x in lens.values():
        prefs.append(x == rng.randint(1, max_len))
    for field, owner in owners.values():
        classes = sorted(core.LIST_ELEM_CLASSES.get(field, []))
        if not classes or field not in core.LIST_FUNCS:
            continue
        lelem = core.LIST_FUNCS[field][1]
        for i in range(max_len):
            prefs.append(core.typeof(lelem(owner, z3.IntVal(i))) == core.CLASSES.ids[rng.choice(classes)])
    for attempt in range(6):
        s.push()
        s.add(*prefs)
        s.add(*core.list_axiom_instances(prefs))
        r = s.check()
        if r == z3.sat:
            m = s.model()
            s.pop()
            return m
        s.pop()
        rng.shuffle(prefs)
        prefs = prefs[: max(0, len(prefs) * 2 // 3)]
    if s.check() != z3.sat:
        return None
    return s.model()


def small_counter_model(ob, max_len=2, timeout_ms=8000):
    """a counter-model of the obligation in which every list / row count is at most max_len and every quantified assumption is
    instantiated on ALL positions 0..max_len-1: unlike the solver's first model (quantifiers instantiated on a few index terms only),
    every element of every list then satisfies the precondition, which is what a replay on real objects needs"""
    try:
        base = full_assumptions(ob, timeout_ms)
    except Exception:
        base = list(ob.assumptions)
    idx = [z3.IntVal(i) for i in range(max_len + 1)]
    for q in ob.qfacts:
        base += q.instances(idx)
    s = z3.Solver()
    s.set("timeout", timeout_ms)
    s.add(*base)
    s.add(z3.Not(ob.goal))
    lens = {}
    for t in list(base) + [ob.goal]:
        for x in core.uninterp_apps(t):
            nm = x.decl().name()
            if (nm.startswith("len(") or nm.startswith("h.rows(") or nm.startswith("h.len(")) and x.num_args() == 1:
                lens[x.get_id()] = x
    for x in lens.values():
        s.add(x >= 0, x <= max_len)
    s.add(*core.list_axiom_instances(list(base) + [ob.goal]))
    if s.check() != z3.sat:
        return None
    return s.model()
